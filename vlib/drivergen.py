"""Generates the per-schema C++ driver (DESIGN 3.4) from the schema model.

The driver only uses schema names and documented paths, so compiling it is the
C07 'touch everything' test as well.  C++11 compatible.
"""
from vlib.schemagen import PRIMS

CPP_PRIM = {"char": "char", "int8": "std::int8_t", "uint8": "std::uint8_t", "int16": "std::int16_t", "uint16": "std::uint16_t",
            "int32": "std::int32_t", "uint32": "std::uint32_t", "int64": "std::int64_t", "uint64": "std::uint64_t",
            "float": "float", "double": "double"}
BUILTIN = {p: "sbepp::%s_t" % p for p in PRIMS}
BUILTIN_OPT = {p: "sbepp::%s_opt_t" % p for p in PRIMS}


def cstr(s):
    out = '"'
    for ch in s.encode("utf-8"):
        if ch in (0x22, 0x5C):
            out += "\\" + chr(ch)
        elif 32 <= ch < 127:
            out += chr(ch)
        else:
            out += "\\%03o" % ch
    return out + '"'


class Gen:
    def __init__(self, model, checked=True):
        self.m = model
        self.pkg = model.sch.get("schema_name") or model.sch["package"]
        self.checked = checked
        self.lines = []
        self.uid = 0

    def w(self, s=""):
        self.lines.append(s)

    def fresh(self, p="t"):
        self.uid += 1
        return "%s%d" % (p, self.uid)

    # ------------------------------------------------------------ naming
    def level_tag(self, L):
        return "%s::schema::messages::%s" % (self.pkg, "::".join(L.path))

    def msg_view(self, L):
        return "%s::messages::%s" % (self.pkg, L.name)

    # --------------------------------------------------- value expressions
    def bits_expr(self, m, expr):
        """C++ expression giving the raw bits of the value returned by a getter"""
        if m.kind == "scalar":
            return "rt::bits(%s.value())" % expr
        if m.kind == "enum":
            return "rt::enum_bits(%s)" % expr
        if m.kind == "set":
            return "rt::bits(*%s)" % expr
        raise ValueError(m.kind)

    # ----------------------------------------------------------- dump (ra)
    def member_tag(self, m, parent_tag):
        """tag of the composite/set/enum type a member denotes, used as the parent tag of its children"""
        if m.public_name:
            return "%s::schema::types::%s" % (self.pkg, m.public_name)
        return "%s::%s" % (parent_tag, m.name)

    def expected_type(self, m, byte="const unsigned char"):
        """documented C++ type of a member accessor's result, or None when no documented name exists (inline composite members)"""
        if m.kind == "scalar":
            if m.public_name:
                return "%s::types::%s" % (self.pkg, m.public_name)
            if m.is_field and m.target is None:
                return (BUILTIN_OPT if m.presence == "optional" else BUILTIN)[m.prim]
            return None
        if m.kind in ("enum", "set"):
            return ("%s::types::%s" % (self.pkg, m.public_name)) if m.public_name else None
        if m.kind in ("composite", "array"):
            return ("%s::types::%s<%s>" % (self.pkg, m.public_name, byte)) if m.public_name else None
        return None

    def type_assert(self, m, getter, ind, byte="const unsigned char"):
        t = self.expected_type(m, byte)
        if t:
            self.w("%sstatic_assert(std::is_same<decltype(%s), %s>::value, %s);" % (
                "    " * ind, getter, t, cstr("accessor `%s` does not return the documented type %s" % (m.name, t))))

    def dump_member_ra(self, m, getter, ind, tagctx=None):
        """getter: expression returning the member (e.g. `v0.name()`); tagctx = tag of the member itself when the
        children are to be read through get_by_tag"""
        pad = "    " * ind
        n = cstr(m.name)
        if tagctx is None and "(c)" not in getter:
            self.type_assert(m, getter, ind)
        if m.kind in ("scalar", "enum", "set"):
            self.w("%so.F(%s, %s);" % (pad, n, self.bits_expr(m, getter)))
            if m.kind == "scalar" and m.presence == "optional" and self.null_flags:
                self.w("%so.tok(%s.has_value() ? \"hv\" : \"null\");" % (pad, getter))
            if m.kind == "set" and tagctx is not None:
                # every choice read through get_by_tag<ChoiceTag>(set)
                stag = self.member_tag(m, tagctx)
                sv = self.fresh("s")
                self.w("%s{ auto %s = %s; std::string t_;" % (pad, sv, getter))
                for ch in m.target["choices"]:
                    self.w("%s  t_ += (t_.empty() ? \"\" : \",\"); t_ += %s; t_ += sbepp::get_by_tag<%s::%s>(%s) ? \"=1\" : \"=0\";" % (
                        pad, cstr(ch["name"]), stag, ch["name"], sv))
                self.w("%s  o.tok(\"S \" + (t_.empty() ? std::string(\"-\") : t_)); }" % pad)
        elif m.kind == "array":
            a = self.fresh("a")
            self.w("%s{ auto %s = %s;" % (pad, a, getter))
            if tagctx is None and "(c)" not in getter:
                # the byte-typed raw() view must be bounded by the same buffer: read its last element first
                self.w("%s  { auto r_ = %s.raw(); if(r_.size()) { volatile unsigned char x_ = static_cast<unsigned char>(r_[r_.size() - 1]); (void)x_; } if(r_.size() != %s.size()) o.err(\"raw().size()\"); }" % (pad, a, a))
            self.w("%s  o.A(%s, %s.data(), %s.size()); }" % (pad, n, a, a))
        elif m.kind == "const":
            if m.const_value[0] == "num":
                self.w("%so.K(%s, rt::bits(%s));" % (pad, n, getter))
            else:
                a = self.fresh("k")
                self.w("%s{ auto %s = %s; o.Kb(%s, %s.data(), %s.size()); }" % (pad, a, getter, n, a, a))
        elif m.kind == "constenum":
            self.w("%so.K(%s, rt::enum_bits(%s));" % (pad, n, getter))
        elif m.kind == "composite":
            c = self.fresh("c")
            self.w("%s{ auto %s = %s; o.C(%s);" % (pad, c, getter, n))
            for e in m.elements:
                if tagctx is not None:
                    ctag = self.member_tag(m, tagctx)
                    self.dump_member_ra(e, "sbepp::get_by_tag<%s::%s>(%s)" % (ctag, e.name, c), ind + 1, ctag)
                else:
                    self.dump_member_ra(e, "%s.%s()" % (c, e.name), ind + 1)
            self.w("%s  o.end(); }" % pad)

    null_flags = False

    def dump_level(self, L, v, ind, mode):
        """mode: ra | cur. v: variable naming the level view. In cur mode `c` is the cursor."""
        pad = "    " * ind
        cur = "c" if mode == "cur" else ""
        ltag = self.level_tag(L)

        def acc(name):
            if mode == "tag":
                return "sbepp::get_by_tag<%s::%s>(%s)" % (ltag, name, v)
            return "%s.%s(%s)" % (v, name, cur)
        for m in L.fields:
            if m.is_const:
                if mode in ("ra", "tag"):
                    self.dump_member_ra(m, acc(m.name), ind, ltag if mode == "tag" else None)
                continue
            self.dump_member_ra(m, acc(m.name), ind, ltag if mode == "tag" else None)
        for g in L.groups:
            gv = self.fresh("g")
            ev = self.fresh("e")
            iv = self.fresh("i")
            self.w("%s{ auto %s = %s;" % (pad, gv, acc(g.name)))
            self.w("%s  o.G(%s, %s.size(), sbepp::get_header(%s).blockLength().value());" % (pad, cstr(g.name), gv, gv))
            self.w("%s  std::size_t %s = 0;" % (pad, iv))
            flat = not g.groups and not g.data
            if mode == "cur":
                self.w("%s  for(auto %s : %s.cursor_range(c)) {" % (pad, ev, gv))
            else:
                self.w("%s  for(auto %s : %s) {" % (pad, ev, gv))
                if flat:
                    self.w("%s    if(sbepp::addressof(%s[%s]) != sbepp::addressof(%s)) o.err(\"operator[] != iteration\");" % (pad, gv, iv, ev))
                    self.w("%s    if(%s == 0 && sbepp::addressof(%s.front()) != sbepp::addressof(%s)) o.err(\"front\");" % (pad, iv, gv, ev))
                    self.w("%s    if(%s + 1 == %s.size() && sbepp::addressof(%s.back()) != sbepp::addressof(%s)) o.err(\"back\");" % (pad, iv, gv, gv, ev))
                else:
                    self.w("%s    if(%s == 0 && sbepp::addressof(%s.front()) != sbepp::addressof(%s)) o.err(\"front\");" % (pad, iv, gv, ev))
            self.w("%s    o.E(%s);" % (pad, iv))
            self.dump_level(g, ev, ind + 1, mode)
            self.w("%s    o.end(); ++%s;" % (pad, iv))
            self.w("%s  }" % pad)
            self.w("%s  if(%s != %s.size()) o.err(\"iteration count\");" % (pad, iv, gv))
            self.w("%s  if(%s.empty() != (%s.size() == 0)) o.err(\"empty\");" % (pad, gv, gv))
            self.w("%s  o.end(); }" % pad)
        for d in L.data:
            dv = self.fresh("d")
            self.w("%s{ auto %s = %s;" % (pad, dv, acc(d.name)))
            if mode == "ra":
                self.w("%s  { auto r_ = %s.raw(); if(r_.size()) { volatile unsigned char x_ = static_cast<unsigned char>(r_[r_.size() - 1]); (void)x_; } }" % (pad, dv))
            self.w("%s  o.D(%s, %s.size(), %s.data()); }" % (pad, cstr(d.name), dv, dv))

    # ----------------------------------------------------- tag name table
    def tagnames(self):
        seen = set()

        def emit(tag, name):
            if tag in seen:
                return
            seen.add(tag)
            self.w("inline const char* tagname(%s) { return %s; }" % (tag, cstr(name)))

        def enumset(t, tag):
            if t["kind"] == "enum":
                for v in t["values"]:
                    emit("%s::%s" % (tag, v["name"]), v["name"])
            elif t["kind"] == "set":
                for c in t["choices"]:
                    emit("%s::%s" % (tag, c["name"]), c["name"])

        def comp(c, tag):
            for e in c.elements:
                et = "%s::%s" % (tag, e.name)
                emit(et, e.name)
                if e.kind == "composite" and not e.via_ref:
                    comp(e, et)
                elif e.kind in ("enum", "set") and not e.via_ref:
                    enumset(e.target, et)

        self.w("inline const char* tagname(sbepp::unknown_enum_value_tag) { return \"?\"; }")
        for t in self.m.sch["types"]:
            tag = "%s::schema::types::%s" % (self.pkg, t["name"])
            emit(tag, t["name"])
            if t["kind"] == "composite":
                comp(self.m.composite(t), tag)
            else:
                enumset(t, tag)

        def level(L):
            tag = self.level_tag(L)
            emit(tag, L.name)
            for f in L.fields:
                emit("%s::%s" % (tag, f.name), f.name)
            for g in L.groups:
                level(g)
            for d in L.data:
                emit("%s::%s" % (tag, d.name), d.name)
        for L in self.m.messages:
            level(L)

    # ---------------------------------------------------------- encode
    def set_member(self, m, owner, ind, otag, cur=False):
        """code that reads a payload from `tk` and writes member m of view `owner` (whose tag is otag)"""
        pad = "    " * ind
        mtag = "%s::%s" % (otag, m.name)
        CA = ", c" if cur else ""     # cursor argument of a setter
        CG = "c" if cur else ""       # cursor argument of a getter
        if m.kind == "scalar":
            T = self.fresh("T")
            self.w("%s{ typedef decltype(%s.%s()) %s; %s val_(rt::from_bits<%s>(tk.u64()));" % (pad, owner, m.name, T, T, CPP_PRIM[m.prim]))
            self.w("%s  if(g_bytag) sbepp::set_by_tag<%s>(%s, val_%s); else %s.%s(val_%s); }" % (pad, mtag, owner, CA, owner, m.name, CA))
        elif m.kind == "enum":
            T = self.fresh("T")
            self.w("%s{ typedef decltype(%s.%s()) %s; %s val_ = rt::enum_from_bits<%s>(tk.u64());" % (pad, owner, m.name, T, T, T))
            self.w("%s  if(g_bytag) sbepp::set_by_tag<%s>(%s, val_%s); else %s.%s(val_%s); }" % (pad, mtag, owner, CA, owner, m.name, CA))
        elif m.kind == "set":
            T = self.fresh("T")
            self.w("%s{ typedef decltype(%s.%s()) %s; std::string how = tk.next();" % (pad, owner, m.name, T))
            self.w("%s  if(how == \"v\") { %s val_(rt::from_bits<%s>(tk.u64())); if(g_bytag) sbepp::set_by_tag<%s>(%s, val_%s); else %s.%s(val_%s); }" % (
                pad, T, CPP_PRIM[m.prim], mtag, owner, CA, owner, m.name, CA))
            self.w("%s  else { %s s_{}; std::size_t k_ = tk.dec(); for(std::size_t j_ = 0; j_ < k_; j_++) { std::size_t ci_ = tk.dec(); bool b_ = tk.dec() != 0; (void)b_;" % (pad, T))
            self.w("%s      switch(ci_) {" % pad)
            stag = self.member_tag(m, otag)
            for i, ch in enumerate(m.target["choices"]):
                self.w("%s      case %d: if(g_bytag) sbepp::set_by_tag<%s::%s>(s_, b_); else s_.%s(b_); break;" % (pad, i, stag, ch["name"], ch["name"]))
            self.w("%s      default: break; } }" % pad)
            self.w("%s    if(g_bytag) sbepp::set_by_tag<%s>(%s, s_%s); else %s.%s(s_%s); } }" % (pad, mtag, owner, CA, owner, m.name, CA))
        elif m.kind == "composite":
            c = self.fresh("c")
            self.w("%s{ auto %s = %s.%s(%s);" % (pad, c, owner, m.name, CG))
            self.set_members_loop([e for e in m.elements if not e.is_const], c, ind + 1, self.member_tag(m, otag))
            self.w("%s}" % pad)
        elif m.kind == "array":
            a = self.fresh("a")
            E = CPP_PRIM[m.prim]
            self.w("%s{ auto %s = %s.%s(%s); std::string op = tk.next(); std::vector<unsigned char> b_ = tk.bytes();" % (pad, a, owner, m.name, CG))
            self.w("%s  std::vector<%s> v_(b_.begin(), b_.end()); (void)v_;" % (pad, E))
            self.w("%s  std::size_t ret_ = 0; (void)ret_;" % pad)
            self.w("%s  if(op == \"w\") { std::copy(v_.begin(), v_.end(), %s.begin()); ret_ = v_.size(); }" % (pad, a))
            self.w("%s  else if(op == \"r\") { ret_ = %s.assign_range(v_) - %s.begin(); }" % (pad, a, a))
            self.w("%s  else if(op == \"l\") { ret_ = %s.assign(v_.begin(), v_.end()) - %s.begin(); }" % (pad, a, a))
            self.w("%s  else if(op == \"f\") { %s.fill(v_.empty() ? %s() : v_[0]); ret_ = %s.size(); }" % (pad, a, E, a))
            self.w("%s  else if(op == \"n\") { ret_ = %s.assign(v_.size(), v_.empty() ? %s() : v_[0]) - %s.begin(); }" % (pad, a, E, a))
            self.w("%s  else if(op == \"x\") { for(std::size_t j_ = 0; j_ < v_.size(); j_++) %s[j_] = v_[j_]; ret_ = v_.size(); }" % (pad, a))
            if m.prim == "char":
                self.w("%s  else if(op[0] == 's') { std::string s_(b_.begin(), b_.end()); sbepp::eos_null mode_ = op[1] == '0' ? sbepp::eos_null::none : op[1] == '1' ? sbepp::eos_null::single : sbepp::eos_null::all;" % pad)
                self.w("%s     if(op.size() > 2 && op[2] == 'p') ret_ = %s.assign_string(s_.c_str(), mode_) - %s.begin(); else ret_ = %s.assign_string(s_, mode_) - %s.begin(); }" % (pad, a, a, a, a))
            self.w("%s  o.kv(\"ret\", ret_); }" % pad)

    def set_members_loop(self, members, owner, ind, otag, cur=False):
        """consume  ('f' <idx> payload)* 'e'  writing members of `owner`; cursor flavour: every member exactly once and
        in schema order, either written through its cursor setter ('f' <idx> payload) or passed over ('k' <idx>) with
        cursor_ops::skip"""
        pad = "    " * ind
        if cur:
            for i, m in enumerate(members):
                self.w("%s{ std::string a_ = tk.next(); std::size_t fi_ = tk.dec(); if(fi_ != %d) o.err(\"script: member order\");" % (pad, i))
                self.w("%s  if(a_ == \"k\") { %s.%s(sbepp::cursor_ops::skip(c)); } else {" % (pad, owner, m.name))
                self.set_member(m, owner, ind + 1, otag, cur=True)
                self.w("%s  } }" % pad)
            self.w("%sif(tk.next() != \"e\") o.err(\"script: expected e\");" % pad)
            return
        self.w("%swhile(tk.more() && tk.peek() == \"f\") { tk.next(); std::size_t fi_ = tk.dec(); switch(fi_) {" % pad)
        for i, m in enumerate(members):
            self.w("%scase %d:" % (pad, i))
            self.set_member(m, owner, ind + 1, otag)
            self.w("%s    break;" % pad)
        self.w("%sdefault: o.err(\"bad field index\"); break; } }" % pad)
        self.w("%sif(tk.next() != \"e\") o.err(\"script: expected e\");" % pad)

    def encode_level(self, L, v, ind, cur=False):
        """cur: the documented cursor-based way of encoding (doc/examples.md): fields through cursor setters in schema
        order, groups through `level.group(c)` + fill_group_header + cursor_range, data through dont_move + skip"""
        pad = "    " * ind
        self.set_members_loop([m for m in L.fields if not m.is_const], v, ind, self.level_tag(L), cur=cur)
        for g in L.groups:
            gv, ev, hv = self.fresh("g"), self.fresh("e"), self.fresh("h")
            NT = self.fresh("N")
            self.w("%s{ auto %s = %s.%s(%s); std::string mode = tk.next(); std::size_t n_ = tk.dec();" % (pad, gv, v, g.name, "c" if cur else ""))
            self.w("%s  typedef decltype(sbepp::get_header(%s).numInGroup()) %s;" % (pad, gv, NT))
            self.w("%s  if(mode == \"F\") { auto %s = sbepp::fill_group_header(%s, %s(static_cast<typename %s::value_type>(n_)));" % (pad, hv, gv, NT, NT))
            self.w("%s      o.kv(\"hdr\", reinterpret_cast<unsigned char*>(sbepp::addressof(%s)) - base_); }" % (pad, hv))
            self.w("%s  else if(mode == \"H\") { auto %s = sbepp::get_header(%s); typedef decltype(%s.blockLength()) BT_;" % (pad, hv, gv, hv))
            self.w("%s      %s.blockLength(BT_(static_cast<typename BT_::value_type>(tk.dec()))); %s.resize(%s(static_cast<typename %s::value_type>(n_)).value()); }" % (pad, hv, gv, NT, NT))
            self.w("%s  else if(mode == \"M\") { auto %s = sbepp::get_header(%s); typedef decltype(%s.blockLength()) BT_;" % (pad, hv, gv, hv))
            self.w("%s      %s.blockLength(BT_(static_cast<typename BT_::value_type>(tk.dec()))); %s.numInGroup(%s(static_cast<typename %s::value_type>(n_))); }" % (pad, hv, hv, NT, NT))
            self.w("%s  else if(mode == \"C\") { %s.clear(); }" % (pad, gv))
            # documented call form: a plain integer (of the numInGroup value type) as the count
            self.w("%s  else if(mode == \"Z\") { auto %s = sbepp::fill_group_header(%s, static_cast<typename %s::value_type>(tk.u64()));" % (pad, hv, gv, NT))
            self.w("%s      o.kv(\"hdr\", reinterpret_cast<unsigned char*>(sbepp::addressof(%s)) - base_); return; }" % (pad, hv))
            self.w("%s  for(auto %s : %s%s) {" % (pad, ev, gv, ".cursor_range(c)" if cur else ""))
            self.encode_level(g, ev, ind + 1, cur=cur)
            self.w("%s  } }" % pad)
        for d in L.data:
            dv = self.fresh("d")
            E = CPP_PRIM[d.elem_prim]
            self.w("%s{ auto %s = %s.%s(%s); std::string op = tk.next(); std::vector<unsigned char> b_ = tk.bytes();" % (
                pad, dv, v, d.name, "sbepp::cursor_ops::dont_move(c)" if cur else ""))
            self.w("%s  std::vector<%s> v_(b_.begin(), b_.end());" % (pad, E))
            self.w("%s  if(op == \"r\") %s.assign_range(v_);" % (pad, dv))
            self.w("%s  else if(op == \"l\") %s.assign(v_.begin(), v_.end());" % (pad, dv))
            self.w("%s  else if(op == \"n\") %s.assign(v_.size(), v_.empty() ? %s() : v_[0]);" % (pad, dv, E))
            self.w("%s  else if(op == \"w\") { %s.resize(v_.size()); std::copy(v_.begin(), v_.end(), %s.begin()); }" % (pad, dv, dv))
            self.w("%s  else if(op == \"d\") { %s.resize(v_.size(), sbepp::default_init); for(std::size_t j_ = 0; j_ < v_.size(); j_++) %s[j_] = v_[j_]; }" % (pad, dv, dv))
            self.w("%s  else if(op == \"p\") { %s.clear(); for(std::size_t j_ = 0; j_ < v_.size(); j_++) %s.push_back(v_[j_]); }" % (pad, dv, dv))
            self.w("%s  else if(op == \"i\") { %s.clear(); %s.insert(%s.end(), v_.begin(), v_.end()); }" % (pad, dv, dv, dv))
            self.w("%s  else if(op == \"s\") { std::string s_(b_.begin(), b_.end()); %s.assign_string(s_.c_str()); }" % (pad, dv))
            # growing forms that take a value: resize(count, value), insert(pos, count, value), insert(pos, value)
            self.w("%s  else if(op == \"v\") { %s.clear(); %s.resize(static_cast<typename decltype(%s)::size_type>(v_.size()), v_.empty() ? %s() : v_[0]); }" % (pad, dv, dv, dv, E))
            self.w("%s  else if(op == \"c\") { %s.clear(); %s.insert(%s.end(), static_cast<typename decltype(%s)::size_type>(v_.size()), v_.empty() ? %s() : v_[0]); }" % (pad, dv, dv, dv, dv, E))
            self.w("%s  else if(op == \"1\") { %s.clear(); for(std::size_t j_ = 0; j_ < v_.size(); j_++) %s.insert(%s.end(), v_[j_]); }" % (pad, dv, dv, dv))
            self.w("%s  else o.err(\"bad data op\");" % pad)
            if cur:
                self.w("%s  %s.%s(sbepp::cursor_ops::skip(c));" % (pad, v, d.name))
            self.w("%s}" % pad)

    # ------------------------------------------------------------- sizes
    def sizes_level(self, L, v, ind):
        pad = "    " * ind
        for m in L.fields:
            if m.kind == "composite":
                self.w("%so.kv(%s, sbepp::size_bytes(%s.%s()));" % (pad, cstr("c:" + m.name), v, m.name))
            elif m.kind == "array":
                self.w("%so.kv(%s, sbepp::size_bytes(%s.%s()));" % (pad, cstr("a:" + m.name), v, m.name))
        for g in L.groups:
            gv, ev = self.fresh("g"), self.fresh("e")
            self.w("%s{ auto %s = %s.%s(); o.kv(%s, sbepp::size_bytes(%s)); o.kv(%s, sbepp::size_bytes(sbepp::get_header(%s)));" % (
                pad, gv, v, g.name, cstr("g:" + g.name), gv, cstr("gh:" + g.name), gv))
            self.w("%s  for(auto %s : %s) { o.kv(\"e\", sbepp::size_bytes(%s));" % (pad, ev, gv, ev))
            self.sizes_level(g, ev, ind + 1)
            self.w("%s  }" % pad)
            if not g.groups and not g.data:
                # flat groups are random access: the same entries reached through operator[], front() and back()
                self.w("%s  for(std::size_t i_ = 0; i_ < static_cast<std::size_t>(%s.size()); i_++) o.kv(\"ei\", sbepp::size_bytes(%s[static_cast<typename decltype(%s)::size_type>(i_)]));" % (pad, gv, gv, gv))
                self.w("%s  if(!%s.empty()) { o.kv(\"ef\", sbepp::size_bytes(%s.front())); o.kv(\"eb\", sbepp::size_bytes(%s.back())); }" % (pad, gv, gv, gv))
            self.w("%s}" % pad)
        for d in L.data:
            self.w("%so.kv(%s, sbepp::size_bytes(%s.%s()));" % (pad, cstr("d:" + d.name), v, d.name))

    # -------------------------------------------------- cursor interpreter
    WRAPS = [("p", "c"), ("i", "sbepp::cursor_ops::init(c)"), ("d", "sbepp::cursor_ops::dont_move(c)"),
             ("j", "sbepp::cursor_ops::init_dont_move(c)"), ("s", "sbepp::cursor_ops::skip(c)")]

    def cursor_level(self, L, fname):
        """void fname(V v, C& c, Tokens& tk, Out& o, const unsigned char* p): interprets member steps until 'x'"""
        w = self.w
        ltag = self.level_tag(L)

        def get(name, wexpr):
            return "(g_bytag ? sbepp::get_by_tag<%s::%s>(v, %s) : v.%s(%s))" % (ltag, name, wexpr, name, wexpr)

        def getv(name, wexpr):
            # statement form for void-returning (skip) calls
            return "if(g_bytag) sbepp::get_by_tag<%s::%s>(v, %s); else v.%s(%s);" % (ltag, name, wexpr, name, wexpr)

        def setv(name, wexpr):
            return "if(g_bytag) sbepp::set_by_tag<%s::%s>(v, val_, %s); else v.%s(val_, %s);" % (ltag, name, wexpr, name, wexpr)
        for g in L.groups:
            self.cursor_level(g, fname + "_" + str(L.groups.index(g)))
        w("template<typename V_, typename C_> static void %s(V_ v, C_& c, rt::Tokens& tk, rt::Out& o, unsigned char* p) {" % fname)
        w("    while(tk.more()) { std::string t = tk.next();")
        w("        if(t == \"x\") return;")
        w("        if(t == \"P\") { c.pointer() = p + tk.dec(); o.kv(\"c\", c.pointer() - p); continue; }")
        fields = [m for m in L.fields if not m.is_const]
        w("        if(t == \"f\") { std::size_t k = tk.dec(); std::string wr = tk.next(); std::string rw = tk.next(); (void)rw; switch(k) {")
        for i, m in enumerate(fields):
            w("        case %d: {" % i)
            nm = cstr(m.name)
            for wk, wexpr in self.WRAPS:
                if wk == "s":
                    w("            if(wr == \"s\") { %s o.tok(\"skipped\"); }" % getv(m.name, wexpr))
                else:
                    w("            if(wr == \"%s\" && rw == \"r\") { cur_report(o, p, %s, %s); }" % (wk, nm, get(m.name, wexpr)))
            if m.kind in ("scalar", "enum", "set"):
                T = self.fresh("T")
                if m.kind == "scalar":
                    mk = "%s(rt::from_bits<%s>(bits_))" % (T, CPP_PRIM[m.prim])
                elif m.kind == "enum":
                    mk = "rt::enum_from_bits<%s>(bits_)" % T
                else:
                    mk = "%s(rt::from_bits<%s>(bits_))" % (T, CPP_PRIM[m.prim])
                w("            if(rw == \"w\") { typedef decltype(v.%s()) %s; std::uint64_t bits_ = tk.u64(); %s val_ = %s;" % (m.name, T, T, mk))
                for wk, wexpr in self.WRAPS:
                    if wk != "s":
                        w("                if(wr == \"%s\") { %s }" % (wk, setv(m.name, wexpr)))
                w("                o.tok(\"written\"); }")
            w("            break; }")
        w("        default: o.err(\"bad field index\"); }")
        w("            o.kv(\"c\", c.pointer() - p); continue; }")
        w("        if(t == \"g\") { std::size_t k = tk.dec(); std::string wr = tk.next(); switch(k) {")
        for i, g in enumerate(L.groups):
            w("        case %d: {" % i)
            w("            if(wr == \"s\") { %s o.tok(\"skipped\"); o.kv(\"c\", c.pointer() - p); break; }" % getv(g.name, "sbepp::cursor_ops::skip(c)"))
            w("            auto g_ = (wr == \"p\") ? %s : (wr == \"i\") ? %s : (wr == \"d\") ? %s : %s;" % (
                get(g.name, "c"), get(g.name, "sbepp::cursor_ops::init(c)"), get(g.name, "sbepp::cursor_ops::dont_move(c)"), get(g.name, "sbepp::cursor_ops::init_dont_move(c)")))
            w("            o.tok(std::string(\"G \") + %s + \" @\" + std::to_string(reinterpret_cast<unsigned char*>(sbepp::addressof(g_)) - p)); o.kv(\"c\", c.pointer() - p);" % cstr(g.name))
            w("            std::string it = tk.next();")
            sub = fname + "_" + str(i)
            w("            if(it == \"range\") { for(auto e_ : g_.cursor_range(c)) { o.tok(\"E @\" + std::to_string(reinterpret_cast<unsigned char*>(sbepp::addressof(e_)) - p)); %s(e_, c, tk, o, p); } }" % sub)
            w("            else if(it == \"sub\") { std::size_t pos_ = tk.dec(); { std::string po_ = tk.next(); if(po_ != \"-\") c.pointer() = p + std::strtoull(po_.c_str(), nullptr, 10); } for(auto e_ : g_.cursor_subrange(c, static_cast<typename decltype(g_)::size_type>(pos_))) { o.tok(\"E @\" + std::to_string(reinterpret_cast<unsigned char*>(sbepp::addressof(e_)) - p)); %s(e_, c, tk, o, p); } }" % sub)
            w("            else if(it == \"subc\") { std::size_t pos_ = tk.dec(); std::size_t cnt_ = tk.dec(); { std::string po_ = tk.next(); if(po_ != \"-\") c.pointer() = p + std::strtoull(po_.c_str(), nullptr, 10); } for(auto e_ : g_.cursor_subrange(c, static_cast<typename decltype(g_)::size_type>(pos_), static_cast<typename decltype(g_)::size_type>(cnt_))) { o.tok(\"E @\" + std::to_string(reinterpret_cast<unsigned char*>(sbepp::addressof(e_)) - p)); %s(e_, c, tk, o, p); } }" % sub)
            w("            else if(it == \"iter\") { auto b_ = g_.cursor_begin(c); auto e2_ = g_.cursor_end(c); for(; b_ != e2_; ++b_) { auto e_ = *b_; o.tok(\"E @\" + std::to_string(reinterpret_cast<unsigned char*>(sbepp::addressof(e_)) - p)); %s(e_, c, tk, o, p); } }" % sub)
            w("            o.kv(\"c\", c.pointer() - p);")
            w("            break; }")
        w("        default: o.err(\"bad group index\"); } continue; }")
        w("        if(t == \"d\") { std::size_t k = tk.dec(); std::string wr = tk.next(); switch(k) {")
        for i, d in enumerate(L.data):
            w("        case %d: {" % i)
            w("            if(wr == \"s\") { %s o.tok(\"skipped\"); o.kv(\"c\", c.pointer() - p); break; }" % getv(d.name, "sbepp::cursor_ops::skip(c)"))
            w("            auto d_ = (wr == \"p\") ? %s : (wr == \"i\") ? %s : (wr == \"d\") ? %s : %s;" % (
                get(d.name, "c"), get(d.name, "sbepp::cursor_ops::init(c)"), get(d.name, "sbepp::cursor_ops::dont_move(c)"), get(d.name, "sbepp::cursor_ops::init_dont_move(c)")))
            w("            o.tok(std::string(\"D \") + %s + \" @\" + std::to_string(reinterpret_cast<unsigned char*>(sbepp::addressof(d_)) - p) + \" n=\" + std::to_string(d_.size())); o.kv(\"c\", c.pointer() - p);" % cstr(d.name))
            w("            break; }")
        w("        default: o.err(\"bad data index\"); } continue; }")
        w("        o.err(\"bad step token \" + t); return; }")
        w("}")

    # ------------------------------------------------------ trait sizes
    def preorder_groups(self, L):
        res = []

        def walk(x):
            for g in x.groups:
                res.append(g)
                walk(g)
        walk(L)
        return res

    def preorder_data(self, L):
        res = []

        def walk(x):
            for d in x.data:
                res.append((x, d))
            for g in x.groups:
                walk(g)
        walk(L)
        return res

    def has_data_anywhere(self, L):
        return bool(L.data) or any(self.has_data_anywhere(g) for g in L.groups)

    def trait_size_call(self, L, kind):
        """statements computing std::size_t r = <kind>_traits<tag>::size_bytes(...) with arguments read from tk in order
        (counts in pre-order, then total data)"""
        types = []
        if kind == "group":
            types.append(CPP_PRIM[self.m.member(L.dimension, "numInGroup").prim])
        for g in self.preorder_groups(L):
            types.append(CPP_PRIM[self.m.member(g.dimension, "numInGroup").prim])
        if self.has_data_anywhere(L):
            types.append("std::size_t")
        decl = " ".join("%s a%d_ = static_cast<%s>(tk.dec());" % (t, i, t) for i, t in enumerate(types))
        return "%s std::size_t r = sbepp::%s_traits<%s>::size_bytes(%s);" % (
            decl, kind, self.level_tag(L), ", ".join("a%d_" % i for i in range(len(types))))

    # --------------------------------------------------------------- main
    def generate(self):
        m = self.m
        w = self.w
        if self.checked:
            w("#define SBEPP_ENABLE_ASSERTS_WITH_HANDLER")
        else:
            w("#define SBEPP_DISABLE_ASSERTS")
        w("#include <sbepp/sbepp.hpp>")
        w("#include <%s/%s.hpp>" % (self.pkg, self.pkg))
        w("#include <algorithm>")
        w("#include <vector>")
        w("#include <string>")
        w('#include "driver_rt.hpp"')
        if self.checked:
            w("namespace sbepp { [[noreturn]] void assertion_failed(char const* e, char const*, char const*, long) { rt::on_assert(e); } }")
        w("namespace drv {")
        w("static bool g_bytag = false;")
        self.tagnames()
        w(VISITOR_CODE)
        for i, L in enumerate(m.messages):
            view = self.msg_view(L)
            # ---- dump
            for mode in ("ra", "cur", "tag"):
                w("static void dump_%s_%d(unsigned char* p, std::size_t n, rt::Out& o) {" % (mode, i))
                w("    auto v0 = sbepp::make_const_view<%s>(p, n);" % view)
                self.null_flags = (mode == "ra")
                if mode == "cur":
                    w("    auto c = sbepp::init_cursor(v0);")
                self.dump_level(L, "v0", 1, mode)
                if mode == "cur":
                    w("    o.kv(\"cursor_end\", reinterpret_cast<const unsigned char*>(c.pointer()) - p);")
                    w("    o.kv(\"cursor_size\", sbepp::size_bytes(v0, c));")
                w("}")
            w("static void dump_vis_%d(unsigned char* p, std::size_t n, rt::Out& o) {" % i)
            w("    auto v0 = sbepp::make_const_view<%s>(p, n);" % view)
            w("    DumpVisitor vis(o); auto c = sbepp::init_cursor(v0);")
            w("    sbepp::visit(v0, c, vis);")
            w("    o.kv(\"cursor_end\", reinterpret_cast<const unsigned char*>(c.pointer()) - p);")
            w("}")
            # ---- events (visit with stop point)
            w("static void events_%d(unsigned char* p, std::size_t n, std::size_t k, rt::Out& o) {" % i)
            w("    auto v0 = sbepp::make_const_view<%s>(p, n);" % view)
            w("    EventVisitor vis(o, k); auto c = sbepp::init_cursor(v0);")
            w("    sbepp::visit(v0, c, vis);")
            w("    o.s += \" | END cursor=\" + std::to_string(reinterpret_cast<const unsigned char*>(c.pointer()) - p) + \" stopped=\" + (vis.stopped ? \"1\" : \"0\") + \" events=\" + std::to_string(vis.count);")
            w("}")
            # ---- size_bytes_checked on message and on every group (pre-order index)
            w("static void checked_%d(std::size_t which, unsigned char* p, std::size_t n, rt::Out& o) {" % i)
            w("    sbepp::size_bytes_checked_result r = sbepp::size_bytes_checked_result();")
            w("    switch(which) {")
            w("    case 0: r = sbepp::size_bytes_checked(sbepp::make_const_view<%s>(p, n), n); break;" % view)
            for gi, g in enumerate(self.preorder_groups(L)):
                w("    case %d: { typedef sbepp::group_traits<%s>::value_type<const unsigned char> GT_; r = sbepp::size_bytes_checked(GT_(p, n), n); break; }" % (gi + 1, self.level_tag(g)))
            w("    default: o.err(\"bad index\"); }")
            w("    o.kv(\"valid\", r.valid ? 1 : 0); o.kv(\"size\", r.size);")
            w("}")
            # ---- size of the first root-level group from its header alone (huge numInGroup x blockLength products)
            w("static void gsize_%d(unsigned char* p, std::size_t n, rt::Out& o) {" % i)
            w("    auto v0 = sbepp::make_const_view<%s>(p, n); (void)v0;" % view)
            if L.groups and not L.groups[0].groups and not L.groups[0].data:
                w("    auto g = v0.%s(); o.kv(\"gsize\", sbepp::size_bytes(g)); o.kv(\"n\", g.size());" % L.groups[0].name)
            else:
                w("    o.tok(\"na\");")
            w("}")
            # ---- size of the first root-level data member of a group-less message from its length prefix alone, and the
            # data_traits formula of every data member (pre-order over levels) for an arbitrary length
            w("static void dsize_%d(unsigned char* p, std::size_t n, rt::Out& o) {" % i)
            w("    auto v0 = sbepp::make_const_view<%s>(p, n); (void)v0;" % view)
            if L.data and not L.groups:
                w("    auto d = v0.%s(); o.kv(\"dsize\", sbepp::size_bytes(d)); o.kv(\"n\", static_cast<unsigned long long>(d.size()));" % L.data[0].name)
            else:
                w("    o.tok(\"na\");")
            w("}")
            w("static void dtsize_%d(std::size_t which, rt::Tokens& tk, rt::Out& o) {" % i)
            w("    unsigned long long a_ = tk.dec(); (void)a_;")
            w("    switch(which) {")
            for di, (lv, d) in enumerate(self.preorder_data(L)):
                tg = "%s::%s" % (self.level_tag(lv), d.name)
                w("    case %d: { typedef sbepp::data_traits<%s> DT_; o.kv(\"trait\", DT_::size_bytes(static_cast<DT_::length_type::value_type>(a_))); break; }" % (di, tg))
            w("    default: o.err(\"bad data index\"); }")
            w("}")
            # ---- sizes
            w("static void sizes_%d(unsigned char* p, std::size_t n, rt::Out& o) {" % i)
            w("    auto v0 = sbepp::make_const_view<%s>(p, n);" % view)
            w("    o.kv(\"size_bytes\", sbepp::size_bytes(v0));")
            w("    o.kv(\"header\", sbepp::size_bytes(sbepp::get_header(v0)));")
            w("    { auto r = sbepp::size_bytes_checked(v0, n); o.kv(\"checked_valid\", r.valid ? 1 : 0); o.kv(\"checked_size\", r.size); }")
            w("    { rt::Out tmp; dump_cur_%d(p, n, tmp); std::size_t k = tmp.s.rfind(\"cursor_size=\"); o.tok(k == std::string::npos ? std::string(\"cursor_size=?\") : tmp.s.substr(k)); }" % i)
            self.sizes_level(L, "v0", 1)
            w("}")
            # ---- cursor step interpreter
            self.cursor_level(L, "cur_%d" % i)
            w("static void cursor_%d(unsigned char* p, std::size_t n, rt::Tokens& tk, rt::Out& o) {" % i)
            w("    auto v0 = sbepp::make_view<%s>(p, n);" % view)
            w("    sbepp::cursor<unsigned char> c;")
            w("    std::string first = tk.peek();")
            w("    if(first == \"I\") { tk.next(); c = sbepp::init_cursor(v0); o.kv(\"c\", c.pointer() - p); }")
            w("    cur_%d(v0, c, tk, o, p);" % i)
            w("    o.kv(\"size_by_cursor\", sbepp::size_bytes(v0, c));")
            w("}")
            # ---- trait-level sizes
            w("static void tsize_%d(std::size_t which, rt::Tokens& tk, rt::Out& o) {" % i)
            w("    switch(which) {")
            w("    case 0: { %s o.kv(\"trait\", r); break; }" % self.trait_size_call(L, "message"))
            for gi, g in enumerate(self.preorder_groups(L)):
                w("    case %d: { %s o.kv(\"trait\", r); break; }" % (gi + 1, self.trait_size_call(g, "group")))
            w("    default: o.err(\"bad trait index\"); }")
            w("}")
            # ---- encode
            w("static void encode_%d(unsigned char* p, std::size_t n, rt::Tokens& tk, rt::Out& o) {" % i)
            w("    unsigned char* base_ = p; (void)base_;")
            w("    auto v0 = sbepp::make_view<%s>(p, n);" % view)
            w("    { std::string hm = tk.next();")
            w("      if(hm == \"F\") { auto h = sbepp::fill_message_header(v0); o.kv(\"hdr\", reinterpret_cast<unsigned char*>(sbepp::addressof(h)) - base_); }")
            w("      else if(hm == \"H\") { auto h = sbepp::get_header(v0); typedef decltype(h.blockLength()) BT_; h.blockLength(BT_(static_cast<typename BT_::value_type>(tk.dec()))); }")
            w("      else if(hm != \"N\") o.err(\"bad header mode\"); }")
            self.encode_level(L, "v0", 1)
            w("}")
            # ---- the same scripts executed the documented cursor-based way
            w("static void cencode_%d(unsigned char* p, std::size_t n, rt::Tokens& tk, rt::Out& o) {" % i)
            w("    unsigned char* base_ = p; (void)base_;")
            w("    auto v0 = sbepp::make_view<%s>(p, n);" % view)
            w("    { std::string hm = tk.next();")
            w("      if(hm == \"F\") { auto h = sbepp::fill_message_header(v0); o.kv(\"hdr\", reinterpret_cast<unsigned char*>(sbepp::addressof(h)) - base_); }")
            w("      else if(hm == \"H\") { auto h = sbepp::get_header(v0); typedef decltype(h.blockLength()) BT_; h.blockLength(BT_(static_cast<typename BT_::value_type>(tk.dec()))); }")
            w("      else if(hm != \"N\") o.err(\"bad header mode\"); }")
            w("    auto c = sbepp::init_cursor(v0);")
            self.encode_level(L, "v0", 1, cur=True)
            w("    o.kv(\"cur\", reinterpret_cast<unsigned char*>(c.pointer()) - base_);")
            w("    o.kv(\"size_by_cursor\", sbepp::size_bytes(v0, c));")
            w("}")
        # dispatcher
        w("static bool dispatch(const std::string& cmd, std::size_t mi, rt::Tokens& tk, rt::GuardBuf& gb, rt::Out& o) {")
        w("    if(cmd == \"dump\") { std::string mode = tk.next(); std::vector<unsigned char> img = tk.bytes(); unsigned char* p = gb.place(img.data(), img.size(), true);")
        w("        switch(mi) {")
        for i in range(len(m.messages)):
            w("        case %d: if(mode == \"ra\") dump_ra_%d(p, img.size(), o); else if(mode == \"cur\") dump_cur_%d(p, img.size(), o); else if(mode == \"tag\") dump_tag_%d(p, img.size(), o); else dump_vis_%d(p, img.size(), o); return true;" % (i, i, i, i, i))
        w("        default: return false; } }")
        w("    if(cmd == \"gsize\") { std::vector<unsigned char> img = tk.bytes(); unsigned char* p = gb.place(img.data(), img.size(), true);")
        w("        switch(mi) {")
        for i in range(len(m.messages)):
            w("        case %d: gsize_%d(p, img.size(), o); return true;" % (i, i))
        w("        default: return false; } }")
        w("    if(cmd == \"sizes\") { std::vector<unsigned char> img = tk.bytes(); unsigned char* p = gb.place(img.data(), img.size(), true);")
        w("        switch(mi) {")
        for i in range(len(m.messages)):
            w("        case %d: sizes_%d(p, img.size(), o); return true;" % (i, i))
        w("        default: return false; } }")
        w("    if(cmd == \"events\") { std::size_t k = static_cast<std::size_t>(tk.dec()); std::vector<unsigned char> img = tk.bytes(); unsigned char* p = gb.place(img.data(), img.size(), true);")
        w("        switch(mi) {")
        for i in range(len(m.messages)):
            w("        case %d: events_%d(p, img.size(), k, o); return true;" % (i, i))
        w("        default: return false; } }")
        w("    if(cmd == \"checked\") { std::size_t which = static_cast<std::size_t>(tk.dec()); std::vector<unsigned char> img = tk.bytes(); unsigned char* p = gb.place(img.data(), img.size(), true);")
        w("#ifdef RT_COUNT_CALLS")
        w("        rt::g_guard_ptr = &rt::guard(); rt::g_calls = 0; rt::g_budget = tk.more() ? tk.dec() : 0;")
        w("#endif")
        w("        switch(mi) {")
        for i in range(len(m.messages)):
            w("        case %d: checked_%d(which, p, img.size(), o); return true;" % (i, i))
        w("        default: return false; } }")
        w("    if(cmd == \"encode\" || cmd == \"encodetag\") { g_bytag = (cmd == \"encodetag\"); std::vector<unsigned char> img = tk.bytes(); unsigned char* p = gb.place(img.data(), img.size(), false);")
        w("        switch(mi) {")
        for i in range(len(m.messages)):
            w("        case %d: encode_%d(p, img.size(), tk, o); break;" % (i, i))
        w("        default: return false; }")
        w("        if(!gb.canary_ok(p)) o.err(\"write before the buffer\");")
        w("        o.tok(\"BUF \" + rt::Out::hexbytes(p, img.size())); return true; }")
        w("    if(cmd == \"cencode\" || cmd == \"cencodetag\") { g_bytag = (cmd == \"cencodetag\"); std::vector<unsigned char> img = tk.bytes(); unsigned char* p = gb.place(img.data(), img.size(), false);")
        w("        switch(mi) {")
        for i in range(len(m.messages)):
            w("        case %d: cencode_%d(p, img.size(), tk, o); break;" % (i, i))
        w("        default: return false; }")
        w("        if(!gb.canary_ok(p)) o.err(\"write before the buffer\");")
        w("        o.tok(\"BUF \" + rt::Out::hexbytes(p, img.size())); return true; }")
        w("    if(cmd == \"cursor\" || cmd == \"cursortag\") { g_bytag = (cmd == \"cursortag\"); std::vector<unsigned char> img = tk.bytes(); unsigned char* p = gb.place(img.data(), img.size(), false);")
        w("        switch(mi) {")
        for i in range(len(m.messages)):
            w("        case %d: cursor_%d(p, img.size(), tk, o); break;" % (i, i))
        w("        default: return false; }")
        w("        if(!gb.canary_ok(p)) o.err(\"write before the buffer\");")
        w("        o.tok(\"BUF \" + rt::Out::hexbytes(p, img.size())); return true; }")
        w("    if(cmd == \"dsize\") { std::vector<unsigned char> img = tk.bytes(); unsigned char* p = gb.place(img.data(), img.size(), true);")
        w("        switch(mi) {")
        for i in range(len(m.messages)):
            w("        case %d: dsize_%d(p, img.size(), o); return true;" % (i, i))
        w("        default: return false; } }")
        w("    if(cmd == \"dtsize\") { std::size_t which = static_cast<std::size_t>(tk.dec());")
        w("        switch(mi) {")
        for i in range(len(m.messages)):
            w("        case %d: dtsize_%d(which, tk, o); return true;" % (i, i))
        w("        default: return false; } }")
        w("    if(cmd == \"tsize\") { std::size_t which = static_cast<std::size_t>(tk.dec());")
        w("        switch(mi) {")
        for i in range(len(m.messages)):
            w("        case %d: tsize_%d(which, tk, o); return true;" % (i, i))
        w("        default: return false; } }")
        w("    return false;")
        w("}")
        w("} // namespace drv")
        w(MAIN_CODE)
        # the byte type of the views is a build parameter (-DRT_BYTE=char); the generated text spells it `unsigned char`
        return ("\n".join(self.lines) + "\n").replace("unsigned char", "rt::byte_t")


VISITOR_CODE = r'''
// value / view reporting for the cursor interpreter (C04)
template<typename T> void cur_report_impl(rt::Out& o, unsigned char*, const char* name, T t, std::integral_constant<int, 0>) { o.F(name, rt::bits(t.value())); }
template<typename T> void cur_report_impl(rt::Out& o, unsigned char*, const char* name, T t, std::integral_constant<int, 1>) { o.F(name, rt::enum_bits(t)); }
template<typename T> void cur_report_impl(rt::Out& o, unsigned char*, const char* name, T t, std::integral_constant<int, 2>) { o.F(name, rt::bits(*t)); }
template<typename T> void cur_report_impl(rt::Out& o, unsigned char* p, const char* name, T t, std::integral_constant<int, 3>)
{
    o.tok(std::string("A ") + name + " @" + std::to_string(reinterpret_cast<unsigned char*>(sbepp::addressof(t)) - p) + " " + rt::Out::hexbytes(t.data(), t.size()));
}
template<typename T> void cur_report_impl(rt::Out& o, unsigned char* p, const char* name, T t, std::integral_constant<int, 4>)
{
    o.tok(std::string("C ") + name + " @" + std::to_string(reinterpret_cast<unsigned char*>(sbepp::addressof(t)) - p));
}
template<typename T> void cur_report(rt::Out& o, unsigned char* p, const char* name, T t)
{
    cur_report_impl(o, p, name, t, std::integral_constant<int,
        sbepp::is_composite<T>::value ? 4 : sbepp::is_enum<T>::value ? 1 : sbepp::is_set<T>::value ? 2 : sbepp::is_array_type<T>::value ? 3 : 0>());
}
// what a visitor callback received: a scalar wrapper (value()) or - only if the library hands out something the documentation does
// not promise, e.g. the raw value of a constant - a plain arithmetic value, which is then reported like any other and fails the comparison
template<typename T> typename std::enable_if<std::is_arithmetic<T>::value, T>::type plain_value(T t) { return t; }
template<typename T> auto plain_value(T t) -> typename std::enable_if<!std::is_arithmetic<T>::value, decltype(t.value())>::type { return t.value(); }
struct EnumVis
{
    std::string name;
    int calls;
    EnumVis() : calls(0) {}
    template<typename E, typename Tag> void on_enum_value(E, Tag) { name = tagname(Tag()); calls++; }
};
struct SetVis
{
    std::string s;
    template<typename Tag> void on_set_choice(bool b, Tag)
    {
        if(!s.empty()) s += ',';
        s += tagname(Tag());
        s += b ? "=1" : "=0";
    }
};

struct DumpVisitor
{
    rt::Out& o;
    std::vector<std::size_t> idx;
    explicit DumpVisitor(rt::Out& out) : o(out) {}

    template<typename T> void emit_value(T t, const char* name, std::true_type /*composite*/)
    {
        o.C(name);
        sbepp::visit_children(t, *this);
        o.end();
    }
    template<typename T> void emit_scalar(T t, const char* name, std::integral_constant<int, 0>) { o.F(name, rt::bits(plain_value(t))); }
    template<typename T> void emit_scalar(T t, const char* name, std::integral_constant<int, 1>)
    {
        o.F(name, rt::enum_bits(t));
        EnumVis ev;
        sbepp::visit(t, ev);
        o.tok("V " + (ev.calls == 1 ? ev.name : std::string("XERR(on_enum_value calls)")));
    }
    template<typename T> void emit_scalar(T t, const char* name, std::integral_constant<int, 2>)
    {
        o.F(name, rt::bits(*t));
        SetVis sv;
        sbepp::visit(t, sv);
        o.tok("S " + (sv.s.empty() ? std::string("-") : sv.s));
    }
    template<typename T> void emit_scalar(T t, const char* name, std::integral_constant<int, 3>) { o.A(name, t.data(), t.size()); }
    template<typename T> void emit_value(T t, const char* name, std::false_type)
    {
        emit_scalar(t, name, std::integral_constant<int,
            sbepp::is_enum<T>::value ? 1 : sbepp::is_set<T>::value ? 2 : sbepp::is_array_type<T>::value ? 3 : 0>());
    }
    template<typename T> void emit(T t, const char* name)
    {
        emit_value(t, name, std::integral_constant<bool, sbepp::is_composite<T>::value>());
    }

    template<typename M, typename C, typename Tag> void on_message(M m, C& c, Tag) { sbepp::visit_children(m, c, *this); }
    template<typename G, typename C, typename Tag> bool on_group(G g, C& c, Tag)
    {
        o.G(tagname(Tag()), g.size(), sbepp::get_header(g).blockLength().value());
        idx.push_back(0);
        sbepp::visit_children(g, c, *this);
        if(idx.back() != g.size()) o.err("visited entry count");
        idx.pop_back();
        o.end();
        return false;
    }
    template<typename E, typename C, typename... X> bool on_entry(E e, C& c, X...)
    {
        o.E(idx.back()++);
        sbepp::visit_children(e, c, *this);
        o.end();
        return false;
    }
    template<typename T, typename Tag> bool on_field(T t, Tag) { emit(t, tagname(Tag())); return false; }
    template<typename T, typename Tag> bool on_type(T t, Tag) { emit(t, tagname(Tag())); return false; }
    template<typename T, typename Tag> bool on_enum(T t, Tag) { emit(t, tagname(Tag())); return false; }
    template<typename T, typename Tag> bool on_set(T t, Tag) { emit(t, tagname(Tag())); return false; }
    template<typename T, typename Tag> bool on_composite(T t, Tag) { emit(t, tagname(Tag())); return false; }
    template<typename D, typename Tag> bool on_data(D d, Tag) { o.D(tagname(Tag()), d.size(), d.data()); return false; }
};

// flat event log with a stop point (C19): every bool callback is one event
struct EventVisitor
{
    rt::Out& o;
    std::size_t stop_at, count;
    bool stopped;
    std::vector<std::size_t> idx;
    EventVisitor(rt::Out& out, std::size_t k) : o(out), stop_at(k), count(0), stopped(false) {}
    void ev(const std::string& e)
    {
        if(stopped) o.err("callback after stop: " + e);
        if(!o.s.empty()) o.s += " | ";
        o.s += e;
        if(o.s.size() > (8u << 20)) rt::output_limit_exceeded();
        count++;
        if(count == stop_at) stopped = true;
    }
    template<typename T> std::string val(T t, std::integral_constant<int, 0>) { return rt::Out::hex64(rt::bits(plain_value(t))); }
    template<typename T> std::string val(T t, std::integral_constant<int, 1>)
    {
        // enum: the value and the enumerator visit(enum) reports for it
        EnumVis e;
        sbepp::visit(t, e);
        return rt::Out::hex64(rt::enum_bits(t)) + " V " + (e.calls == 1 ? e.name : std::string("XERR(on_enum_value calls)"));
    }
    template<typename T> std::string val(T t, std::integral_constant<int, 2>)
    {
        // set: the value and every choice visit(set) reports
        SetVis sv;
        sbepp::visit(t, sv);
        return rt::Out::hex64(rt::bits(*t)) + " S " + (sv.s.empty() ? std::string("-") : sv.s);
    }
    template<typename T> std::string val(T t, std::integral_constant<int, 3>) { return rt::Out::hexbytes(t.data(), o.clamp(t.data(), t.size())); }
    template<typename T> bool leaf(T t, const char* name, std::false_type)
    {
        ev(std::string("F ") + name + " " + val(t, std::integral_constant<int,
            sbepp::is_enum<T>::value ? 1 : sbepp::is_set<T>::value ? 2 : sbepp::is_array_type<T>::value ? 3 : 0>()));
        return stopped;
    }
    template<typename T> bool leaf(T t, const char* name, std::true_type)
    {
        ev(std::string("C ") + name);
        if(stopped) return true;
        sbepp::visit_children(t, *this);
        return stopped;
    }
    template<typename T> bool any(T t, const char* name) { return leaf(t, name, std::integral_constant<bool, sbepp::is_composite<T>::value>()); }

    template<typename M, typename C, typename Tag> void on_message(M m, C& c, Tag) { sbepp::visit_children(m, c, *this); }
    template<typename G, typename C, typename Tag> bool on_group(G g, C& c, Tag)
    {
        ev(std::string("G ") + tagname(Tag()) + " " + std::to_string(g.size()));
        if(stopped) return true;
        idx.push_back(0);
        sbepp::visit_children(g, c, *this);
        idx.pop_back();
        return stopped;
    }
    template<typename E, typename C, typename... X> bool on_entry(E e, C& c, X...)
    {
        ev("E " + std::to_string(idx.back()++));
        if(stopped) return true;
        sbepp::visit_children(e, c, *this);
        return stopped;
    }
    template<typename T, typename Tag> bool on_field(T t, Tag) { return any(t, tagname(Tag())); }
    template<typename T, typename Tag> bool on_type(T t, Tag) { return any(t, tagname(Tag())); }
    template<typename T, typename Tag> bool on_enum(T t, Tag) { return any(t, tagname(Tag())); }
    template<typename T, typename Tag> bool on_set(T t, Tag) { return any(t, tagname(Tag())); }
    template<typename T, typename Tag> bool on_composite(T t, Tag) { return any(t, tagname(Tag())); }
    template<typename D, typename Tag> bool on_data(D d, Tag)
    {
        ev(std::string("D ") + tagname(Tag()) + " " + std::to_string(d.size()) + " " + rt::Out::hexbytes(d.data(), o.clamp(d.data(), d.size())));
        return stopped;
    }
};
'''

MAIN_CODE = r'''
int main()
{
    rt::install_handlers();
    rt::GuardBuf gb;
    std::string line;
    while(std::getline(std::cin, line))
    {
        rt::Tokens tk(line);
        std::string cmd = tk.next();
        if(cmd == "quit") break;
        if(cmd == "ping") { std::cout << "OK pong" << std::endl; continue; }
        std::size_t mi = static_cast<std::size_t>(tk.dec());
        rt::Out o;
        bool known = true;
        RT_GUARDED(known = drv::dispatch(cmd, mi, tk, gb, o));
        rt::Guard& g = rt::guard();
#ifdef RT_COUNT_CALLS
        rt::g_budget = 0;
        o.kv("calls", rt::g_calls);
#endif
        if(g.kind == 4) std::cout << "OUTLIMIT output of this case exceeded 8 MiB (traversal abandoned)" << std::endl;
        else if(g.kind == 3) std::cout << "BUDGET " << o.s << std::endl;
        else if(g.kind == 1) std::cout << "ASSERT " << g.expr << " || " << o.s << std::endl;
        else if(g.kind == 2) std::cout << "SEGV " << (static_cast<unsigned char*>(g.fault_addr) - gb.end()) << " || " << o.s << std::endl;
        else if(!known) std::cout << "ERR unknown command" << std::endl;
        else std::cout << "OK " << o.s << std::endl;
    }
    return 0;
}
'''
