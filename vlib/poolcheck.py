"""Level B of the two-level generation: per-property case search over the
schema pool with Hypothesis, persistent drivers and the reference model."""
import json
import os
import shutil

from hypothesis import HealthCheck, Phase, given, seed as hseed, settings, strategies as st

from vlib import common, pool as poolmod, values


class CaseFailure(Exception):
    pass


class PoolCheck:
    def __init__(self, prop, t, budget=1.0, level="exploration", pool_kw=None):
        self.prop = prop
        self.tier = t
        self.budget = budget
        self.res = common.Result(prop, t, level=level)
        self.pool = poolmod.build_pool(t, **(pool_kw or {}))
        self.drivers = poolmod.DriverSet()
        self.entries = [e for e in self.pool.entries if e.model.messages]
        self.last_failure = None
        self.collected = {}
        self.res.extra["pool"] = {"schemas": len(self.pool.entries), "with_messages": len(self.entries),
                                  "build_wall_s": self.pool.meta.get("wall_s"), "build_failures": len(self.pool.failures)}
        feats = {}
        for e in self.pool.entries:
            for f in e.status.get("features", []):
                feats[f] = feats.get(f, 0) + 1
        self.res.extra["pool_features"] = feats
        self.res.extra["configs_used"] = sorted({c for e in self.pool.entries for c in e.status["configs"]})

    # ------------------------------------------------------------ drawing
    def draw_target(self, data):
        ei = data.draw(st.integers(0, len(self.entries) - 1), label="schema")
        entry = self.entries[ei]
        mi = data.draw(st.integers(0, len(entry.model.messages) - 1), label="message")
        return entry, mi, entry.model.messages[mi]

    def call(self, entry, cfg, line):
        return self.drivers.get(entry, cfg).call(line)

    # ------------------------------------------------------------ failures
    def fail(self, signature, entry, case, text):
        """record a failing case. Known findings are counted and the search goes on."""
        if self.res.findings.is_known(signature):
            return
        if os.environ.get("VERIF_COLLECT"):
            # triage aid: list every distinct signature instead of stopping at the first
            self.res.cls("COLLECTED " + signature)
            if signature not in self.collected:
                self.collected[signature] = text
            return
        full = {"schema_xml": entry.xml, "model": entry.sch}
        full.update(case)
        self.last_failure = (signature, full, text)
        raise CaseFailure(signature)

    def claim_build_failures(self, needles, signature):
        """pool schemas whose generated driver does not compile at a call of this property's API are violations of
        this property too (C07 reports every such schema; here only the ones naming the API in the compiler error)"""
        for fe in self.pool.failures:
            st_ = fe.status
            hits = [e for e in st_.get("errors", []) if any(n in e for n in needles) and "error" in e]
            if not hits or st_.get("stage") not in ("driver", "driver-nc", "driver_nc"):
                continue
            self.res.count()
            if self.res.findings.is_known(signature):
                continue
            self.res.violation(signature, {"schema_xml": fe.xml, "model": fe.sch, "config": st_.get("failed_config"), "stage": st_.get("stage"),
                                           "build_failure": True},
                               "[%s] the documented call does not compile against the generated code: %s" % (
                                   st_.get("failed_config"), "; ".join(h.split("/")[-1] for h in hits[:2])))
            break

    def run_hypothesis(self, fn, max_examples, seed_offset=0):
        """fn(data) is the property body. Shrinks on failure; the minimal failure becomes the violation."""
        @hseed(common.seed() + seed_offset)
        @settings(max_examples=max(1, int(max_examples * self.budget)), database=None, deadline=None,
                  suppress_health_check=list(HealthCheck), report_multiple_bugs=False,
                  phases=[Phase.generate, Phase.shrink])
        @given(st.data())
        def prop(data):
            fn(data)

        from hypothesis import errors as herrors
        try:
            prop()
        except CaseFailure:
            sig, case, text = self.last_failure
            self.res.violation(sig, case, text)
        except herrors.Flaky:
            # a failure that did not repeat when Hypothesis re-ran the very same case (a driver killed by the environment,
            # for instance): by definition not reproducible, so never a verdict; counted and reported as inconclusive
            self.res.cls("nonreproducible_failure_discarded")
            print("note: %s: a failing case did not reproduce on re-execution and was discarded (inconclusive): %s" % (
                self.prop, (self.last_failure or ("?",))[0]))
            self.last_failure = None
        return self.last_failure is None

    def finish(self):
        self.drivers.close()
        for sig, text in sorted(self.collected.items()):
            print("COLLECTED %s :: %s" % (sig, text[:300]))
        return self.res.finish()


def replay_entry(case, cfgnames):
    """rebuild schema + driver(s) of a replay file from the current tree"""
    if case.get("build_failure"):
        cfgnames = [case.get("config")] if case.get("config") else cfgnames
    sbeppc = common.build_sbeppc("plain")
    edir = common.build_dir("replay-%d" % os.getpid())
    shutil.rmtree(edir, ignore_errors=True)
    wanted = {n[:-3] if n.endswith("-nc") else n for n in cfgnames}
    cfgs = [c for c in poolmod.CONFIGS if poolmod.cfg_name(c) in wanted] or [poolmod.CONFIGS[2]]
    st_ = poolmod.build_entry(case["model"], edir, cfgs, [], sbeppc)
    if not st_["ok"]:
        print("replay: schema no longer builds:", st_.get("signature"), st_.get("errors"))
        return None
    return poolmod.Entry(edir)
