"""Entry point: ./check <id> [--tier quick|thorough] [--replay file]"""
import argparse
import importlib
import os
import sys
import traceback

sys.path.insert(0, os.path.dirname(os.path.dirname(os.path.abspath(__file__))))

from vlib import common  # noqa: E402


def main():
    ap = argparse.ArgumentParser()
    ap.add_argument("prop")
    ap.add_argument("--tier", default=None)
    ap.add_argument("--replay", default=None)
    ap.add_argument("--budget", type=float, default=None, help="scale factor on case counts")
    args = ap.parse_args()
    prop = args.prop.upper()
    t = common.tier(args.tier)
    os.chdir(common.VERIF)
    try:
        mod = importlib.import_module("vlib.checks.%s" % prop.lower())
    except ImportError:
        traceback.print_exc()
        print("no check for %s" % prop)
        return 2
    common.prune_builds()
    try:
        if args.replay:
            return mod.replay(args.replay)
        return mod.run(t, budget=args.budget or 1.0)
    except common.LibraryBuildError as e:
        res = common.Result(prop, t)
        res.rule = "harness build against the working tree (the check could not run: the library or generated code does not compile for it)"
        res.count()
        res.violation(e.signature, e.case, str(e))
        return res.finish()
    except common.BuildError as e:
        # a tree that does not build is not a property verdict
        print("BUILD-ERROR: %s" % e)
        return 3


if __name__ == "__main__":
    sys.exit(main())
