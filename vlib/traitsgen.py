"""C18 support: per-schema *trait dump* program and the expected dump.

For one schema model (the dicts of schemagen.py, i.e. what the XML states) this
module produces

* a standalone C++11 program that includes only `<pkg/pkg.hpp>` and prints one
  line per trait of every entity, addressed by its documented tag path
  (`pkg::schema`, `pkg::schema::types::T[::member[::inner]]`,
  `pkg::schema::messages::M[::group...]::member`), plus a generic walk that
  starts at the schema tag and is driven only by the children tag lists;
* the expected dump, computed from the schema dicts and the reference layout
  (model.Model: member offsets, composite sizes, block lengths) — never from
  sbeppc's tables or output.

Line format: `<label>\t<trait>\t<value>`; strings are hex encoded ("x" + hex of
the bytes) so that any byte survives, floats are raw bits ("nan" for any NaN),
members whose availability is conditional print "absent" when the member does
not exist (detected with a void_t idiom).

Expectation values are strings; NOCLAIM marks lines the program prints but the
documentation / DESIGN A.5 is silent about (not compared, not counted).

Helpers that would also fit schemagen/model (literal parsing, SBE defaults,
actual presence) are kept here on purpose: those modules are edited elsewhere.
"""
import re
from decimal import Decimal
from fractions import Fraction

from vlib.schemagen import PRIMS

NOCLAIM = None

CPP_PRIM = {"char": "char", "int8": "::std::int8_t", "uint8": "::std::uint8_t", "int16": "::std::int16_t",
            "uint16": "::std::uint16_t", "int32": "::std::int32_t", "uint32": "::std::uint32_t", "int64": "::std::int64_t",
            "uint64": "::std::uint64_t", "float": "float", "double": "double"}

KIND_ORDER = ["type", "enum", "enum_value", "set", "set_choice", "composite", "message", "field", "group", "data", "schema"]


# --------------------------------------------------------------------------
# literals (parsed independently of sbeppc: the XML text is the source of truth)

def parse_int_literal(text):
    """decimal integer text as std::from_chars / the SBE schema mean it: leading zeros are decimal"""
    if not re.match(r"^-?[0-9]+$", text):
        raise ValueError("not a decimal integer literal: %r" % text)
    neg = text.startswith("-")
    v = 0
    for ch in text.lstrip("-"):
        v = v * 10 + (ord(ch) - 48)
    return -v if neg else v


FMT = {4: (24, -126, 127, 127, 8), 8: (53, -1022, 1023, 1023, 11)}   # p, emin, emax, bias, exponent bits


def float_bits(text, size):
    """IEEE-754 bits of the correctly rounded (nearest, ties to even) value of an XML float literal; 'nan' for NaN"""
    p, emin, emax, bias, ebits = FMT[size]
    sign_shift = 8 * size - 1
    inf = ((1 << ebits) - 1) << (p - 1)
    if text == "NaN":
        return "nan"
    if text in ("INF", "+INF"):
        return inf
    if text == "-INF":
        return inf | (1 << sign_shift)
    d = Decimal(text)
    sign = (1 << sign_shift) if d.is_signed() else 0
    fr = abs(Fraction(d))
    if fr == 0:
        return sign
    e = fr.numerator.bit_length() - fr.denominator.bit_length()
    if Fraction(2) ** e > fr:
        e -= 1
    assert Fraction(2) ** e <= fr < Fraction(2) ** (e + 1)
    e = max(e, emin)
    q = Fraction(2) ** (e - p + 1)
    n = fr / q
    m = n.numerator // n.denominator
    rem = n - m
    if rem > Fraction(1, 2) or (rem == Fraction(1, 2) and m % 2 == 1):
        m += 1
    if m == (1 << p):
        m >>= 1
        e += 1
    if e > emax:
        return sign | inf
    if m < (1 << (p - 1)):
        return sign | m                      # subnormal (or rounded up into the smallest normal: handled by m carry)
    return sign | ((e + bias) << (p - 1)) | (m - (1 << (p - 1)))


def fmt_bits(v, size):
    if v == "nan":
        return "nan"
    return "%0*x" % (2 * size, v & ((1 << (8 * size)) - 1))


def literal_bits(text, prim):
    size, kind = PRIMS[prim]
    if kind == "f":
        return fmt_bits(float_bits(text, size), size)
    return fmt_bits(parse_int_literal(text), size)


def default_min_max_null(prim):
    """DESIGN A.6 / SBE defaults, formatted like literal_bits"""
    size, kind = PRIMS[prim]
    w = 8 * size
    if kind == "c":
        r = (0x20, 0x7E, 0)
    elif kind == "s":
        r = (-(1 << (w - 1)) + 1, (1 << (w - 1)) - 1, -(1 << (w - 1)))
    elif kind == "u":
        r = (0, (1 << w) - 2, (1 << w) - 1)
    else:
        p, emin, emax, bias, ebits = FMT[size]
        fmin = 1 << (p - 1)                                    # smallest normal: numeric_limits::min()
        fmax = (((1 << ebits) - 2) << (p - 1)) | ((1 << (p - 1)) - 1)
        r = (fmin, fmax, "nan")
    return tuple(fmt_bits(x, size) for x in r)


def hexs(s):
    return "x" + (s or "").encode("utf-8").hex()


def cstr(s):
    out = '"'
    for ch in s.encode("utf-8"):
        if ch in (0x22, 0x5C):
            out += "\\" + chr(ch)
        elif 32 <= ch < 127 and ch != 0x3F:
            out += chr(ch)
        else:
            out += "\\%03o" % ch
    return out + '"'


def type_length(t):
    """`length` attribute; SBE derives it from the text for a char constant without one"""
    if t["length"] is not None:
        return t["length"]
    if t["presence"] == "constant" and t["prim"] == "char" and not t.get("value_ref"):
        return len(t["const"].encode("utf-8"))
    return 1


# --------------------------------------------------------------------------
# C++ prelude

PRELUDE = r'''
#include <cstdio>
#include <cstring>
#include <cstdint>
#include <string>
#include <type_traits>
#include <utility>

namespace td
{
template<typename... Ts> struct mk_void { typedef void type; };
template<typename... Ts> using void_t = typename mk_void<Ts...>::type;

static std::string g_label;
inline void L(const char* label) { g_label = label; }
inline void put(const char* trait, const std::string& v)
{
    std::printf("%s\t%s\t%s\n", g_label.c_str(), trait, v.c_str());
}
inline void chk(const char* trait, bool v) { put(trait, v ? "1" : "0"); }
// every value trait is documented `static constexpr ... noexcept`: evaluate it in a constant expression
#define TD_PUT(TRAIT, CONV, EXPR)                                       \
    do                                                                  \
    {                                                                   \
        constexpr auto v_ = (EXPR);                                     \
        static_assert(noexcept(EXPR), "documented noexcept: " #EXPR);   \
        put(TRAIT, CONV(v_));                                           \
    } while(0)
inline std::string hex(const char* s)
{
    static const char* d = "0123456789abcdef";
    std::string r = "x";
    for(; *s; ++s)
    {
        const unsigned char c = static_cast<unsigned char>(*s);
        r += d[c >> 4];
        r += d[c & 15];
    }
    return r;
}
template<typename T> std::string num(T v)
{
    char b[40];
    std::snprintf(b, sizeof b, "%llu", static_cast<unsigned long long>(v));
    return b;
}
inline std::string hexw(unsigned long long u, std::size_t size)
{
    char b[40];
    std::snprintf(b, sizeof b, "%0*llx", static_cast<int>(2 * size), u);
    return b;
}
template<typename T>
typename std::enable_if<std::is_floating_point<T>::value, std::string>::type bits(T v)
{
    if(v != v) return "nan";
    unsigned long long u = 0;
    typename std::conditional<sizeof(T) == 4, std::uint32_t, std::uint64_t>::type raw;
    static_assert(sizeof(raw) == sizeof(v), "float size");
    std::memcpy(&raw, &v, sizeof v);
    u = raw;
    return hexw(u, sizeof v);
}
template<typename T>
typename std::enable_if<std::is_integral<T>::value, std::string>::type bits(T v)
{
    typedef typename std::make_unsigned<T>::type U;
    return hexw(static_cast<unsigned long long>(static_cast<U>(v)), sizeof v);
}
template<typename T>
typename std::enable_if<std::is_enum<T>::value, std::string>::type bits(T v)
{
    return bits(static_cast<typename std::underlying_type<T>::type>(v));
}
inline const char* presence_str(sbepp::field_presence p)
{
    return p == sbepp::field_presence::required ? "required"
        : p == sbepp::field_presence::optional  ? "optional"
        : p == sbepp::field_presence::constant  ? "constant"
                                                : "?";
}
inline const char* endian_str(sbepp::endian e)
{
    return e == sbepp::endian::little ? "little" : e == sbepp::endian::big ? "big" : "?";
}

// availability of conditionally present members
#define TD_OPTIONAL_MEMBER(NAME, CONV)                                                         \
    template<typename Tr, typename = void> struct has_##NAME : std::false_type {};             \
    template<typename Tr> struct has_##NAME<Tr, void_t<decltype(Tr::NAME())>> : std::true_type {}; \
    template<typename Tr> std::string get_##NAME(std::true_type)                               \
    {                                                                                          \
        constexpr auto v_ = Tr::NAME();                                                        \
        static_assert(noexcept(Tr::NAME()), "documented noexcept: " #NAME);                    \
        return CONV(v_);                                                                       \
    }                                                                                          \
    template<typename Tr> std::string get_##NAME(std::false_type) { return "absent"; }         \
    template<typename Tr> std::string opt_##NAME() { return get_##NAME<Tr>(has_##NAME<Tr>()); }
TD_OPTIONAL_MEMBER(deprecated, num)
TD_OPTIONAL_MEMBER(offset, num)
TD_OPTIONAL_MEMBER(min_value, bits)
TD_OPTIONAL_MEMBER(max_value, bits)
TD_OPTIONAL_MEMBER(null_value, bits)

// min/max/null must return primitive_type
template<typename Tr, typename = void> struct mmn_types_ok : std::true_type {};
template<typename Tr>
struct mmn_types_ok<Tr, void_t<decltype(Tr::min_value()), decltype(Tr::max_value())>>
    : std::integral_constant<bool,
          std::is_same<decltype(Tr::min_value()), typename Tr::primitive_type>::value
              && std::is_same<decltype(Tr::max_value()), typename Tr::primitive_type>::value>
{
};
template<typename Tr, typename = void> struct null_type_ok : std::true_type {};
template<typename Tr>
struct null_type_ok<Tr, void_t<decltype(Tr::null_value())>>
    : std::is_same<decltype(Tr::null_value()), typename Tr::primitive_type>
{
};

// tag kind predicates
template<typename Tag> std::string kinds()
{
    std::string s;
    if(sbepp::is_type_tag<Tag>::value) s += "type,";
    if(sbepp::is_enum_tag<Tag>::value) s += "enum,";
    if(sbepp::is_enum_value_tag<Tag>::value) s += "enum_value,";
    if(sbepp::is_set_tag<Tag>::value) s += "set,";
    if(sbepp::is_set_choice_tag<Tag>::value) s += "set_choice,";
    if(sbepp::is_composite_tag<Tag>::value) s += "composite,";
    if(sbepp::is_message_tag<Tag>::value) s += "message,";
    if(sbepp::is_field_tag<Tag>::value) s += "field,";
    if(sbepp::is_group_tag<Tag>::value) s += "group,";
    if(sbepp::is_data_tag<Tag>::value) s += "data,";
    if(sbepp::is_schema_tag<Tag>::value) s += "schema,";
    return s;
}
template<typename Tag> struct kind_id
{
    static const int value = sbepp::is_type_tag<Tag>::value ? 1
        : sbepp::is_enum_tag<Tag>::value                    ? 2
        : sbepp::is_enum_value_tag<Tag>::value              ? 3
        : sbepp::is_set_tag<Tag>::value                     ? 4
        : sbepp::is_set_choice_tag<Tag>::value              ? 5
        : sbepp::is_composite_tag<Tag>::value               ? 6
        : sbepp::is_message_tag<Tag>::value                 ? 7
        : sbepp::is_field_tag<Tag>::value                   ? 8
        : sbepp::is_group_tag<Tag>::value                   ? 9
        : sbepp::is_data_tag<Tag>::value                    ? 10
        : sbepp::is_schema_tag<Tag>::value                  ? 11
                                                            : 0;
};
template<typename Tag, int K> struct traits_of;
template<typename Tag> struct traits_of<Tag, 1> { typedef sbepp::type_traits<Tag> type; };
template<typename Tag> struct traits_of<Tag, 2> { typedef sbepp::enum_traits<Tag> type; };
template<typename Tag> struct traits_of<Tag, 3> { typedef sbepp::enum_value_traits<Tag> type; };
template<typename Tag> struct traits_of<Tag, 4> { typedef sbepp::set_traits<Tag> type; };
template<typename Tag> struct traits_of<Tag, 5> { typedef sbepp::set_choice_traits<Tag> type; };
template<typename Tag> struct traits_of<Tag, 6> { typedef sbepp::composite_traits<Tag> type; };
template<typename Tag> struct traits_of<Tag, 7> { typedef sbepp::message_traits<Tag> type; };
template<typename Tag> struct traits_of<Tag, 8> { typedef sbepp::field_traits<Tag> type; };
template<typename Tag> struct traits_of<Tag, 9> { typedef sbepp::group_traits<Tag> type; };
template<typename Tag> struct traits_of<Tag, 10> { typedef sbepp::data_traits<Tag> type; };

// name() of an arbitrary tag, selected by the tag-kind predicates only
template<typename Tag, int K = kind_id<Tag>::value> struct tag_name
{
    static std::string get() { return traits_of<Tag, K>::type::name(); }
};
template<typename Tag> struct tag_name<Tag, 0> { static std::string get() { return "<no-kind>"; } };
template<typename Tag> struct tag_name<Tag, 11> { static std::string get() { return sbepp::schema_traits<Tag>::package(); } };

// generic iteration over sbepp::type_list
template<typename List> struct list_ops;
template<> struct list_ops<sbepp::type_list<>>
{
    static const std::size_t size = 0;
    static void names(std::string&, const char*) {}
    template<typename X> struct contains : std::false_type {};
    template<template<typename, int> class F> static void each(const std::string&) {}
};
template<typename H, typename... T> struct list_ops<sbepp::type_list<H, T...>>
{
    typedef list_ops<sbepp::type_list<T...>> rest;
    static const std::size_t size = 1 + sizeof...(T);
    static void names(std::string& out, const char* sep)
    {
        if(!out.empty()) out += sep;
        out += tag_name<H>::get();
        rest::names(out, sep);
    }
    template<typename X> struct contains
        : std::integral_constant<bool, std::is_same<H, X>::value || rest::template contains<X>::value>
    {
    };
    template<template<typename, int> class F> static void each(const std::string& prefix)
    {
        F<H, kind_id<H>::value>::go(prefix + "/" + tag_name<H>::get());
        rest::template each<F>(prefix);
    }
};
template<typename List> std::string names()
{
    std::string s;
    list_ops<List>::names(s, ",");
    return s.empty() ? "-" : s;
}
// unordered list: print the multiset of names in a canonical (sorted) order
template<typename List> std::string sorted_names()
{
    std::string s;
    list_ops<List>::names(s, "\n");
    if(s.empty()) return "-";
    std::string out;
    // simple selection sort over the '\n' separated items (lists are short)
    std::string rest = s + "\n";
    while(!rest.empty())
    {
        std::size_t best_b = 0, best_e = rest.find('\n');
        for(std::size_t b = 0; b < rest.size();)
        {
            const std::size_t e = rest.find('\n', b);
            if(rest.compare(b, e - b, rest, best_b, best_e - best_b) < 0) { best_b = b; best_e = e; }
            b = e + 1;
        }
        if(!out.empty()) out += ",";
        out += rest.substr(best_b, best_e - best_b);
        rest.erase(best_b, best_e - best_b + 1);
    }
    return out;
}

// ---------------------------------------------------------------- dumpers
template<typename Tag> void dump_schema()
{
    typedef sbepp::schema_traits<Tag> Tr;
    put("kinds", kinds<Tag>());
    TD_PUT("package", hex, Tr::package());
    TD_PUT("id", num, Tr::id());
    TD_PUT("version", num, Tr::version());
    TD_PUT("semantic_version", hex, Tr::semantic_version());
    TD_PUT("byte_order", endian_str, Tr::byte_order());
    TD_PUT("description", hex, Tr::description());
    put("type_tags", sorted_names<typename Tr::type_tags>());
    put("type_tags_size", num(list_ops<typename Tr::type_tags>::size));
    put("message_tags", names<typename Tr::message_tags>());
}
template<typename Tag> void dump_type()
{
    typedef sbepp::type_traits<Tag> Tr;
    put("kinds", kinds<Tag>());
    TD_PUT("name", hex, Tr::name());
    TD_PUT("description", hex, Tr::description());
    TD_PUT("presence", presence_str, Tr::presence());
    TD_PUT("length", num, Tr::length());
    TD_PUT("semantic_type", hex, Tr::semantic_type());
    TD_PUT("since_version", num, Tr::since_version());
    TD_PUT("character_encoding", hex, Tr::character_encoding());
    put("deprecated", opt_deprecated<Tr>());
    put("offset", opt_offset<Tr>());
    put("min_value", opt_min_value<Tr>());
    put("max_value", opt_max_value<Tr>());
    put("null_value", opt_null_value<Tr>());
    chk("is:min_max_null_return_type", mmn_types_ok<Tr>::value && null_type_ok<Tr>::value);
}
template<typename Tag> void dump_enum()
{
    typedef sbepp::enum_traits<Tag> Tr;
    put("kinds", kinds<Tag>());
    TD_PUT("name", hex, Tr::name());
    TD_PUT("description", hex, Tr::description());
    TD_PUT("since_version", num, Tr::since_version());
    put("deprecated", opt_deprecated<Tr>());
    put("offset", opt_offset<Tr>());
    put("value_tags", names<typename Tr::value_tags>());
}
template<typename Tag> void dump_enum_value()
{
    typedef sbepp::enum_value_traits<Tag> Tr;
    put("kinds", kinds<Tag>());
    TD_PUT("name", hex, Tr::name());
    TD_PUT("description", hex, Tr::description());
    TD_PUT("since_version", num, Tr::since_version());
    put("deprecated", opt_deprecated<Tr>());
    TD_PUT("value", bits, Tr::value());
}
template<typename Tag> void dump_set()
{
    typedef sbepp::set_traits<Tag> Tr;
    put("kinds", kinds<Tag>());
    TD_PUT("name", hex, Tr::name());
    TD_PUT("description", hex, Tr::description());
    TD_PUT("since_version", num, Tr::since_version());
    put("deprecated", opt_deprecated<Tr>());
    put("offset", opt_offset<Tr>());
    put("choice_tags", names<typename Tr::choice_tags>());
}
template<typename Tag> void dump_set_choice()
{
    typedef sbepp::set_choice_traits<Tag> Tr;
    put("kinds", kinds<Tag>());
    TD_PUT("name", hex, Tr::name());
    TD_PUT("description", hex, Tr::description());
    TD_PUT("since_version", num, Tr::since_version());
    put("deprecated", opt_deprecated<Tr>());
    TD_PUT("index", num, Tr::index());
}
template<typename Tag> void dump_composite()
{
    typedef sbepp::composite_traits<Tag> Tr;
    put("kinds", kinds<Tag>());
    TD_PUT("name", hex, Tr::name());
    TD_PUT("description", hex, Tr::description());
    TD_PUT("semantic_type", hex, Tr::semantic_type());
    TD_PUT("since_version", num, Tr::since_version());
    put("deprecated", opt_deprecated<Tr>());
    put("offset", opt_offset<Tr>());
    TD_PUT("size_bytes", num, Tr::size_bytes());
    put("element_tags", names<typename Tr::element_tags>());
}
template<typename Tr> void dump_level_common()
{
    TD_PUT("name", hex, Tr::name());
    TD_PUT("description", hex, Tr::description());
    TD_PUT("id", num, Tr::id());
    TD_PUT("block_length", num, Tr::block_length());
    TD_PUT("semantic_type", hex, Tr::semantic_type());
    TD_PUT("since_version", num, Tr::since_version());
    put("deprecated", opt_deprecated<Tr>());
    put("field_tags", names<typename Tr::field_tags>());
    put("group_tags", names<typename Tr::group_tags>());
    put("data_tags", names<typename Tr::data_tags>());
}
template<typename Tag> void dump_message()
{
    put("kinds", kinds<Tag>());
    dump_level_common<sbepp::message_traits<Tag>>();
}
template<typename Tag> void dump_group()
{
    put("kinds", kinds<Tag>());
    dump_level_common<sbepp::group_traits<Tag>>();
}
template<typename Tag> void dump_field()
{
    typedef sbepp::field_traits<Tag> Tr;
    put("kinds", kinds<Tag>());
    TD_PUT("name", hex, Tr::name());
    TD_PUT("id", num, Tr::id());
    TD_PUT("description", hex, Tr::description());
    TD_PUT("presence", presence_str, Tr::presence());
    put("offset", opt_offset<Tr>());
    TD_PUT("since_version", num, Tr::since_version());
    put("deprecated", opt_deprecated<Tr>());
}
template<typename Tag> void dump_data()
{
    typedef sbepp::data_traits<Tag> Tr;
    put("kinds", kinds<Tag>());
    TD_PUT("name", hex, Tr::name());
    TD_PUT("id", num, Tr::id());
    TD_PUT("description", hex, Tr::description());
    TD_PUT("since_version", num, Tr::since_version());
    put("deprecated", opt_deprecated<Tr>());
    TD_PUT("size_bytes_0", num, Tr::size_bytes(0));
    TD_PUT("size_bytes_5", num, Tr::size_bytes(5));
}

// ------------------------------------------------------------ generic walk
// starts at the schema tag; reaches every entity only through the tag lists
static const char* const kind_names[] = {"?", "type", "enum", "enum_value", "set", "set_choice", "composite",
    "message", "field", "group", "data", "schema"};
inline void wput(const std::string& path, int k)
{
    std::printf("W:%s\tkind\t%s\n", path.c_str(), kind_names[k]);
}
template<typename Tag, int K> struct walker
{
    static void go(const std::string& path) { wput(path, K); }
};
template<typename Tag> struct walker<Tag, 2>
{
    static void go(const std::string& path)
    {
        wput(path, 2);
        list_ops<typename sbepp::enum_traits<Tag>::value_tags>::template each<walker>(path);
    }
};
template<typename Tag> struct walker<Tag, 4>
{
    static void go(const std::string& path)
    {
        wput(path, 4);
        list_ops<typename sbepp::set_traits<Tag>::choice_tags>::template each<walker>(path);
    }
};
template<typename Tag> struct walker<Tag, 6>
{
    static void go(const std::string& path)
    {
        wput(path, 6);
        list_ops<typename sbepp::composite_traits<Tag>::element_tags>::template each<walker>(path);
    }
};
template<typename Tr> void walk_level(const std::string& path)
{
    list_ops<typename Tr::field_tags>::template each<walker>(path);
    list_ops<typename Tr::group_tags>::template each<walker>(path);
    list_ops<typename Tr::data_tags>::template each<walker>(path);
}
template<typename Tag> struct walker<Tag, 7>
{
    static void go(const std::string& path)
    {
        wput(path, 7);
        walk_level<sbepp::message_traits<Tag>>(path);
    }
};
template<typename Tag> struct walker<Tag, 9>
{
    static void go(const std::string& path)
    {
        wput(path, 9);
        walk_level<sbepp::group_traits<Tag>>(path);
    }
};
template<typename Tag> struct walker<Tag, 11>
{
    static void go(const std::string&)
    {
        wput("schema", 11);
        list_ops<typename sbepp::schema_traits<Tag>::type_tags>::template each<walker>("types");
        list_ops<typename sbepp::schema_traits<Tag>::message_tags>::template each<walker>("messages");
    }
};
} // namespace td
'''


# --------------------------------------------------------------------------
# generator

class TraitsGen:
    """program() -> C++ source; expected -> {(label, trait): value or NOCLAIM};
    nontrivial -> set of keys; kind_of -> {label: entity kind}"""

    def __init__(self, sch, model):
        self.sch = sch
        self.M = model
        self.pkg = sch.get("schema_name") or sch["package"]
        self.types = {t["name"].lower(): t for t in sch["types"]}
        self.funcs = []
        self.cur = None
        self.label = None
        self.force_nt = False
        self.expected = {}
        self.nontrivial = set()
        self.kind_of = {}
        self.stag = "::%s::schema" % self.pkg
        self._build()

    # ------------------------------------------------------------ plumbing
    def ent(self, label, kind, tag, force_nt=False):
        assert self.cur is None
        assert label not in self.kind_of, label
        self.kind_of[label] = kind
        self.label = label
        self.force_nt = force_nt
        self.cur = ["static void e%d()" % len(self.funcs), "{", "    typedef %s TAG;" % tag, "    td::L(%s);" % cstr(label)]

    def end(self):
        self.cur.append("}")
        self.funcs.append("\n".join(self.cur))
        self.cur = None

    def stmt(self, s):
        self.cur.append("    " + s)

    def x(self, trait, value, nt=False):
        key = (self.label, trait)
        assert key not in self.expected, key
        self.expected[key] = value
        if value is not NOCLAIM and (nt or self.force_nt):
            self.nontrivial.add(key)

    def chk(self, trait, cond, nt=False):
        self.stmt("td::chk(%s, %s);" % (cstr(trait), cond))
        self.x(trait, "1", nt)

    def same(self, trait, a, b, nt=False):
        self.chk(trait, "std::is_same< %s, %s >::value" % (a, b), nt)

    def type_tag(self, name):
        return "%s::types::%s" % (self.stag, name)

    def pub_type(self, name):
        return "::%s::types::%s" % (self.pkg, name)

    def lookup(self, name):
        return self.types[name.lower()]

    def enc_prim(self, e):
        """primitive type behind an enum/set encodingType (a primitive name or a public <type>)"""
        enc = e["enc"]
        if enc in PRIMS:
            return enc
        return self.lookup(enc)["prim"]

    # ------------------------------------------------ shared attribute rules
    def x_desc(self, d):
        self.x("description", hexs(d.get("description")), nt=bool(d.get("description")))

    def x_semantic(self, d):
        self.x("semantic_type", hexs(d.get("semantic_type")), nt=bool(d.get("semantic_type")))

    def x_since(self, d):
        v = d.get("since") or 0
        self.x("since_version", str(v), nt=v != 0)

    def x_deprecated(self, d, inherited_unknown=False):
        if d.get("deprecated") is not None:
            self.x("deprecated", str(d["deprecated"]), nt=True)
        elif inherited_unknown:
            # a <ref> without its own `deprecated`: documentation and DESIGN A.5 are silent
            self.x("deprecated", NOCLAIM)
        else:
            self.x("deprecated", "absent")

    def x_offset(self, off, explicit):
        """off: int | 'absent' | NOCLAIM"""
        if off is NOCLAIM:
            self.x("offset", NOCLAIM)
        elif off == "absent":
            self.x("offset", "absent")
        else:
            self.x("offset", str(off), nt=bool(explicit) or off != 0)

    # ---------------------------------------------------------------- types
    def do_type(self, label, tag, t, ref=None, off="absent", deep=False):
        """t: the <type> element (target of `ref` when reached through a <ref>)"""
        src = ref or t
        self.ent(label, "type" if ref is None else "ref-type", tag, force_nt=deep or ref is not None)
        self.stmt("td::dump_type<TAG>();")
        self.x("kinds", "type,")
        self.x("name", hexs(src["name"]))
        self.x_desc(t)
        pres = t["presence"]
        self.x("presence", pres, nt=pres != "required")
        ln = type_length(t)
        self.x("length", str(ln), nt=ln != 1)
        self.x_semantic(t)
        self.x_since(src)
        self.x("character_encoding", hexs(t.get("char_enc")), nt=bool(t.get("char_enc")))
        self.x_deprecated(src, inherited_unknown=ref is not None)
        self.x_offset(off, src.get("offset") is not None)
        prim = t["prim"]
        if ln == 1 and pres != "constant":
            dmin, dmax, dnull = default_min_max_null(prim)
            self.x("min_value", literal_bits(t["min"], prim) if t["min"] is not None else dmin, nt=t["min"] is not None)
            self.x("max_value", literal_bits(t["max"], prim) if t["max"] is not None else dmax, nt=t["max"] is not None)
            if pres == "optional":
                self.x("null_value", literal_bits(t["null"], prim) if t["null"] is not None else dnull, nt=t["null"] is not None)
            else:
                self.x("null_value", "absent")
        else:
            self.x("min_value", "absent")
            self.x("max_value", "absent")
            self.x("null_value", "absent")
        self.x("is:min_max_null_return_type", "1")
        self.same("is:primitive_type", "sbepp::type_traits<TAG>::primitive_type", CPP_PRIM[prim])
        if pres != "constant":
            is_array = ln != 1
            vt = "sbepp::type_traits<TAG>::value_type" + ("<char>" if is_array else "")
            public = ref is not None or deep is None
            own_tag = self.type_tag(t["name"]) if ref is not None else "TAG"
            self.same("rt:traits_tag", "sbepp::traits_tag_t< %s >" % vt, own_tag)
            if not is_array:
                self.same("is:value_type::value_type", "%s::value_type" % vt, CPP_PRIM[prim])
            if public:
                self.same("is:value_type", vt, self.pub_type(t["name"]) + ("<char>" if is_array else ""))
        elif prim == "char" and ln != 1:
            # traits_tag: "available for ... all schema types except numeric constants"; a string constant is a
            # constant array, whose value_type is documented as a plain (non-template) alias
            self.same("rt:traits_tag", "sbepp::traits_tag_t< sbepp::type_traits<TAG>::value_type >",
                      self.type_tag(t["name"]) if ref is not None else "TAG", nt=True)
        self.end()

    def do_enum(self, label, tag, e, ref=None, off="absent", deep=False):
        src = ref or e
        self.ent(label, "enum" if ref is None else "ref-enum", tag, force_nt=deep or ref is not None)
        self.stmt("td::dump_enum<TAG>();")
        self.x("kinds", "enum,")
        self.x("name", hexs(src["name"]))
        self.x_desc(e)
        self.x_since(src)
        self.x_deprecated(src, inherited_unknown=ref is not None)
        self.x_offset(off, src.get("offset") is not None)
        names = [v["name"] for v in e["values"]]
        self.x("value_tags", ",".join(names) or "-", nt=len(names) >= 2)
        prim = self.enc_prim(e)
        self.same("is:encoding_type", "sbepp::enum_traits<TAG>::encoding_type", CPP_PRIM[prim], nt=e["enc"] not in PRIMS)
        ttag = self.type_tag(e["name"]) if ref is not None else "TAG"
        self.same("rt:traits_tag", "sbepp::traits_tag_t< sbepp::enum_traits<TAG>::value_type >", ttag)
        self.same("is:value_type::underlying", "std::underlying_type< sbepp::enum_traits<TAG>::value_type >::type", CPP_PRIM[prim])
        if ref is not None or deep is None:
            self.same("is:value_type", "sbepp::enum_traits<TAG>::value_type", self.pub_type(e["name"]))
        self.same("is:value_tags", "sbepp::enum_traits<TAG>::value_tags",
                  "sbepp::type_list< %s >" % ", ".join("%s::%s" % (ttag, n) for n in names), nt=len(names) >= 2)
        self.end()
        if ref is not None:
            return
        size = PRIMS[prim][0]
        for v in e["values"]:
            self.ent("%s::%s" % (label, v["name"]), "enum_value", "%s::%s" % (tag, v["name"]), force_nt=bool(deep))
            self.stmt("td::dump_enum_value<TAG>();")
            self.x("kinds", "enum_value,")
            self.x("name", hexs(v["name"]))
            self.x_desc(v)
            self.x_since(v)
            self.x_deprecated(v)
            num = ord(v["value"]) if prim == "char" else parse_int_literal(v["value"])
            self.x("value", fmt_bits(num, size), nt=True)
            self.same("is:value_return_type", "decltype(sbepp::enum_value_traits<TAG>::value())", "sbepp::enum_traits< %s >::value_type" % tag)
            self.end()

    def do_set(self, label, tag, s, ref=None, off="absent", deep=False):
        src = ref or s
        self.ent(label, "set" if ref is None else "ref-set", tag, force_nt=deep or ref is not None)
        self.stmt("td::dump_set<TAG>();")
        self.x("kinds", "set,")
        self.x("name", hexs(src["name"]))
        self.x_desc(s)
        self.x_since(src)
        self.x_deprecated(src, inherited_unknown=ref is not None)
        self.x_offset(off, src.get("offset") is not None)
        names = [c["name"] for c in s["choices"]]
        self.x("choice_tags", ",".join(names) or "-", nt=len(names) >= 2)
        prim = self.enc_prim(s)
        self.same("is:encoding_type", "sbepp::set_traits<TAG>::encoding_type", CPP_PRIM[prim], nt=s["enc"] not in PRIMS)
        ttag = self.type_tag(s["name"]) if ref is not None else "TAG"
        self.same("rt:traits_tag", "sbepp::traits_tag_t< sbepp::set_traits<TAG>::value_type >", ttag)
        if ref is not None or deep is None:
            self.same("is:value_type", "sbepp::set_traits<TAG>::value_type", self.pub_type(s["name"]))
        self.same("is:choice_tags", "sbepp::set_traits<TAG>::choice_tags",
                  "sbepp::type_list< %s >" % ", ".join("%s::%s" % (ttag, n) for n in names), nt=len(names) >= 2)
        self.end()
        if ref is not None:
            return
        for c in s["choices"]:
            self.ent("%s::%s" % (label, c["name"]), "set_choice", "%s::%s" % (tag, c["name"]), force_nt=bool(deep))
            self.stmt("td::dump_set_choice<TAG>();")
            self.x("kinds", "set_choice,")
            self.x("name", hexs(c["name"]))
            self.x_desc(c)
            self.x_since(c)
            self.x_deprecated(c)
            self.x("index", str(c["index"]), nt=True)
            self.same("is:index_return_type", "decltype(sbepp::set_choice_traits<TAG>::index())", "sbepp::choice_index_t")
            self.end()

    def do_composite(self, label, tag, c, ref=None, off="absent", deep=False, depth=0):
        src = ref or c
        mc = self.M.composite(c)
        self.ent(label, "composite" if ref is None else "ref-composite", tag, force_nt=deep or ref is not None)
        self.stmt("td::dump_composite<TAG>();")
        self.x("kinds", "composite,")
        self.x("name", hexs(src["name"]))
        self.x_desc(c)
        self.x_semantic(c)
        self.x_since(src)
        self.x_deprecated(src, inherited_unknown=ref is not None)
        self.x_offset(off, src.get("offset") is not None)
        self.x("size_bytes", str(mc.size), nt=mc.size > 0)
        names = [el["name"] for el in c["elements"]]
        self.x("element_tags", ",".join(names) or "-", nt=len(names) >= 2)
        ttag = self.type_tag(c["name"]) if ref is not None else "TAG"
        self.same("rt:traits_tag", "sbepp::traits_tag_t< sbepp::composite_traits<TAG>::value_type<char> >", ttag)
        if ref is not None or deep is None:
            self.same("is:value_type", "sbepp::composite_traits<TAG>::value_type<char>", self.pub_type(c["name"]) + "<char>")
        self.same("is:element_tags", "sbepp::composite_traits<TAG>::element_tags",
                  "sbepp::type_list< %s >" % ", ".join("%s::%s" % (ttag, n) for n in names), nt=len(names) >= 2)
        self.end()
        if ref is not None:
            return
        for el, r in zip(c["elements"], mc.elements):
            clabel = "%s::%s" % (label, el["name"])
            ctag = "%s::%s" % (tag, el["name"])
            eoff = NOCLAIM if r.is_const else r.offset     # constants occupy no space: docs are silent about their offset
            cdeep = depth + 1 >= 2
            if el["kind"] == "ref":
                tgt = self.lookup(el["type"])
                fn = {"type": self.do_type, "enum": self.do_enum, "set": self.do_set, "composite": self.do_composite}[tgt["kind"]]
                fn(clabel, ctag, tgt, ref=el, off=eoff)
            elif el["kind"] == "type":
                self.do_type(clabel, ctag, el, off=eoff, deep=cdeep)
            elif el["kind"] == "enum":
                self.do_enum(clabel, ctag, el, off=eoff, deep=cdeep)
            elif el["kind"] == "set":
                self.do_set(clabel, ctag, el, off=eoff, deep=cdeep)
            else:
                self.do_composite(clabel, ctag, el, off=eoff, deep=cdeep, depth=depth + 1)

    def do_public(self, t):
        label = "types::%s" % t["name"]
        tag = self.type_tag(t["name"])
        off = t["offset"] if t.get("offset") is not None else "absent"
        fn = {"type": self.do_type, "enum": self.do_enum, "set": self.do_set, "composite": self.do_composite}[t["kind"]]
        fn(label, tag, t, off=off, deep=None)      # deep=None marks a public type

    # --------------------------------------------------------------- levels
    def actual_presence(self, f):
        """DESIGN A.1 / doc of field_traits::presence"""
        if f["type"] in PRIMS:
            return f["presence"]
        tgt = self.lookup(f["type"])
        k = tgt["kind"]
        if k == "type":
            return tgt["presence"]
        if k == "composite":
            return f["presence"]
        if k == "enum":
            return "required" if f["presence"] == "optional" else f["presence"]
        return "required"

    def do_field(self, label, tag, f, mf, deep):
        self.ent(label, "field", tag, force_nt=deep)
        self.stmt("td::dump_field<TAG>();")
        self.x("kinds", "field,")
        self.x("name", hexs(f["name"]))
        self.x("id", str(f["id"]), nt=True)
        self.x_desc(f)
        pres = self.actual_presence(f)
        self.x("presence", pres, nt=pres != "required" or f["presence"] != pres)
        if pres == "constant":
            self.x("offset", NOCLAIM)    # DESIGN A.5: offset asserted only for non-constant fields
        else:
            self.x_offset(mf.offset, f.get("offset") is not None)
        self.x_since(f)
        self.x_deprecated(f)
        if pres != "constant":
            ft = "sbepp::field_traits<TAG>"
            if f["type"] in PRIMS:
                b = "::sbepp::%s_%st" % (f["type"], "opt_" if f["presence"] == "optional" else "")
                self.same("is:value_type", ft + "::value_type", b, nt=f["presence"] == "optional")
                self.same("is:value_type_tag", ft + "::value_type_tag", b)
                self.builtin_traits(f["type"], f["presence"] == "optional", "sbepp::type_traits<typename " + ft + "::value_type_tag>")
            else:
                tgt = self.lookup(f["type"])
                templ = tgt["kind"] == "composite" or (tgt["kind"] == "type" and type_length(tgt) != 1)
                self.same("is:value_type", ft + "::value_type" + ("<char>" if templ else ""),
                          self.pub_type(tgt["name"]) + ("<char>" if templ else ""), nt=True)
                self.same("is:value_type_tag", ft + "::value_type_tag", self.type_tag(tgt["name"]), nt=True)
        self.end()

    def builtin_traits(self, prim, opt, tr):
        """traits of the built-in type a primitive-typed field names through value_type_tag: name, presence, length and the
        SBE default min/max/null of the primitive"""
        self.chk("vt:presence", "%s::presence() == sbepp::field_presence::%s" % (tr, "optional" if opt else "required"), nt=opt)
        self.chk("vt:name", "std::strcmp(%s::name(), %s) == 0" % (tr, cstr(prim)))
        self.chk("vt:length", "%s::length() == 1" % tr)
        self.chk("vt:since_version", "%s::since_version() == 0" % tr)
        self.same("vt:primitive_type", "typename %s::primitive_type" % tr, CPP_PRIM[prim])
        size, kind = PRIMS[prim]
        if kind == "f":
            if opt:
                self.chk("vt:null_is_nan", "%s::null_value() != %s::null_value()" % (tr, tr), nt=True)
            return
        if kind == "c":
            lo, hi, null = 0x20, 0x7e, 0
        elif kind == "u":
            lo, hi, null = 0, 2 ** (8 * size) - 2, 2 ** (8 * size) - 1
        else:
            lo, hi, null = -(2 ** (8 * size - 1)) + 1, 2 ** (8 * size - 1) - 1, -(2 ** (8 * size - 1))

        def lit(v):
            if kind == "u":
                return "%dULL" % v
            return "(-%dLL - 1)" % (-v - 1) if v < 0 else "%dLL" % v
        cast = "static_cast<long long>" if kind != "u" else "static_cast<unsigned long long>"
        self.chk("vt:min_value", "%s(%s::min_value()) == %s" % (cast, tr, lit(lo)))
        self.chk("vt:max_value", "%s(%s::max_value()) == %s" % (cast, tr, lit(hi)))
        if opt:
            self.chk("vt:null_value", "%s(%s::null_value()) == %s" % (cast, tr, lit(null)), nt=True)

    def do_data(self, label, tag, d, md, view, deep):
        self.ent(label, "data", tag, force_nt=deep)
        self.stmt("td::dump_data<TAG>();")
        self.x("kinds", "data,")
        self.x("name", hexs(d["name"]))
        self.x("id", str(d["id"]), nt=True)
        self.x_desc(d)
        self.x_since(d)
        self.x_deprecated(d)
        self.x("size_bytes_0", str(md.header_size), nt=True)
        self.x("size_bytes_5", str(md.header_size + 5), nt=True)
        enc = self.lookup(d["type"])
        ln = [el for el in enc["elements"] if el["name"] == "length"][0]
        dt = "sbepp::data_traits<TAG>"
        if ln["kind"] == "ref":
            ltag = self.type_tag(self.lookup(ln["type"])["name"])
            lprim = self.lookup(ln["type"])["prim"]
            # which of the two tags (the <ref> member or its target) length_type_tag names is not documented
        else:
            ltag = "%s::length" % self.type_tag(enc["name"])
            lprim = ln["prim"]
            self.same("is:length_type_tag", dt + "::length_type_tag", ltag)
        self.same("rt:length_type", "sbepp::traits_tag_t< %s::length_type >" % dt, ltag)
        self.same("is:length_type::value_type", dt + "::length_type::value_type", CPP_PRIM[lprim], nt=True)
        self.same("is:value_type", dt + "::value_type<char>", "decltype(std::declval< %s >().%s())" % (view, d["name"]))
        self.end()

    def do_level(self, label, tag, lv, L, view, depth):
        """lv: message/group dict, L: model.Level, view: C++ type of the view holding the members' accessors"""
        is_msg = depth == 0
        deep = depth >= 2
        kind = "message" if is_msg else "group"
        self.ent(label, kind, tag, force_nt=deep)
        self.stmt("td::dump_%s<TAG>();" % kind)
        self.x("kinds", kind + ",")
        self.x("name", hexs(lv["name"]))
        self.x_desc(lv)
        self.x("id", str(lv["id"]), nt=True)
        self.x("block_length", str(L.block_length), nt=lv.get("block_length") is not None or L.block_length > 0)
        self.x_semantic(lv)
        self.x_since(lv)
        self.x_deprecated(lv)
        tr = "sbepp::%s_traits<TAG>" % kind
        for attr, key in (("field_tags", "fields"), ("group_tags", "groups"), ("data_tags", "data")):
            names = [m["name"] for m in lv[key]]
            self.x(attr, ",".join(names) or "-", nt=len(names) >= 2)
            self.same("is:" + attr, "%s::%s" % (tr, attr), "sbepp::type_list< %s >" % ", ".join("TAG::%s" % n for n in names), nt=len(names) >= 2)
        self.same("rt:traits_tag", "sbepp::traits_tag_t< %s::value_type<char> >" % tr, "TAG")
        if is_msg:
            self.same("is:value_type", tr + "::value_type<char>", "::%s::messages::%s<char>" % (self.pkg, lv["name"]))
            self.same("is:schema_tag", tr + "::schema_tag", self.stag)
            inner = tr + "::value_type<char>"
        else:
            dim = self.lookup(lv["dimension_type"])
            self.same("rt:entry_traits_tag", "sbepp::traits_tag_t< %s::entry_type<char> >" % tr, "TAG")
            self.same("is:dimension_type", tr + "::dimension_type<char>", self.pub_type(dim["name"]) + "<char>", nt=True)
            self.same("is:dimension_type_tag", tr + "::dimension_type_tag", self.type_tag(dim["name"]), nt=True)
            self.same("is:value_type", tr + "::value_type<char>", "decltype(std::declval< %s >().%s())" % (view, lv["name"]))
            inner = tr + "::entry_type<char>"
        self.end()
        inner = inner.replace("<TAG>", "< %s >" % tag)
        for f, mf in zip(lv["fields"], L.fields):
            self.do_field("%s::%s" % (label, f["name"]), "%s::%s" % (tag, f["name"]), f, mf, deep)
        for g, mg in zip(lv["groups"], L.groups):
            self.do_level("%s::%s" % (label, g["name"]), "%s::%s" % (tag, g["name"]), g, mg, inner, depth + 1)
        for d, md in zip(lv["data"], L.data):
            self.do_data("%s::%s" % (label, d["name"]), "%s::%s" % (tag, d["name"]), d, md, inner, deep)

    # --------------------------------------------------------------- schema
    def do_schema(self):
        sch = self.sch
        self.ent("schema", "schema", self.stag)
        self.stmt("td::dump_schema<TAG>();")
        self.x("kinds", "schema,")
        self.x("package", hexs(sch["package"]))
        self.x("id", str(sch["id"]), nt=True)
        self.x("version", str(sch["version"]), nt=sch["version"] != 0)
        self.x("semantic_version", hexs(sch.get("semantic_version")), nt=bool(sch.get("semantic_version")))
        bo = "big" if sch.get("byte_order") == "bigEndian" else "little"
        self.x("byte_order", bo, nt=bo == "big")
        self.x_desc(sch)
        tnames = sorted(t["name"] for t in sch["types"])
        self.x("type_tags", ",".join(tnames) or "-", nt=len(tnames) >= 2)
        self.x("type_tags_size", str(len(tnames)))
        mnames = [m["name"] for m in sch["messages"]]
        self.x("message_tags", ",".join(mnames) or "-", nt=len(mnames) >= 2)
        tr = "sbepp::schema_traits<TAG>"
        hdr = self.lookup(sch.get("header_type") or "messageHeader")
        self.same("is:header_type_tag", tr + "::header_type_tag", self.type_tag(hdr["name"]), nt=True)
        self.same("is:header_type", tr + "::header_type<char>", self.pub_type(hdr["name"]) + "<char>", nt=True)
        self.same("is:message_tags", tr + "::message_tags",
                  "sbepp::type_list< %s >" % ", ".join("%s::messages::%s" % (self.stag, n) for n in mnames), nt=len(mnames) >= 2)
        for t in sch["types"]:
            self.chk("has:type_tags:%s" % t["name"],
                     "td::list_ops< %s::type_tags >::contains< %s >::value" % (tr, self.type_tag(t["name"])))
        self.end()

    # ----------------------------------------------------------------- walk
    def walk_expected(self):
        out = {}

        def put(path, kind):
            key = ("W:" + path, "kind")
            assert key not in out, key
            out[key] = kind

        def enc(path, t):
            k = t["kind"]
            put(path, k)
            if k == "enum":
                for v in t["values"]:
                    put(path + "/" + v["name"], "enum_value")
            elif k == "set":
                for c in t["choices"]:
                    put(path + "/" + c["name"], "set_choice")
            elif k == "composite":
                for el in t["elements"]:
                    tgt = self.lookup(el["type"]) if el["kind"] == "ref" else el
                    enc(path + "/" + el["name"], tgt)

        def level(path, lv, kind):
            put(path, kind)
            for f in lv["fields"]:
                put(path + "/" + f["name"], "field")
            for g in lv["groups"]:
                level(path + "/" + g["name"], g, "group")
            for d in lv["data"]:
                put(path + "/" + d["name"], "data")

        put("schema", "schema")
        for t in self.sch["types"]:
            enc("types/" + t["name"], t)
        for m in self.sch["messages"]:
            level("messages/" + m["name"], m, "message")
        return out

    # ---------------------------------------------------------------- build
    def _build(self):
        self.do_schema()
        for t in self.sch["types"]:
            self.do_public(t)
        for m, L in zip(self.sch["messages"], self.M.messages):
            self.do_level("messages::%s" % m["name"], "%s::messages::%s" % (self.stag, m["name"]), m, L, None, 0)
        w = self.walk_expected()
        for key, v in w.items():
            self.expected[key] = v
            self.kind_of[key[0]] = "walk"
            # reached through >= 2 list hops below a public type / message: nested elements, group members
            if key[0].count("/") >= 2:
                self.nontrivial.add(key)

    def program(self):
        s = ["// generated by vlib/traitsgen.py (C18): trait dump through documented tag paths only",
             "#include <%s/%s.hpp>" % (self.pkg, self.pkg), PRELUDE]
        s += self.funcs
        s.append("int main()\n{")
        for i in range(len(self.funcs)):
            s.append("    e%d();" % i)
        s.append("    td::walker< %s, td::kind_id< %s >::value >::go(\"\");" % (self.stag, self.stag))
        s.append("    std::printf(\"END\\n\");\n    return 0;\n}")
        return "\n".join(s) + "\n"

# --------------------------------------------------------------------------
# hand-written schemas: documented constructs the pool generator never emits

def hand_schemas():
    def T(name, prim, **kw):
        d = {"kind": "type", "name": name, "prim": prim, "length": None, "presence": "required", "min": None, "max": None, "null": None,
             "const": None, "value_ref": None, "char_enc": None, "offset": None, "description": None, "since": None, "deprecated": None,
             "semantic_type": None}
        d.update(kw)
        return d

    def C(name, els, **kw):
        d = {"kind": "composite", "name": name, "elements": els, "offset": None, "description": None, "since": None, "deprecated": None,
             "semantic_type": None}
        d.update(kw)
        return d

    def R(name, type_, **kw):
        d = {"kind": "ref", "name": name, "type": type_, "offset": None, "description": None, "since": None, "deprecated": None}
        d.update(kw)
        return d

    def V(name, value, **kw):
        d = {"name": name, "value": value, "description": None, "since": None, "deprecated": None}
        d.update(kw)
        return d

    def F(name, id_, type_, **kw):
        d = {"name": name, "id": id_, "type": type_, "offset": None, "presence": "required", "value_ref": None, "description": None,
             "since": None, "deprecated": None}
        d.update(kw)
        return d

    # public type with an explicit offset; enum/set encoded via a public type named in another case; <type> constants with
    # valueRef (numeric and char); optional array; headerType / dimensionType / data type / ref targets in another case;
    # numInGroup and data length declared through <ref>; nesting depth 3 with explicit offsets and leading-zero literals
    en = {"kind": "enum", "name": "En", "enc": "U8T", "prim": "uint8", "offset": None, "description": "enum d", "since": 2, "deprecated": None,
          "values": [V("A", "1"), V("B", "007", description="b", since=1, deprecated=3)]}
    ec = {"kind": "enum", "name": "Ec", "enc": "char", "prim": "char", "offset": None, "description": None, "since": None, "deprecated": None,
          "values": [V("X", "x")]}
    st = {"kind": "set", "name": "St", "enc": "u16t", "prim": "uint16", "offset": 7, "description": None, "since": None, "deprecated": 3,
          "choices": [{"name": "c0", "index": 0, "description": None, "since": None, "deprecated": None},
                      {"name": "c15", "index": 15, "description": "last", "since": 3, "deprecated": None}]}
    lvl = {"description": None, "since": None, "deprecated": None, "semantic_type": None, "block_length": None, "min_block_length": 0}
    sch = {"package": "pk", "id": 9, "version": 9, "semantic_version": "1.2", "description": "hand", "byte_order": "bigEndian", "header_type": "HDR",
           "types": [
               T("u8t", "uint8", offset=5, deprecated=2),
               T("u16t", "uint16"),
               en, ec, st,
               T("kref", "uint8", presence="constant", value_ref="En.B"),
               T("kcref", "char", presence="constant", value_ref="Ec.X"),
               T("ks", "char", presence="constant", const="ab?c", length=6, char_enc="UTF-8"),
               T("arr", "char", length=6, presence="optional", char_enc="ASCII", since=3),
               C("hdr", [T("blockLength", "uint16"), T("templateId", "uint16"), T("schemaId", "uint16"), T("version", "uint16")]),
               C("Dim", [R("numInGroup", "u8t"), T("blockLength", "uint16")], offset=4),
               C("VD", [R("length", "U16T"), T("varData", "uint8", length=0)]),
               C("cc", [R("a", "u8t", since=7, deprecated=8), R("k", "kref"), R("ks_r", "KS", since=2),
                        C("in1", [C("in2", [T("deep", "int64", min="-009", max="0012", presence="optional", null="-1")], since=1),
                                  R("e", "EN", offset=20)], offset=2),
                        R("s", "st"), R("arr", "ARR")]),
           ],
           "messages": [dict(lvl, name="M", id=1,
                             fields=[F("f1", 1, "U8T", presence="optional"), F("f2", 2, "cc", presence="optional"), F("f3", 3, "ARR")],
                             groups=[dict(lvl, name="g", id=3, dimension_type="DIM", fields=[], groups=[],
                                          data=[{"name": "d", "id": 4, "type": "vd", "description": None, "since": None, "deprecated": None}])],
                             data=[])]}
    return [("constructs", sch)]


# --------------------------------------------------------------------------
# comparison

def parse_dump(text):
    """-> ({(label, trait): value}, problems)"""
    got = {}
    problems = []
    lines = text.split("\n")
    if not lines or lines[-1] != "" or len(lines) < 2 or lines[-2] != "END":
        problems.append("output does not end with END")
    for ln in lines:
        if ln in ("", "END"):
            continue
        parts = ln.split("\t")
        if len(parts) != 3:
            problems.append("malformed line %r" % ln[:200])
            continue
        key = (parts[0], parts[1])
        if key in got:
            problems.append("duplicate line %r" % (key,))
        got[key] = parts[2]
    return got, problems


def trait_class(trait):
    """stable trait name for signatures (has:type_tags:<name> -> type_tags)"""
    if trait.startswith("has:type_tags:"):
        return "type_tags"
    for p in ("is:", "rt:"):
        if trait.startswith(p):
            return trait[len(p):]
    return trait


def compare(gen, got):
    """-> (n_compared, mismatches[(label, kind, trait, expected, actual)])"""
    mism = []
    n = 0
    for key, exp in gen.expected.items():
        if exp is NOCLAIM:
            continue
        n += 1
        act = got.get(key)
        if act != exp:
            mism.append((key[0], gen.kind_of[key[0]], key[1], exp, "<missing line>" if act is None else act))
    for key, act in got.items():
        if key not in gen.expected:
            n += 1
            lbl = key[0]
            mism.append((lbl, "walk" if lbl.startswith("W:") else gen.kind_of.get(lbl, "unknown"), key[1], "<no such line expected>", act))
    return n, mism
