"""C11 — generator of mutator / conversion probes and of the read-only extra driver.

For a schema model this module enumerates *probes*: C++ expressions that would
modify the buffer (or convert a view/cursor towards a less-const byte type),
written only with schema names, documented paths and traits.  Every probe is an
expression over two byte types

    VB  byte type of the root view      CB  byte type of the cursor

and has a list of *reject variants* (vconst, cconst) under which the expression
must not compile, while under (0, 0) (everything mutable) it must compile
(positive control).  The same expression text is used in three translation units:

* probes.cpp   `#if PROBE == k` sections, VB/CB are typedefs selected by
               -DVCONST/-DCCONST; one expected-failure compile per (probe, variant);
* control.cpp  all probes under (0,0) plus, as function templates explicitly
               instantiated for each reject variant, the *prefix* of every probe
               (the access path and the argument values without the mutating call)
               which must compile: a probe that is rejected for an unrelated reason
               cannot pass;
* sfinae.cpp   a detection idiom per probe, instantiated for all four variants,
               printing the booleans (no static_assert; Python compares).
"""
from vlib.drivergen import CPP_PRIM

NS = "c11pr"
AL = "c11al"

# kinds whose declaration is unconstrained in the unmodified library: the call is rejected
# inside the function body, so a detection idiom sees it as callable (DESIGN C11 "known trap")
BODY_REJECTED_KINDS = ("group.resize", "group.clear")

WRAPPERS = ("init", "dont_move", "init_dont_move")


class Probe:
    __slots__ = ("k", "kind", "site", "expr", "prefix", "prefix10", "reject", "core", "flavour", "obj")

    def __init__(self, **kw):
        for s in self.__slots__:
            setattr(self, s, kw.get(s))

    @property
    def mask(self):
        m = 1
        for v, c in self.reject:
            m |= 1 << (v * 2 + c)
        return m

    def describe(self):
        return {"k": self.k, "kind": self.kind, "site": self.site, "expr": self.expr, "reject_variants": ["V%dC%d" % vc for vc in self.reject]}


class Ctx:
    """an expression denoting a view"""
    __slots__ = ("expr", "byte", "cur", "site", "flav")

    def __init__(self, expr, byte, cur, site, flav):
        self.expr, self.byte, self.cur, self.site, self.flav = expr, byte, cur, site, flav

    def child(self, expr, name, byte=None, cur=None):
        return Ctx(expr, byte or self.byte, self.cur if cur is None else cur, self.site + "." + name, self.flav)


def lv(t):
    return "%s::lv<%s >()" % (NS, t)


def mk(t):
    return "%s::mk<%s >()" % (NS, t)


def val_of(getter):
    return "%s::mk<decltype(%s)>()" % (NS, getter)


CUR = lv("sbepp::cursor<CB>")


class ProbeGen:
    def __init__(self, model):
        self.m = model
        self.pkg = model.sch.get("schema_name") or model.sch["package"]
        self.probes = []
        self.aliases = []      # (alias name, C++ template-id without <B>)
        self._alias_ix = {}
        self._rot = 0
        self._seen_types = {}
        self.generate()

    # ------------------------------------------------------------ plumbing
    def add(self, kind, ctx, expr, prefix_parts, cursor_arg=False, core=True, reject=None, prefix10_parts=None, site=None, obj=None):
        if reject is None:
            if ctx.cur:
                reject = [(0, 1), (1, 1)]
            elif cursor_arg:
                reject = [(0, 1), (1, 0), (1, 1)]
            else:
                reject = [(1, 0)]
        prefix = "%s::sink(%s)" % (NS, ", ".join(prefix_parts))
        p10 = "%s::sink(%s)" % (NS, ", ".join(prefix10_parts)) if prefix10_parts is not None else prefix
        p = Probe(k=len(self.probes), kind=kind, site=(site or ctx.site) + " [" + ctx.flav + "]", expr=expr, prefix=prefix, prefix10=p10,
                  reject=list(reject), core=core, flavour=ctx.flav, obj=obj)
        self.probes.append(p)
        return p

    def rot(self):
        self._rot += 1
        return self._rot

    def alias(self, tid):
        if tid not in self._alias_ix:
            self._alias_ix[tid] = "T%d" % len(self.aliases)
            self.aliases.append((self._alias_ix[tid], tid))
        return "%s::%s" % (AL, self._alias_ix[tid])

    def level_tag(self, L):
        return "%s::schema::messages::%s" % (self.pkg, "::".join(L.path))

    def member_tag(self, m, parent_tag):
        if m.public_name:
            return "%s::schema::types::%s" % (self.pkg, m.public_name)
        return "%s::%s" % (parent_tag, m.name)

    # ------------------------------------------------------- leaf mutators
    def static_array(self, A, m, tag, full=True, kind_prefix="array", raw_byte=None):
        """mutators of a fixed-size array view A (Ctx). `full` False -> a rotating subset is core, the rest extended"""
        ET = CPP_PRIM[m.prim]
        a = A.expr
        x = "%s()" % ET
        cp = mk("const %s*" % ET)
        B0 = raw_byte or "%s::unconst_t<%s>" % (NS, A.byte)
        items = [
            ("assign_string.cstr", "%s.assign_string(%s)" % (a, mk("const char*")), [a]),
            ("assign_string.cstr-eos", "%s.assign_string(%s, sbepp::eos_null::single)" % (a, mk("const char*")), [a]),
            ("assign_string.range", "%s.assign_string(%s)" % (a, lv("std::string")), [a]),
            ("assign_string.range-eos", "%s.assign_string(%s, sbepp::eos_null::none)" % (a, lv("const std::string")), [a]),
            ("assign_range", "%s.assign_range(%s)" % (a, lv("std::vector<%s>" % ET)), [a]),
            ("assign.count-value", "%s.assign(std::size_t(1), %s)" % (a, x), [a]),
            ("assign.iterators", "%s.assign(%s, %s)" % (a, cp, cp), [a]),
            ("assign.ilist", "%s.assign({%s, %s})" % (a, x, x), [a]),
            ("fill", "%s.fill(%s)" % (a, x), [a]),
            ("index-write", "%s[0] = %s" % (a, x), ["%s[0]" % a]),
            ("begin-write", "*%s.begin() = %s" % (a, x), ["%s.begin()" % a]),
            ("end-write", "*(%s.end() - 1) = %s" % (a, x), ["%s.end()" % a]),
            ("data-write", "*%s.data() = %s" % (a, x), ["%s.data()" % a]),
            ("data-as-void*", "%s::takes_voidp(%s.data())" % (NS, a), ["%s.data()" % a]),
            ("front-write", "%s.front() = %s" % (a, x), ["%s.front()" % a]),
            ("back-write", "%s.back() = %s" % (a, x), ["%s.back()" % a]),
            ("rbegin-write", "*%s.rbegin() = %s" % (a, x), ["%s.rbegin()" % a]),
            ("raw.index-write", "%s.raw()[0] = %s()" % (a, B0), ["%s.raw()[0]" % a]),
            ("raw.fill", "%s.raw().fill(%s())" % (a, B0), ["%s.raw()" % a]),
        ]
        self._emit_list(kind_prefix, A, items, full)

    def dynamic_array(self, D, d, full=True):
        ET = CPP_PRIM[d.elem_prim]
        a = D.expr
        x = "%s()" % ET
        cp = mk("const %s*" % ET)
        B0 = "%s::unconst_t<%s>" % (NS, D.byte)
        items = [
            ("push_back", "%s.push_back(%s)" % (a, x), [a]),
            ("pop_back", "%s.pop_back()" % a, [a]),
            ("insert.value", "%s.insert(%s.begin(), %s)" % (a, a, x), ["%s.begin()" % a]),
            ("insert.count-value", "%s.insert(%s.begin(), 2, %s)" % (a, a, x), ["%s.begin()" % a]),
            ("insert.iterators", "%s.insert(%s.begin(), %s, %s)" % (a, a, cp, cp), ["%s.begin()" % a]),
            ("insert.ilist", "%s.insert(%s.end(), {%s, %s})" % (a, a, x, x), ["%s.end()" % a]),
            ("erase.pos", "%s.erase(%s.begin())" % (a, a), ["%s.begin()" % a]),
            ("erase.range", "%s.erase(%s.begin(), %s.end())" % (a, a, a), ["%s.begin()" % a, "%s.end()" % a]),
            ("resize.count", "%s.resize(1)" % a, [a]),
            ("resize.count-value", "%s.resize(1, %s)" % (a, x), [a]),
            ("resize.default_init", "%s.resize(1, sbepp::default_init)" % a, [a]),
            ("assign.count-value", "%s.assign(2, %s)" % (a, x), [a]),
            ("assign.iterators", "%s.assign(%s, %s)" % (a, cp, cp), [a]),
            ("assign.ilist", "%s.assign({%s, %s})" % (a, x, x), [a]),
            ("assign_string", "%s.assign_string(%s)" % (a, mk("const char*")), [a]),
            ("assign_range", "%s.assign_range(%s)" % (a, lv("std::vector<%s>" % ET)), [a]),
            ("clear", "%s.clear()" % a, [a]),
            ("index-write", "%s[0] = %s" % (a, x), ["%s[0]" % a]),
            ("begin-write", "*%s.begin() = %s" % (a, x), ["%s.begin()" % a]),
            ("end-write", "*(%s.end() - 1) = %s" % (a, x), ["%s.end()" % a]),
            ("data-write", "*%s.data() = %s" % (a, x), ["%s.data()" % a]),
            ("data-as-void*", "%s::takes_voidp(%s.data())" % (NS, a), ["%s.data()" % a]),
            ("front-write", "%s.front() = %s" % (a, x), ["%s.front()" % a]),
            ("back-write", "%s.back() = %s" % (a, x), ["%s.back()" % a]),
            ("rbegin-write", "*%s.rbegin() = %s" % (a, x), ["%s.rbegin()" % a]),
            ("raw.index-write", "%s.raw()[0] = %s()" % (a, B0), ["%s.raw()[0]" % a]),
            ("raw.push_back", "%s.raw().push_back(%s())" % (a, B0), ["%s.raw()" % a]),
        ]
        self._emit_list("data", D, items, full)

    def _emit_list(self, kind_prefix, ctx, items, full):
        if full:
            for name, expr, pre in items:
                self.add("%s.%s" % (kind_prefix, name), ctx, expr, pre, core=True)
        else:
            start = self.rot() * 3
            core_ix = {(start + j) % len(items) for j in range(2)}
            for i, (name, expr, pre) in enumerate(items):
                self.add("%s.%s" % (kind_prefix, name), ctx, expr, pre, core=(i in core_ix))

    def array_site(self, A, m, tag):
        """full list the first time an array type is met in a flavour, a subset afterwards"""
        # the full list is "core" (individually compiled in the thorough tier) once per array type, through the
        # random-access path; every other site / path gets a rotating pair as core (all of them are always in the
        # detection-idiom and batched layers)
        key = ("a", tag)
        full = key not in self._seen_types and A.flav == "ra"
        if full:
            self._seen_types[key] = True
        self.static_array(A, m, tag, full=full)

    def data_site(self, D, d):
        key = ("d", d.elem_prim, d.length_prim, d.decl.get("type"))
        full = key not in self._seen_types and D.flav == "ra"
        if full:
            self._seen_types[key] = True
        self.dynamic_array(D, d, full=full)

    def const_array(self, owner, m):
        """string constants are static_array_ref<const char,...>; the mutable control rebinds the byte type"""
        acc = "%s::unconst_if<%s>(%s.%s())" % (NS, owner.byte, owner.expr, m.name)
        A = owner.child(acc, m.name + "(const)")
        key = ("k", m.name, len(m.const_value[1]), owner.flav)
        full = key not in self._seen_types
        self._seen_types[key] = True
        self.static_array(A, m, None, full=full, kind_prefix="constarray", raw_byte="char")

    # ---------------------------------------------------------- composites
    def composite_members(self, C, comp, ctag, depth=0):
        """setters of a composite view C (Ctx) with tag ctag; flavour decides accessor style"""
        tagstyle = C.flav == "tag"
        for e in comp.elements:
            etag = "%s::%s" % (ctag, e.name)
            getter = "sbepp::get_by_tag<%s>(%s)" % (etag, C.expr) if tagstyle else "%s.%s()" % (C.expr, e.name)
            if e.kind in ("scalar", "enum", "set"):
                v = val_of(getter)
                if tagstyle:
                    self.add("composite.set.bytag", C, "sbepp::set_by_tag<%s>(%s, %s)" % (etag, C.expr, v), [C.expr, v], site=C.site + "." + e.name)
                else:
                    self.add("composite.set.plain", C, "%s.%s(%s)" % (C.expr, e.name, v), [C.expr, v], site=C.site + "." + e.name)
            elif e.kind == "array":
                self.array_site(C.child(getter, e.name), e, self.member_tag(e, ctag))
            elif e.kind == "composite":
                self.composite_members(C.child(getter, e.name), e, self.member_tag(e, ctag), depth + 1)
            elif e.kind == "const" and e.const_value[0] == "str" and not tagstyle:
                self.const_array(C, e)

    # --------------------------------------------------------------- levels
    def field_setters(self, Lc, L, ltag):
        """all setter forms of the value-semantics fields of level view Lc"""
        for m in L.fields:
            if m.kind not in ("scalar", "enum", "set"):
                continue
            ftag = "%s::%s" % (ltag, m.name)
            e = Lc.expr
            site = Lc.site + "." + m.name
            if Lc.flav == "tag":
                v = val_of("sbepp::get_by_tag<%s>(%s)" % (ftag, e))
                self.add("field.set.bytag", Lc, "sbepp::set_by_tag<%s>(%s, %s)" % (ftag, e, v), [e, v], site=site)
                self.add("field.set.cursor-bytag", Lc, "sbepp::set_by_tag<%s>(%s, %s, %s)" % (ftag, e, v, CUR), [e, v, CUR], cursor_arg=True, site=site)
            else:
                v = val_of("%s.%s()" % (e, m.name))
                self.add("field.set.plain", Lc, "%s.%s(%s)" % (e, m.name, v), [e, v], site=site)
                self.add("field.set.cursor", Lc, "%s.%s(%s, %s)" % (e, m.name, v, CUR), [e, v, CUR], cursor_arg=True, site=site)
                w = WRAPPERS[self.rot() % 3]
                for ww in WRAPPERS:
                    self.add("field.set.cursor-wrapper." + ww, Lc, "%s.%s(%s, sbepp::cursor_ops::%s(%s))" % (e, m.name, v, ww, CUR),
                             [e, v, "sbepp::cursor_ops::%s(%s)" % (ww, CUR)], cursor_arg=True, site=site, core=(ww == w))

    def getter(self, Lc, ltag, name, wrapper=None):
        """(expression, byte, cur) of member `name` of level view Lc in Lc's flavour"""
        if Lc.flav == "ra":
            return "%s.%s()" % (Lc.expr, name), Lc.byte, Lc.cur
        if Lc.flav == "tag":
            return "sbepp::get_by_tag<%s::%s>(%s)" % (ltag, name, Lc.expr), Lc.byte, Lc.cur
        c = CUR if wrapper is None else "sbepp::cursor_ops::%s(%s)" % (wrapper, CUR)
        if wrapper is None and self.rot() % 4 == 0:
            return "sbepp::get_by_tag<%s::%s>(%s, %s)" % (ltag, name, Lc.expr, c), "CB", True
        return "%s.%s(%s)" % (Lc.expr, name, c), "CB", True

    def incompatible_cursor_getters(self, Lc, L, ltag):
        """a mutable cursor on a const view: every cursor getter would hand out a view typed by the cursor's byte type"""
        names = [m.name for m in L.fields if not m.is_const] + [g.name for g in L.groups] + [d.name for d in L.data]
        for n in names:
            self.add("cursor-getter.mutable-cursor-on-const-view", Lc, "%s.%s(%s)" % (Lc.expr, n, CUR), [Lc.expr, CUR], reject=[(1, 0)],
                     prefix10_parts=[Lc.expr, CUR], site=Lc.site + "." + n)
            self.add("cursor-getter.mutable-cursor-on-const-view.bytag", Lc, "sbepp::get_by_tag<%s::%s>(%s, %s)" % (ltag, n, Lc.expr, CUR),
                     [Lc.expr, CUR], reject=[(1, 0)], prefix10_parts=[Lc.expr, CUR], site=Lc.site + "." + n, core=(self.rot() % 2 == 0))

    def header_setters(self, H, comp, kind):
        tag = "%s::schema::types::%s" % (self.pkg, comp.public_name)
        for e in comp.elements:
            if e.kind in ("scalar", "enum", "set"):
                v = val_of("%s.%s()" % (H.expr, e.name))
                self.add(kind + ".set", H, "%s.%s(%s)" % (H.expr, e.name, v), [H.expr, v], site=H.site + "." + e.name)
                self.add(kind + ".set.bytag", H, "sbepp::set_by_tag<%s::%s>(%s, %s)" % (tag, e.name, H.expr, v), [H.expr, v], site=H.site + "." + e.name,
                         core=e.name in ("blockLength", "numInGroup") and H.flav == "ra")
            elif e.kind == "composite":
                self.composite_members(H.child("%s.%s()" % (H.expr, e.name), e.name), e, self.member_tag(e, tag))
            elif e.kind == "array":
                self.array_site(H.child("%s.%s()" % (H.expr, e.name), e.name), e, self.member_tag(e, tag))

    def group_ops(self, G, g):
        e = G.expr
        self.add("group.resize", G, "%s.resize(1)" % e, [e], obj=e)
        self.add("group.clear", G, "%s.clear()" % e, [e], obj=e)
        n = val_of("sbepp::get_header(%s).numInGroup()" % e)
        self.add("group.fill_group_header", G, "sbepp::fill_group_header(%s, %s)" % (e, n), [e, n])
        self.add("group.fill_group_header.int", G, "sbepp::fill_group_header(%s, 1)" % e, [e], core=False)
        self.header_setters(G.child("sbepp::get_header(%s)" % e, "get_header"), g.dimension, "group.header")

    def entry_canary(self, E, g, ltag):
        """one representative mutation through entry view E, or None"""
        for m in g.fields:
            if m.kind in ("scalar", "enum", "set"):
                v = val_of("%s.%s()" % (E.expr, m.name))
                return "%s.%s(%s)" % (E.expr, m.name, v), [E.expr, v], m.name
        for m in g.fields:
            if m.kind == "array":
                return "%s.%s().fill(%s())" % (E.expr, m.name, CPP_PRIM[m.prim]), ["%s.%s()" % (E.expr, m.name)], m.name
            if m.kind == "composite":
                for el in m.elements:
                    if el.kind in ("scalar", "enum", "set"):
                        c = "%s.%s()" % (E.expr, m.name)
                        v = val_of("%s.%s()" % (c, el.name))
                        return "%s.%s(%s)" % (c, el.name, v), [c, v], m.name + "." + el.name
        for sg in g.groups:
            return "sbepp::fill_group_header(%s.%s(), 1)" % (E.expr, sg.name), ["%s.%s()" % (E.expr, sg.name)], sg.name
        for d in g.data:
            return "%s.%s().clear()" % (E.expr, d.name), ["%s.%s()" % (E.expr, d.name)], d.name
        return None

    def entry_forms(self, G, g, gtag):
        """every way to obtain an entry from group view G, each with one representative mutation"""
        e = G.expr
        flat = not g.groups and not g.data
        forms = [("front", "%s.front()" % e, False), ("deref-begin", "(*%s.begin())" % e, False)]
        if flat:
            forms += [("index", "%s[0]" % e, False), ("back", "%s.back()" % e, False), ("iterator-index", "%s.begin()[0]" % e, False),
                      ("deref-end-minus-1", "(*(%s.end() - 1))" % e, False)]
        forms += [("cursor_range", "(*%s.cursor_range(%s).begin())" % (e, CUR), "%s.cursor_range(%s).begin()" % (e, CUR)),
                  ("cursor_subrange", "(*%s.cursor_subrange(%s, 0).begin())" % (e, CUR), "%s.cursor_subrange(%s, 0).begin()" % (e, CUR)),
                  ("cursor_subrange-count", "(*%s.cursor_subrange(%s, 0, 1).begin())" % (e, CUR), "%s.cursor_subrange(%s, 0, 1).begin()" % (e, CUR)),
                  ("cursor_begin", "(*%s.cursor_begin(%s))" % (e, CUR), "%s.cursor_begin(%s)" % (e, CUR))]
        for name, ex, rng in forms:
            E = G.child(ex, name)
            can = self.entry_canary(E, g, gtag)
            if can is None:
                continue
            expr, pre, what = can
            if rng and not G.cur:
                # group view typed VB, cursor typed CB: entries would be built from the cursor's pointer; with a const
                # cursor on a mutable group the range object exists but dereferencing its iterator is rejected
                self.add("entry-via." + name + ".mixed", G, expr, [rng], reject=[(0, 1), (1, 0), (1, 1)], prefix10_parts=[e, CUR],
                         site=G.site + "." + name + "." + what, obj=rng)
            else:
                core = not (G.cur and not rng) and name not in ("cursor_subrange-count",)
                self.add("entry-via." + name, G, expr, pre, site=G.site + "." + name + "." + what, core=core)
        # arrow form
        for m in g.fields:
            if m.kind in ("scalar", "enum", "set"):
                v = val_of("%s.front().%s()" % (e, m.name))
                self.add("entry-via.arrow", G, "%s.begin()->%s(%s)" % (e, m.name, v), ["%s.begin()" % e, v], site=G.site + ".begin()->" + m.name)
                break

    def walk_level(self, Lc, L, root):
        ltag = self.level_tag(L)
        flav = Lc.flav
        # setters on this level's own fields
        if not (flav == "cur" and root):
            self.field_setters(Lc, L, ltag)
        if flav == "ra":
            self.incompatible_cursor_getters(Lc, L, ltag)
        for m in L.fields:
            if m.kind == "composite":
                ex, byte, cur = self.getter(Lc, ltag, m.name)
                self.composite_members(Lc.child(ex, m.name, byte, cur), m, self.member_tag(m, ltag))
            elif m.kind == "array":
                ex, byte, cur = self.getter(Lc, ltag, m.name)
                self.array_site(Lc.child(ex, m.name, byte, cur), m, self.member_tag(m, ltag))
            elif m.kind == "const" and m.const_value[0] == "str" and flav == "ra":
                self.const_array(Lc, m)
        for g in L.groups:
            ex, byte, cur = self.getter(Lc, ltag, g.name)
            G = Lc.child(ex, g.name, byte, cur)
            self.group_ops(G, g)
            if flav in ("ra", "cur"):
                self.entry_forms(G, g, self.level_tag(g))
            if flav == "cur":
                entry = "(*%s.cursor_range(%s).begin())" % (G.expr, CUR)
            else:
                entry = "%s.front()" % G.expr
            self.walk_level(G.child(entry, "entry"), g, False)
        for d in L.data:
            ex, byte, cur = self.getter(Lc, ltag, d.name)
            self.data_site(Lc.child(ex, d.name, byte, cur), d)
        # cursor wrappers as getters (the returned view is typed by the wrapper's byte type)
        if flav == "cur":
            for g in L.groups:
                w = WRAPPERS[self.rot() % 3]
                ex, byte, cur = self.getter(Lc, ltag, g.name, wrapper=w)
                G = Lc.child(ex, g.name + "(" + w + ")", byte, cur)
                self.add("group.resize", G, "%s.resize(1)" % G.expr, [G.expr], core=False, obj=G.expr)
                self.add("group.fill_group_header", G, "sbepp::fill_group_header(%s, 1)" % G.expr, [G.expr], core=True)
            for d in L.data:
                w = WRAPPERS[self.rot() % 3]
                ex, byte, cur = self.getter(Lc, ltag, d.name, wrapper=w)
                D = Lc.child(ex, d.name + "(" + w + ")", byte, cur)
                self.add("data.push_back", D, "%s.push_back(%s())" % (D.expr, CPP_PRIM[d.elem_prim]), [D.expr])
            for m in L.fields:
                if m.kind in ("array", "composite"):
                    w = WRAPPERS[self.rot() % 3]
                    ex, byte, cur = self.getter(Lc, ltag, m.name, wrapper=w)
                    V = Lc.child(ex, m.name + "(" + w + ")", byte, cur)
                    if m.kind == "array":
                        self.add("array.fill", V, "%s.fill(%s())" % (V.expr, CPP_PRIM[m.prim]), [V.expr])
                    else:
                        for el in m.elements:
                            if el.kind in ("scalar", "enum", "set"):
                                v = val_of("%s.%s()" % (V.expr, el.name))
                                self.add("composite.set.plain", V, "%s.%s(%s)" % (V.expr, el.name, v), [V.expr, v], site=V.site + "." + el.name)
                                break

    # ---------------------------------------------------------- conversions
    def conversions(self):
        """view / entry / array-ref / cursor conversions: From = X<VB>, To = X<flip(VB)>: rejected when VB is const"""
        pkg = self.pkg
        classes = []
        for L in self.m.messages:
            classes.append(("message", L.name, "sbepp::message_traits<%s>::value_type" % self.level_tag(L), None))

            def groups(Lv):
                for g in Lv.groups:
                    gt = self.level_tag(g)
                    classes.append(("group", "::".join(g.path), "sbepp::group_traits<%s>::value_type" % gt, None))
                    classes.append(("entry", "::".join(g.path), "sbepp::group_traits<%s>::entry_type" % gt, g))
                    groups(g)
                for d in Lv.data:
                    classes.append(("data", "::".join(Lv.path) + "::" + d.name, "sbepp::data_traits<%s::%s>::value_type" % (self.level_tag(Lv), d.name), None))
            groups(L)

        def comp(c, tag, label):
            classes.append(("composite", label, "sbepp::composite_traits<%s>::value_type" % tag, None))
            for e in c.elements:
                if e.via_ref:
                    continue
                if e.kind == "composite":
                    comp(e, "%s::%s" % (tag, e.name), label + "." + e.name)
                elif e.kind == "array":
                    classes.append(("array-ref", label + "." + e.name, "sbepp::type_traits<%s::%s>::value_type" % (tag, e.name), None))
        for t in self.m.sch["types"]:
            tag = "%s::schema::types::%s" % (pkg, t["name"])
            if t["kind"] == "composite":
                comp(self.m.composite(t), tag, t["name"])
            elif t["kind"] == "type" and t["presence"] != "constant" and self.m.type_length(t) != 1:
                classes.append(("array-ref", t["name"], "sbepp::type_traits<%s>::value_type" % tag, None))
        root = Ctx("", "VB", False, "", "conv")
        for what, label, tid, g in classes:
            T = self.alias(tid)
            frm = lv("%s<VB>" % T)
            to = "%s<%s::flip_t<VB> >" % (T, NS)
            site = "%s %s" % (what, label)
            self.add("conversion.implicit:" + what, root, "%s::takes<%s >(%s)" % (NS, to, frm), [frm, lv(to)], site=site)
            self.add("conversion.explicit:" + what, root, "%s(%s)" % (to, frm), [frm, lv(to)], site=site)
            self.add("conversion.assign:" + what, root, "%s = %s" % (lv(to), frm), [frm, lv(to)], site=site)
            if what != "entry":
                self.add("conversion.from-pointer:" + what, root, "%s(%s, std::size_t(8))" % (to, mk("VB*")), [mk("VB*"), lv(to)], site=site)
                self.add("conversion.from-pointers:" + what, root, "%s(%s, %s)" % (to, mk("VB*"), mk("VB*")), [mk("VB*"), lv(to)], site=site, core=False)
            else:
                self.add("conversion.entry-from-cursor:entry", root, "%s(%s, %s, 0)" % (to, lv("sbepp::cursor<VB>"), mk("%s::flip_t<VB>*" % NS)),
                         [lv("sbepp::cursor<VB>"), lv(to)], site=site)
                self.add("conversion.from-pointer:entry", root, "%s(%s, std::size_t(8), 0)" % (to, mk("VB*")), [mk("VB*"), lv(to)], site=site)
        # cursors (schema independent, cheap)
        frm = lv("sbepp::cursor<VB>")
        to = "sbepp::cursor<%s::flip_t<VB> >" % NS
        self.add("conversion.implicit:cursor", root, "%s::takes<%s >(%s)" % (NS, to, frm), [frm, lv(to)], site="cursor")
        self.add("conversion.explicit:cursor", root, "%s(%s)" % (to, frm), [frm, lv(to)], site="cursor")
        self.add("conversion.assign:cursor", root, "%s = %s" % (lv(to), frm), [frm, lv(to)], site="cursor")
        self.add("conversion.pointer-ref:cursor", root, "%s.pointer() = %s" % (lv(to), mk("VB*")), [lv(to), mk("VB*")], site="cursor")
        # init_cursor / init_const_cursor results
        if self.m.messages:
            M = lv("%s::messages::%s<VB>" % (pkg, self.m.messages[0].name))
            self.add("conversion.implicit:init_cursor", root, "%s::takes<%s >(sbepp::init_cursor(%s))" % (NS, to, M), [M, lv(to)], site="init_cursor")

    # ------------------------------------------------------------- top level
    def generate(self):
        for L in self.m.messages:
            view = "%s::messages::%s<VB>" % (self.pkg, L.name)
            for flav in ("ra", "tag", "cur"):
                root = Ctx(lv(view), "VB", False, L.name, flav)
                if flav == "ra":
                    self.add("message.fill_message_header", root, "sbepp::fill_message_header(%s)" % root.expr, [root.expr])
                    self.header_setters(root.child("sbepp::get_header(%s)" % root.expr, "get_header"), self.m.header, "message.header")
                self.walk_level(root, L, True)
        # every public composite on its own (also those no message reaches)
        for t in self.m.sch["types"]:
            if t["kind"] == "composite":
                comp = self.m.composite(t)
                tag = "%s::schema::types::%s" % (self.pkg, t["name"])
                for flav in ("ra", "tag"):
                    root = Ctx(lv("%s::types::%s<VB>" % (self.pkg, t["name"])), "VB", False, "types." + t["name"], flav)
                    self.composite_members(root, comp, tag)
        self.conversions()

    # ------------------------------------------------------------ rendering
    def prelude(self):
        o = []
        w = o.append
        w("#pragma once")
        w("#include <sbepp/sbepp.hpp>")
        w("#include <%s/%s.hpp>" % (self.pkg, self.pkg))
        w("#include <cstddef>\n#include <cstdint>\n#include <cstdio>\n#include <initializer_list>\n#include <string>\n#include <type_traits>\n#include <vector>")
        w("namespace %s {" % NS)
        w("template<class T> T& lv();")
        w("template<class T> typename std::decay<T>::type mk();")
        w("template<class... A> void sink(A&&...);")
        w("template<class T> void takes(T);")
        w("void takes_voidp(void*);")
        w("template<class T> struct voider { typedef void type; };")
        w("template<class B> struct flip { typedef const B type; };")
        w("template<class B> struct flip<const B> { typedef B type; };")
        w("template<class B> using flip_t = typename flip<B>::type;")
        w("template<class B> using unconst_t = typename std::remove_const<B>::type;")
        w("template<typename B, typename Byte, typename V, std::size_t N, typename Tag>")
        w("typename std::conditional<std::is_const<B>::value, sbepp::detail::static_array_ref<Byte, V, N, Tag>,")
        w("    sbepp::detail::static_array_ref<typename std::remove_const<Byte>::type, V, N, Tag> >::type")
        w("    unconst_if(sbepp::detail::static_array_ref<Byte, V, N, Tag>);")
        w("}")
        w("namespace %s {" % AL)
        for name, tid in self.aliases:
            w("template<typename B> using %s = %s<B>;" % (name, tid))
        w("}")
        return "\n".join(o) + "\n"

    BYTEDEFS = ("#ifndef BYTE\n#define BYTE char\n#endif\n")

    def probes_tu(self, include_prelude=True):
        """#if PROBE == k sections; one function per line so that a diagnostic's line number names the probe"""
        o = []
        w = o.append
        if include_prelude:
            w('#include "prelude.hpp"')
        w(self.BYTEDEFS.rstrip())
        w("#ifndef PROBE\n#error PROBE not defined\n#endif")
        w("#if VCONST\ntypedef const BYTE VB;\n#else\ntypedef BYTE VB;\n#endif")
        w("#if CCONST\ntypedef const BYTE CB;\n#else\ntypedef BYTE CB;\n#endif")
        for p in self.probes:
            w("#if PROBE == %d" % p.k)
            w("// kind=%s site=%s" % (p.kind, p.site))
            w("void probe_%d() { (void)(%s); }" % (p.k, p.expr))
            w("#endif")
        return "\n".join(o) + "\n"

    def single_probe_tu(self, p, v, c, byte="char", expr=None):
        """self-contained source of one probe under one variant (replay files, samples)"""
        return ('#include "prelude.hpp"\ntypedef %s%s VB;\ntypedef %s%s CB;\n// kind=%s site=%s variant=V%dC%d\nvoid probe_%d() { (void)(%s); }\n' % (
            "const " if v else "", byte, "const " if c else "", byte, p.kind, p.site, v, c, p.k, expr or p.expr))

    def control_tu(self, include_prelude=True):
        """positive control (every probe under all-mutable byte types) and path control (prefix of every probe under
        each of its reject variants). Returns (source, {line number: (k, 'accept'|'prefix')})"""
        o = []
        lines = {}

        def w(s, tag=None):
            for part in s.split("\n"):
                o.append(part)
                if tag:
                    lines[len(o)] = tag
        if include_prelude:
            w('#include "prelude.hpp"')
        w(self.BYTEDEFS.rstrip())
        w("namespace accept_ { typedef BYTE VB; typedef BYTE CB;")
        for p in self.probes:
            w("void probe_%d() { (void)(%s); }" % (p.k, p.expr), (p.k, "accept"))
        w("}")
        w("namespace prefix_ {")
        for p in self.probes:
            if p.prefix10 != p.prefix and (1, 0) in p.reject:
                w("template<typename VB, typename CB> void prefix10_%d() { %s; }" % (p.k, p.prefix10), (p.k, "prefix"))
                w("template void prefix10_%d<const BYTE, BYTE>();" % p.k, (p.k, "prefix"))
                rest = [vc for vc in p.reject if vc != (1, 0)]
            else:
                rest = p.reject
            if rest:
                w("template<typename VB, typename CB> void prefix_%d() { %s; }" % (p.k, p.prefix), (p.k, "prefix"))
                for v, c in rest:
                    w("template void prefix_%d<%sBYTE, %sBYTE>();" % (p.k, "const " if v else "", "const " if c else ""), (p.k, "prefix"))
        w("}")
        return "\n".join(o) + "\n", lines

    def reject_tu(self, v, c, include_prelude=True, only=None):
        """every probe that must be rejected under variant (v, c), one function per line: compiled with an unlimited
        error count, every line must carry a diagnostic. Returns (source, {line number: k})"""
        o = []
        lines = {}
        if include_prelude:
            o.append('#include "prelude.hpp"')
        o.extend(self.BYTEDEFS.rstrip().split("\n"))
        o.append("typedef %sBYTE VB; typedef %sBYTE CB;" % ("const " if v else "", "const " if c else ""))
        for p in self.probes:
            if (v, c) in p.reject and (only is None or p.k in only):
                o.append("void probe_%d() { (void)(%s); }" % (p.k, p.expr))
                lines[len(o)] = p.k
        return "\n".join(o) + "\n", lines

    def sfinae_tu(self, include_prelude=True):
        o = []
        w = o.append
        if include_prelude:
            w('#include "prelude.hpp"')
        w(self.BYTEDEFS.rstrip())
        w("namespace det {")
        for p in self.probes:
            w("template<typename VB, typename CB, typename = void> struct D%d : std::false_type {};" % p.k)
            w("template<typename VB, typename CB> struct D%d<VB, CB, typename %s::voider<decltype(%s)>::type> : std::true_type {};" % (p.k, NS, p.expr))
        w("}")
        w("#include <typeinfo>")
        w("namespace tn { template<typename T> struct box {};")
        for p in self.probes:
            if p.obj:
                w("template<typename VB, typename CB> const char* N%d() { return typeid(box<decltype((%s))>).name(); }" % (p.k, p.obj))
        w("}")
        w("typedef BYTE BM; typedef const BYTE BC;")
        w("int main() {")
        for p in self.probes:
            w('    std::printf("%d %%d%%d%%d%%d\\n", int(det::D%d<BM, BM>::value), int(det::D%d<BM, BC>::value), int(det::D%d<BC, BM>::value), int(det::D%d<BC, BC>::value));' % (
                p.k, p.k, p.k, p.k, p.k))
        for p in self.probes:
            if p.obj:
                for v, c in p.reject:
                    if (v, c) == (1, 0) and p.kind.endswith(".mixed"):
                        continue   # there the range accessor itself is disabled (constraint), no body-level rejection
                    w('    std::printf("T %d %d%d %%s\\n", tn::N%d<%s, %s>());' % (p.k, v, c, p.k, "BC" if v else "BM", "BC" if c else "BM"))
        w('    std::printf("END %d\\n");' % len(self.probes))
        w("    return 0;\n}")
        return "\n".join(o) + "\n"


def kind_class(kind):
    """coarse family of a probe kind (evidence grouping)"""
    return kind.split(".")[0].split(":")[0]


# ===========================================================================
# run-time half: extra read-only driver (operations the pool driver does not call)

RO_RT = r'''
namespace ro
{
struct Acc
{
    std::uint64_t h, calls;
    Acc() : h(1469598103934665603ull), calls(0) {}
    void add(std::uint64_t v) { h = (h ^ v) * 1099511628211ull; calls++; }
};
struct EnumVis
{
    int calls;
    EnumVis() : calls(0) {}
    template<typename E, typename Tag> void on_enum_value(E, Tag) { calls++; }
};
struct SetVis
{
    int n, on;
    SetVis() : n(0), on(0) {}
    template<typename Tag> void on_set_choice(bool b, Tag) { n++; on += b ? 1 : 0; }
};
template<typename T> void leaf(T t, Acc& a);

template<typename T> void cmp_ord(T x, Acc& a, std::true_type) { T y = x; a.add(x < y); a.add(x <= y); a.add(x > y); a.add(x >= y); }
template<typename T> void cmp_ord(T, Acc&, std::false_type) {}
template<typename T> void cmp(T x, Acc& a)
{
    T y = x;
    a.add(x == y); a.add(x != y);
    // ordering of optional float/double does not compile in C++20 (operator<=> declared strong_ordering): not a C11 matter
    cmp_ord(x, a, std::integral_constant<bool, !(sbepp::is_optional_type<T>::value && std::is_floating_point<typename T::value_type>::value)>());
}
template<typename T> void scalar(T x, Acc& a, std::integral_constant<int, 0>) { a.add(rt::bits(x.value())); a.add(rt::bits(*x)); a.add(x.in_range()); cmp(x, a); }
template<typename T> void scalar(T x, Acc& a, std::integral_constant<int, 1>) { a.add(rt::bits(x.value())); a.add(rt::bits(*x)); a.add(x.has_value()); a.add(x.in_range()); a.add(static_cast<bool>(x)); cmp(x, a); }
template<typename T> void scalar(T x, Acc& a, std::integral_constant<int, 2>) { a.add(rt::bits(x)); } // raw constant
template<typename E> void enm(E e, Acc& a)
{
    a.add(rt::enum_bits(e)); a.add(e == e);
    EnumVis ev; sbepp::visit(e, ev); a.add(ev.calls);
    a.add(rt::bits(sbepp::to_underlying(e)));
}
template<typename S> void set(S s, Acc& a)
{
    a.add(rt::bits(*s)); a.add(s == s); a.add(s != s);
    SetVis sv; sbepp::visit(s, sv); a.add(sv.n); a.add(sv.on);
}
// strlen() is only instantiable for char arrays (string_length takes const char*)
template<typename A> void strlens(A x, Acc& a, std::true_type) { a.add(x.strlen()); a.add(x.strlen_r()); }
template<typename A> void strlens(A x, Acc& a, std::false_type) { a.add(x.strlen_r()); }
template<typename A> void sarray(A x, Acc& a)
{
    a.add(x.size()); a.add(x.max_size()); a.add(x.empty()); a.add(sbepp::size_bytes(x));
    strlens(x, a, std::is_same<typename A::value_type, char>());
    std::size_t n = 0;
    for(typename A::iterator it = x.begin(); it != x.end(); ++it) { a.add(rt::bits(*it)); n++; }
    for(typename A::reverse_iterator it = x.rbegin(); it != x.rend(); ++it) a.add(rt::bits(*it));
    for(auto e : x) a.add(rt::bits(e));
    if(n != x.size()) a.add(0xBAD);
    if(x.size()) { a.add(rt::bits(x.front())); a.add(rt::bits(x.back())); a.add(rt::bits(x[0])); a.add(rt::bits(x[x.size() - 1])); a.add(rt::bits(*x.data())); a.add(rt::bits(x.raw()[0])); }
    a.add(x.data() == x.begin()); a.add(x.end() - x.begin());
    a.add(static_cast<const void*>(sbepp::addressof(x)) == static_cast<const void*>(x.data()) || x.size() == 0);
    a.add(x.raw().size());
}
template<typename D> void darray(D x, Acc& a)
{
    a.add(x.size()); a.add(x.sbe_size().value()); a.add(x.max_size()); a.add(x.empty()); a.add(sbepp::size_bytes(x));
    std::size_t n = 0;
    for(typename D::iterator it = x.begin(); it != x.end(); ++it) { a.add(rt::bits(*it)); n++; }
    for(typename D::reverse_iterator it = x.rbegin(); it != x.rend(); ++it) a.add(rt::bits(*it));
    for(auto e : x) a.add(rt::bits(e));
    if(n != x.size()) a.add(0xBAD);
    if(!x.empty()) { a.add(rt::bits(x.front())); a.add(rt::bits(x.back())); a.add(rt::bits(x[0])); a.add(rt::bits(*x.data())); a.add(rt::bits(x.raw()[0])); }
    a.add(x.data() == x.begin()); a.add(x.end() - x.begin()); a.add(x.raw().size());
    a.add(sbepp::addressof(x) != nullptr);
}
struct Vis
{
    Acc& a;
    explicit Vis(Acc& acc) : a(acc) {}
    template<typename M, typename C, typename Tag> void on_message(M m, C& c, Tag) { a.add(1); sbepp::visit_children(m, c, *this); }
    template<typename G, typename C, typename Tag> bool on_group(G g, C& c, Tag) { a.add(g.size()); sbepp::visit_children(g, c, *this); return false; }
    template<typename E, typename C, typename... X> bool on_entry(E e, C& c, X...) { a.add(3); sbepp::visit_children(e, c, *this); return false; }
    template<typename T, typename Tag> bool on_field(T t, Tag) { leaf(t, a); return false; }
    template<typename T, typename Tag> bool on_type(T t, Tag) { leaf(t, a); return false; }
    template<typename T, typename Tag> bool on_enum(T t, Tag) { leaf(t, a); return false; }
    template<typename T, typename Tag> bool on_set(T t, Tag) { leaf(t, a); return false; }
    template<typename T, typename Tag> bool on_composite(T t, Tag) { leaf(t, a); return false; }
    template<typename D, typename Tag> bool on_data(D d, Tag) { darray(d, a); return false; }
};
template<typename C> void composite(C c, Acc& a)
{
    a.add(sbepp::size_bytes(c)); a.add(sbepp::addressof(c) != nullptr);
    Vis v(a);
    sbepp::visit_children(c, v);
}
template<typename T> void leaf_(T t, Acc& a, std::integral_constant<int, 0>) { composite(t, a); }
template<typename T> void leaf_(T t, Acc& a, std::integral_constant<int, 1>) { enm(t, a); }
template<typename T> void leaf_(T t, Acc& a, std::integral_constant<int, 2>) { set(t, a); }
template<typename T> void leaf_(T t, Acc& a, std::integral_constant<int, 3>) { sarray(t, a); }
template<typename T> void leaf_(T t, Acc& a, std::integral_constant<int, 4>)
{
    scalar(t, a, std::integral_constant<int, sbepp::is_required_type<T>::value ? 0 : sbepp::is_optional_type<T>::value ? 1 : 2>());
}
template<typename T> void leaf(T t, Acc& a)
{
    leaf_(t, a, std::integral_constant<int, sbepp::is_composite<T>::value ? 0 : sbepp::is_enum<T>::value ? 1 : sbepp::is_set<T>::value ? 2
        : sbepp::is_array_type<T>::value ? 3 : 4>());
}
// group-level queries that do not descend into entries
template<typename G> void group_common(G g, Acc& a)
{
    a.add(g.size()); a.add(g.sbe_size().value()); a.add(g.empty()); a.add(g.max_size()); a.add(sbepp::size_bytes(g));
    a.add(sbepp::size_bytes(sbepp::get_header(g))); leaf(sbepp::get_header(g), a);
    a.add(sbepp::addressof(g) != nullptr);
    std::size_t n = 0;
    typename G::iterator e = g.end();
    for(typename G::iterator it = g.begin(); it != e; ++it) { a.add(sbepp::size_bytes(*it)); a.add(it == g.begin()); a.add(sbepp::size_bytes(*it.operator->().operator->())); n++; }
    if(n != g.size()) a.add(0xBAD);
    if(!g.empty()) a.add(sbepp::addressof(g.front()) == sbepp::addressof(*g.begin()));
}
template<typename G> void group(G g, Acc& a, std::true_type /*flat*/)
{
    group_common(g, a);
    typedef typename G::iterator It;
    It b = g.begin(), e = g.end();
    a.add(static_cast<std::uint64_t>(e - b)); a.add(b < e); a.add(b <= e); a.add(b > e); a.add(b >= e); a.add(b == e); a.add(b != e);
    for(typename G::size_type i = 0; i < g.size(); i++)
    {
        a.add(sbepp::addressof(g[i]) == sbepp::addressof(*(b + i))); a.add(sbepp::addressof(b[i]) == sbepp::addressof(*(i + b)));
        It t = b; t += i; a.add(t - b); It u = t; u -= i; a.add(u == b); It w = t++; a.add(w == t - 1); --t; a.add(w == t); a.add(sbepp::size_bytes(g[i]));
    }
    if(!g.empty()) { a.add(sbepp::addressof(g.back()) == sbepp::addressof(*(e - 1))); It t = e; t--; a.add(t < e); }
}
template<typename G> void group(G g, Acc& a, std::false_type) { group_common(g, a); typename G::iterator b = g.begin(); a.add(b == g.begin()); if(!g.empty()) { typename G::iterator t = b++; a.add(t != b); } }
template<typename G> void group(G g, Acc& a) { group(g, a, std::integral_constant<bool, sbepp::is_flat_group<G>::value>()); }
} // namespace ro
'''


class RoGen:
    """per-schema program: `ro <mi> <hex>` maps the image PROT_READ and runs getters (random access, cursor incl. all
    wrappers, by-tag with cursor), iterators and their comparisons, strlen/strlen_r, data()/begin()/end()/raw(),
    size queries, value comparisons and visit/visit_children through make_const_view"""

    def __init__(self, model):
        self.m = model
        self.pkg = model.sch.get("schema_name") or model.sch["package"]
        self.lines = []
        self.uid = 0
        self.n = 0

    def w(self, s):
        self.lines.append(s)

    def fresh(self, p):
        self.uid += 1
        return "%s%d" % (p, self.uid)

    def level_tag(self, L):
        return "%s::schema::messages::%s" % (self.pkg, "::".join(L.path))

    def member_tag(self, m, parent_tag):
        if m.public_name:
            return "%s::schema::types::%s" % (self.pkg, m.public_name)
        return "%s::%s" % (parent_tag, m.name)

    def composite_named(self, m, c, ctag, pad):
        for e in m.elements:
            self.w("%sro::leaf(%s.%s(), a); ro::leaf(sbepp::get_by_tag<%s::%s>(%s), a);" % (pad, c, e.name, ctag, e.name, c))
            if e.kind == "composite":
                cc = self.fresh("c")
                self.w("%s{ auto %s = %s.%s();" % (pad, cc, c, e.name))
                self.composite_named(e, cc, self.member_tag(e, ctag), pad + "  ")
                self.w("%s}" % pad)

    def level_ra(self, L, v, ind):
        pad = "    " * ind
        ltag = self.level_tag(L)
        self.w("%sa.add(sbepp::size_bytes(%s));" % (pad, v))
        for m in L.fields:
            self.w("%sro::leaf(%s.%s(), a);" % (pad, v, m.name))
            if m.kind == "composite":
                c = self.fresh("c")
                self.w("%s{ auto %s = %s.%s();" % (pad, c, v, m.name))
                self.composite_named(m, c, self.member_tag(m, ltag), pad + "  ")
                self.w("%s}" % pad)
        for g in L.groups:
            gv, ev = self.fresh("g"), self.fresh("e")
            self.w("%s{ auto %s = %s.%s(); ro::group(%s, a);" % (pad, gv, v, g.name, gv))
            self.w("%s  for(auto %s : %s) {" % (pad, ev, gv))
            self.level_ra(g, ev, ind + 1)
            self.w("%s  } }" % pad)
        for d in L.data:
            self.w("%sro::darray(%s.%s(), a);" % (pad, v, d.name))

    def level_cur(self, L, v, ind):
        pad = "    " * ind
        ltag = self.level_tag(L)
        for m in L.fields:
            if m.is_const:
                continue
            self.n += 1
            if self.n % 2:
                self.w("%sro::leaf(%s.%s(c), a);" % (pad, v, m.name))
            else:
                self.w("%sro::leaf(sbepp::get_by_tag<%s::%s>(%s, c), a);" % (pad, ltag, m.name, v))
        for g in L.groups:
            gv, ev, it = self.fresh("g"), self.fresh("e"), self.fresh("it")
            self.n += 1
            style = self.n % 3
            self.w("%s{ auto %s = %s.%s(c); a.add(%s.size());" % (pad, gv, v, g.name, gv))
            if style == 0:
                self.w("%s  for(auto %s : %s.cursor_range(c)) {" % (pad, ev, gv))
            elif style == 1:
                self.w("%s  if(!%s.empty()) for(auto %s : %s.cursor_subrange(c, 0, %s.size())) {" % (pad, gv, ev, gv, gv))
            else:
                self.w("%s  for(auto %s = %s.cursor_begin(c); %s != %s.cursor_end(c); ++%s) { auto %s = *%s;" % (pad, it, gv, it, gv, it, ev, it))
            self.level_cur(g, ev, ind + 1)
            self.w("%s  } }" % pad)
        for d in L.data:
            self.w("%sro::darray(%s.%s(c), a);" % (pad, v, d.name))

    def level_wrap(self, L, v, ind):
        """dont_move read followed by skip, for every member of the root level (A.3 of the design)"""
        pad = "    " * ind
        first = True
        members = [(m.name, "f") for m in L.fields if not m.is_const] + [(g.name, "g") for g in L.groups] + [(d.name, "d") for d in L.data]
        for name, k in members:
            w1 = "init_dont_move" if first else "dont_move"
            first = False
            if k == "f":
                self.w("%sro::leaf(%s.%s(sbepp::cursor_ops::%s(c)), a);" % (pad, v, name, w1))
            elif k == "g":
                self.w("%sro::group(%s.%s(sbepp::cursor_ops::%s(c)), a);" % (pad, v, name, w1))
            else:
                self.w("%sro::darray(%s.%s(sbepp::cursor_ops::%s(c)), a);" % (pad, v, name, w1))
            self.w("%s%s.%s(sbepp::cursor_ops::skip(c));" % (pad, v, name))
        return bool(members)

    def generate(self):
        w = self.w
        w("#define SBEPP_ENABLE_ASSERTS_WITH_HANDLER")
        w("#include <sbepp/sbepp.hpp>")
        w("#include <%s/%s.hpp>" % (self.pkg, self.pkg))
        w("#include <string>\n#include <vector>")
        w('#include "driver_rt.hpp"')
        w("namespace sbepp { [[noreturn]] void assertion_failed(char const* e, char const*, char const*, long) { rt::on_assert(e); } }")
        w(RO_RT)
        for i, L in enumerate(self.m.messages):
            view = "%s::messages::%s" % (self.pkg, L.name)
            w("static void ro_%d(const unsigned char* p, std::size_t n, ro::Acc& a) {" % i)
            w("    auto v0 = sbepp::make_const_view<%s>(p, n);" % view)
            w("    static_assert(std::is_const<sbepp::byte_type_t<decltype(v0)> >::value, \"const view expected\");")
            w("    a.add(sbepp::addressof(v0) == p); ro::leaf(sbepp::get_header(v0), a); a.add(sbepp::size_bytes(sbepp::get_header(v0)));")
            w("    { auto r = sbepp::size_bytes_checked(v0, n); a.add(r.valid); a.add(r.size); }")
            self.level_ra(L, "v0", 1)
            w("    { auto c = sbepp::init_cursor(v0);")
            self.level_cur(L, "v0", 2)
            w("      a.add(sbepp::size_bytes(v0, c)); }")
            w("    { auto c = sbepp::init_const_cursor(v0);")
            self.level_cur(L, "v0", 2)
            w("      a.add(sbepp::size_bytes(v0, c)); }")
            w("    { sbepp::cursor<const unsigned char> c;")
            self.level_wrap(L, "v0", 2)
            w("      (void)c; }")
            w("    { ro::Vis vis(a); sbepp::visit(v0, vis); }")
            w("    { ro::Vis vis(a); auto c = sbepp::init_cursor(v0); sbepp::visit_children(v0, c, vis); a.add(sbepp::size_bytes(v0, c)); }")
            w("    { sbepp::cursor<const unsigned char> c2 = sbepp::init_cursor(sbepp::make_view<%s>(const_cast<unsigned char*>(p), n)); a.add(c2.pointer() != nullptr); }" % view)
            w("}")
        w("int main() {")
        w("    rt::install_handlers(); rt::GuardBuf gb; std::string line;")
        w("    while(std::getline(std::cin, line)) {")
        w("        rt::Tokens tk(line); std::string cmd = tk.next();")
        w("        if(cmd == \"quit\") break;")
        w("        if(cmd != \"ro\") { std::cout << \"ERR unknown command\" << std::endl; continue; }")
        w("        std::size_t mi = static_cast<std::size_t>(tk.dec()); std::vector<unsigned char> img = tk.bytes();")
        w("        unsigned char* p = gb.place(img.data(), img.size(), true); ro::Acc a; bool known = true;")
        w("        RT_GUARDED(switch(mi) {")
        for i in range(len(self.m.messages)):
            w("            case %d: ro_%d(p, img.size(), a); break;" % (i, i))
        w("            default: known = false; });")
        w("        rt::Guard& g = rt::guard();")
        w("        if(g.kind == 1) std::cout << \"ASSERT \" << g.expr << std::endl;")
        w("        else if(g.kind == 2) std::cout << \"SEGV \" << (static_cast<unsigned char*>(g.fault_addr) - gb.end()) << std::endl;")
        w("        else if(!known) std::cout << \"ERR bad message index\" << std::endl;")
        w("        else std::cout << \"OK h=\" << a.h << \" calls=\" << a.calls << std::endl;")
        w("    }")
        w("    return 0;\n}")
        return "\n".join(self.lines) + "\n"
