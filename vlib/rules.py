"""Independent checker for the schema rules sbeppc enforces (DESIGN A.2), over
the schema model dicts.  Returns the list of broken rule ids; [] = valid.
Written from the rule list, not from sbeppc's code."""
import re

from vlib.schemagen import PRIMS, prim_range

KEYWORDS = set("""alignas alignof and and_eq asm auto bitand bitor bool break case catch char char8_t char16_t char32_t class compl
concept const consteval constexpr constinit const_cast continue co_await co_return co_yield decltype default delete do double
dynamic_cast else enum explicit export extern false float for friend goto if inline int long mutable namespace new noexcept not
not_eq nullptr operator or or_eq private protected public register reinterpret_cast requires return short signed sizeof static
static_assert static_cast struct switch template this thread_local throw true try typedef typeid typename union unsigned using
virtual void volatile wchar_t while xor xor_eq""".split())

NAME_RE = re.compile(r"^[A-Za-z_][A-Za-z0-9_]*$")
INT_RE = re.compile(r"^-?[0-9]+$")
FLOAT_RE = re.compile(r"^[+-]?(([0-9]+\.?[0-9]*|\.[0-9]+)([eE][+-]?[0-9]+)?|INF)$|^NaN$")


def fits(text, prim):
    if text is None or text == "":
        return False
    size, kind = PRIMS[prim]
    if kind == "f":
        if not FLOAT_RE.match(text):
            return False
        if text in ("NaN", "INF", "+INF", "-INF"):
            return True
        v = abs(float(text))
        lim = 3.4028234663852886e38 if size == 4 else 1.7976931348623157e308
        if v > lim or v == float("inf"):
            return False
        tiny = 1e-46 if size == 4 else 1e-324
        if v != 0 and v < tiny:
            return False  # underflow to zero is reported as out of range
        return True
    if not INT_RE.match(text):
        return False
    v = int(text)
    lo, hi = prim_range(prim)
    return lo <= v <= hi


class Checker:
    def __init__(self, sch):
        self.sch = sch
        self.bad = []
        self.types = {}
        self.all_types = list(sch["types"]) + list((sch.get("_include") or {}).get("types", []))
        for t in self.all_types:
            k = t["name"].lower()
            if k in self.types:
                self.bad.append("duplicate-type-name")
            self.types.setdefault(k, t)
        self.state = {}

    def err(self, rule):
        self.bad.append(rule)

    def name(self, n):
        if not n or not NAME_RE.match(n):
            self.err("invalid-name")
        elif n in KEYWORDS:
            self.err("keyword-name")

    def get(self, n):
        return self.types.get((n or "").lower())

    # ------------------------------------------------------------ encodings
    def value_ref(self, vr, prim):
        if vr is None or "." not in vr or vr.startswith(".") or vr.endswith("."):
            self.err("bad-valueref")
            return
        en, vn = vr.split(".", 1)
        e = self.get(en)
        if e is None:
            self.err("unknown-reference")
            return
        if e["kind"] != "enum":
            self.err("wrong-kind-reference")
            return
        vs = [v for v in e["values"] if v["name"] == vn]
        if not vs:
            self.err("unknown-reference")
            return
        eprim = self.enum_prim(e)
        if eprim is None:
            return
        num = str(ord(vs[0]["value"][0])) if eprim == "char" and vs[0]["value"] else vs[0]["value"]
        if prim is not None and not fits(num, prim):
            self.err("value-not-representable")

    def enum_prim(self, e):
        if e["enc"] in PRIMS:
            return e["enc"]
        t = self.get(e["enc"])
        if t is not None and t["kind"] == "type":
            return t["prim"]
        return None

    def type_(self, t):
        self.name(t["name"])
        if t["prim"] not in PRIMS:
            self.err("unknown-primitive")
            return 0
        ln = 1 if t["length"] is None else t["length"]
        if t["presence"] == "constant":
            has_v, has_r = t.get("const") not in (None, ""), t.get("value_ref") is not None
            if has_v == has_r:
                self.err("constant-value-rule")
            elif has_r:
                self.value_ref(t["value_ref"], t["prim"])
                if ln != 1:
                    self.err("constant-length-rule")
            elif t["prim"] == "char":
                if t["length"] is not None and t["length"] < len(t["const"]):
                    self.err("constant-length-rule")
                if t["length"] is None:
                    ln = len(t["const"])
            else:
                if not fits(t["const"], t["prim"]):
                    self.err("value-not-representable")
                if ln != 1:
                    self.err("constant-length-rule")
        else:
            if ln == 1:
                for k in ("min", "max"):
                    if t.get(k) is not None and not fits(t[k], t["prim"]):
                        self.err("value-not-representable")
                if t["presence"] == "optional" and t.get("null") is not None and not fits(t["null"], t["prim"]):
                    self.err("value-not-representable")
            elif PRIMS[t["prim"]][0] != 1:
                self.err("multi-byte-array")
        return ln * PRIMS[t["prim"]][0]

    def enum(self, e):
        self.name(e["name"])
        prim = None
        if e["enc"] in PRIMS:
            prim = e["enc"]
        else:
            t = self.get(e["enc"])
            if t is None:
                self.err("unknown-reference")
            elif t["kind"] != "type" or (t["length"] not in (None, 1)):
                self.err("wrong-kind-reference")
            else:
                prim = t["prim"]
        if prim is None:
            return 0
        if PRIMS[prim][1] == "f":
            self.err("wrong-kind-reference")
            return 0
        names = set()
        for v in e["values"]:
            self.name(v["name"])
            if v["name"] in names:
                self.err("duplicate-valid-value")
            names.add(v["name"])
            if prim == "char":
                if len(v["value"]) != 1:
                    self.err("value-not-representable")
            elif not fits(v["value"], prim):
                self.err("value-not-representable")
        return PRIMS[prim][0]

    def set_(self, s):
        self.name(s["name"])
        prim = None
        if s["enc"] in PRIMS:
            prim = s["enc"]
        else:
            t = self.get(s["enc"])
            if t is None:
                self.err("unknown-reference")
            elif t["kind"] != "type" or (t["length"] not in (None, 1)):
                self.err("wrong-kind-reference")
            else:
                prim = t["prim"]
        if prim is None:
            return 0
        if PRIMS[prim][1] != "u":
            self.err("wrong-kind-reference")
            return 0
        names = set()
        for c in s["choices"]:
            self.name(c["name"])
            if c["name"] in names:
                self.err("duplicate-choice")
            names.add(c["name"])
            if not (0 <= c["index"] <= PRIMS[prim][0] * 8 - 1):
                self.err("choice-index-out-of-range")
        return PRIMS[prim][0]

    def is_const(self, el):
        if el["kind"] == "type":
            return el["presence"] == "constant"
        if el["kind"] == "ref":
            t = self.get(el["type"])
            return t is not None and t["kind"] == "type" and t["presence"] == "constant"
        return False

    def composite(self, c):
        self.name(c["name"])
        off = 0
        names = set()
        for el in c["elements"]:
            if el["name"] in names:
                self.err("duplicate-composite-element")
            names.add(el["name"])
            size = self.encoding(el)
            if self.is_const(el):
                continue
            if el.get("offset") is not None:
                if el["offset"] < off:
                    self.err("offset-below-minimum")
                else:
                    off = el["offset"]
            off += size
        return off

    def ref(self, r):
        self.name(r["name"])
        t = self.get(r["type"])
        if t is None:
            self.err("unknown-reference")
            return 0
        return self.public(t)

    def encoding(self, el):
        k = el["kind"]
        if k == "type":
            return self.type_(el)
        if k == "enum":
            return self.enum(el)
        if k == "set":
            return self.set_(el)
        if k == "composite":
            return self.composite(el)
        if k == "ref":
            return self.ref(el)
        return 0

    def public(self, t):
        key = id(t)
        st = self.state.get(key)
        if st == "busy":
            self.err("cyclic-reference")
            return 0
        if isinstance(st, int):
            return st
        self.state[key] = "busy"
        size = self.encoding(t)
        self.state[key] = size
        return size

    # -------------------------------------------------------------- headers
    def header(self, name, required, kind):
        c = self.get(name)
        if c is None:
            self.err("unknown-reference")
            return
        if c["kind"] != "composite":
            self.err("wrong-kind-reference")
            return
        for rn in required:
            els = [e for e in c["elements"] if e["name"] == rn]
            if not els:
                self.err("malformed-level-header")
                continue
            e = els[0]
            t = e
            if e["kind"] == "ref":
                t = self.get(e["type"])
            if t is None or t["kind"] != "type":
                self.err("malformed-level-header")
                continue
            ln = 1 if t["length"] is None else t["length"]
            if rn == "varData":
                if ln != 0:
                    self.err("malformed-level-header")
                continue
            if ln != 1 or t["presence"] == "constant":
                self.err("malformed-level-header")

    # --------------------------------------------------------------- levels
    def level(self, L):
        names = set()
        off = 0
        order = L.get("_order")
        if order == "bad":
            self.err("member-order")
        for f in L["fields"]:
            self.name(f["name"])
            if f["name"] in names:
                self.err("duplicate-member")
            names.add(f["name"])
            const = False
            size = 0
            if f["type"] in PRIMS:
                size = PRIMS[f["type"]][0]
                if f["presence"] == "constant":
                    const = True
                    if f.get("value_ref") is None:
                        self.err("constant-value-rule")
                    else:
                        self.value_ref(f["value_ref"], f["type"])
            else:
                t = self.get(f["type"])
                if t is None:
                    self.err("unknown-reference")
                    continue
                size = self.public(t)
                if t["kind"] == "type":
                    const = t["presence"] == "constant"
                elif t["kind"] == "enum" and f["presence"] == "constant":
                    const = True
                    if f.get("value_ref") is None:
                        self.err("constant-value-rule")
                    else:
                        self.value_ref(f["value_ref"], None)
                        en = f["value_ref"].split(".")[0] if "." in f["value_ref"] else ""
                        if en.lower() != t["name"].lower() and self.get(en) is not None and self.get(en)["kind"] == "enum":
                            self.err("constant-value-rule")
                elif t["kind"] == "composite" and f["presence"] == "constant":
                    self.err("constant-value-rule")
            if const:
                continue
            if f.get("offset") is not None:
                if f["offset"] < off:
                    self.err("offset-below-minimum")
                else:
                    off = f["offset"]
            off += size
        if L.get("block_length") is not None and L["block_length"] < off:
            self.err("block-length-below-content")
        for g in L["groups"]:
            self.name(g["name"])
            if g["name"] in names:
                self.err("duplicate-member")
            names.add(g["name"])
            self.header(g["dimension_type"], ["numInGroup", "blockLength"], "group")
            self.level(g)
        for d in L["data"]:
            self.name(d["name"])
            if d["name"] in names:
                self.err("duplicate-member")
            names.add(d["name"])
            self.header(d["type"], ["length", "varData"], "data")

    def run(self):
        # schema name = `--schema-name` if given, else the package attribute: a C++ namespace (symbolic name, no keyword,
        # not std / posix); the package itself is free text when a custom name is given
        sn = self.sch.get("schema_name") or self.sch.get("package")
        if not sn or not NAME_RE.match(sn):
            self.err("invalid-schema-name")
        elif sn in KEYWORDS or sn in ("std", "posix"):
            self.err("invalid-schema-name")
        for t in self.all_types:
            self.public(t)
        self.header(self.sch.get("header_type") or "messageHeader", ["schemaId", "templateId", "version", "blockLength"], "message")
        mn, mi = set(), set()
        for m in self.sch["messages"]:
            self.name(m["name"])
            if m["name"] in mn:
                self.err("duplicate-message-name")
            if m["id"] in mi:
                self.err("duplicate-message-id")
            mn.add(m["name"])
            mi.add(m["id"])
            self.level(m)
        return sorted(set(self.bad))


def violations(sch):
    return Checker(sch).run()
