"""Hypothesis strategy for *valid* SBE schemas (valid by construction: no
assume/filter on the schema as a whole) + XML rendering.

The schema model is plain dicts/lists (JSON-able).  model.py derives layout and
expected values from the same dicts, independently of sbeppc.

Shape space: see DESIGN.md 3.2.
"""
import json
import os
from xml.sax.saxutils import escape, quoteattr

from hypothesis import HealthCheck, Phase, given, seed as hseed, settings, strategies as st

PRIMS = {
    # name: (size, kind)  kind: c=char, s=signed, u=unsigned, f=float
    "char": (1, "c"), "int8": (1, "s"), "uint8": (1, "u"), "int16": (2, "s"), "uint16": (2, "u"),
    "int32": (4, "s"), "uint32": (4, "u"), "int64": (8, "s"), "uint64": (8, "u"), "float": (4, "f"), "double": (8, "f"),
}
INT_PRIMS = [p for p, (s, k) in PRIMS.items() if k in "su"]
UNSIGNED = ["uint8", "uint16", "uint32", "uint64"]
SINGLE_BYTE = ["char", "int8", "uint8"]


def prim_range(p):
    size, kind = PRIMS[p]
    if kind == "u":
        return 0, 2 ** (8 * size) - 1
    if kind == "s":
        return -(2 ** (8 * size - 1)), 2 ** (8 * size - 1) - 1
    if kind == "c":
        return -128, 127
    raise ValueError(p)


# Identifier pool built to collide (DESIGN 3.2).  No C++ keywords, no reserved
# identifiers ("__", "_X"), no standard macro names.
NAME_POOL = [
    "a", "b", "x", "y", "A", "B", "One", "Two", "f", "g", "d", "m",
    "value", "size", "header", "entry", "types", "messages", "schema", "detail",
    "min_value", "max_value", "null_value", "field", "group", "data", "msg", "type",
    "a_0", "a_1", "b_0", "a_entry", "a_0_entry", "b_entry", "group_entry", "g_entry", "g_0", "g_0_entry",
    "types_0", "messages_0", "msg_0", "x_0", "entry_0",
    "blockLength", "numInGroup", "length", "varData", "templateId", "schemaId", "version",
    "numGroups", "numVarDataFields", "messageHeader", "groupSizeEncoding", "varDataEncoding",
    "c_", "view", "cursor", "sbepp_", "std_", "size_bytes", "get_header",
    "X", "x1", "long_name_with_several_parts",
    "a_b", "b_a", "g_g", "x_y", "a_b_entry", "g_a",
]
# Identifiers the generated code uses for its own template parameters, function
# parameters and locals.  Kept out of the main pool (a schema using one does not
# compile at all, which would hide everything behind it); exercised separately
# by the C07 check.
IMPL_NAMES = ["Byte", "Cursor", "Visitor", "Tag", "T", "v", "c", "Byte2", "Args", "args", "visitor", "header", "last"]

TEXT_ALPHABET = "abcXYZ 019_-.,:;()[]+*/=!?#$%@^~|<>&"


def _names(draw, used, lower=False, k=None, related=()):
    """draw a name not in `used` (a set; case-insensitive when lower=True).  `related`: names of enclosing / sibling
    entities; with some probability the new name is one of them or one of the forms the generator derives from them
    (`x_0`, `x_1`, `x_entry`, `x_0_entry`, `x_y`), which is what mangling has to cope with."""
    cands = [n for n in NAME_POOL if (n.lower() if lower else n) not in used]
    rel = []
    for r in related:
        rel += [r, r + "_0", r + "_1", r + "_entry", r + "_0_entry"]
    for r in related:
        for q in related:
            if r != q:
                rel.append(r + "_" + q)
    rel = [n for n in dict.fromkeys(rel) if (n.lower() if lower else n) not in used and len(n) < 40]
    if rel and draw(st.integers(0, 3)) == 0:
        n = draw(st.sampled_from(rel))
    else:
        n = draw(st.sampled_from(cands))
    used.add(n.lower() if lower else n)
    return n


def _refcase(draw, name):
    """a reference to a public type as written at a reference site: type lookup is case-insensitive, so any spelling
    that differs only in letter case designates the same type (the generated code must use the declared name)"""
    k = draw(st.integers(0, 11))
    if k == 0:
        return name.swapcase()
    if k == 1:
        return name.upper()
    if k == 2:
        return name.lower()
    return name


def _opt(draw, strat, p=0.3):
    if draw(st.integers(0, 99)) < int(p * 100):
        return draw(strat)
    return None


def _text(draw, special):
    if special and draw(st.integers(0, 3)) == 0:
        return draw(st.text(alphabet=TEXT_ALPHABET + "\"'\\\n\té", min_size=1, max_size=12))
    return draw(st.text(alphabet=TEXT_ALPHABET, min_size=0, max_size=12))


def _common_attrs(draw, d, opts, allow_semantic=True):
    d["description"] = _text(draw, opts["special_text"]) if draw(st.integers(0, 3)) == 0 else None
    d["since"] = _opt(draw, st.sampled_from([0, 1, 2, 7, 4294967295, 18446744073709551615]), 0.25)
    d["deprecated"] = _opt(draw, st.sampled_from([0, 1, 3, 9, 18446744073709551615]), 0.15)
    if allow_semantic:
        d["semantic_type"] = _text(draw, opts["special_text"]) if draw(st.integers(0, 5)) == 0 else None


def _int_text(draw, lo, hi, opts):
    """decimal text of an integer in [lo, hi], boundary biased"""
    cands = {lo, hi, 0, 1, -1, lo + 1, hi - 1, 10, 100, 7}
    cands = sorted(c for c in cands if lo <= c <= hi)
    if draw(st.integers(0, 2)) == 0:
        v = draw(st.integers(lo, hi))
    else:
        v = draw(st.sampled_from(cands))
    s = str(v)
    if opts["odd_literals"] and draw(st.integers(0, 5)) == 0:
        # forms std::from_chars accepts besides the canonical one
        if v >= 0:
            s = "0" * draw(st.integers(1, 2)) + s
        else:
            s = "-0" + s[1:]
    return s


FLOAT_TEXTS = ["0", "1", "-1", "1.5", "-2.5E-3", "1e10", "NaN", "INF", "-INF", "+INF", ".5", "5.", "+1.5", "-0.0",
               "3.4028234e38", "1.17549435e-38", "123456789", "1E+2", "0.1", "16777217", "-3.25e+5"]
DOUBLE_EXTRA = ["1.7976931348623157e308", "2.2250738585072014e-308", "1e300", "-4.9e-300", "9007199254740993"]


def _num_text(draw, prim, opts):
    size, kind = PRIMS[prim]
    if kind == "f":
        s = draw(st.sampled_from(FLOAT_TEXTS + (DOUBLE_EXTRA if prim == "double" else [])))
        if opts["odd_literals"] and draw(st.integers(0, 7)) == 0 and s[0].isdigit():
            s = "0" + s
        return s
    lo, hi = prim_range(prim)
    if kind == "c":
        lo, hi = 0, 127  # from_chars<char>: keep inside ASCII so that the C++ char value is unambiguous
    return _int_text(draw, lo, hi, opts)


def _enum_values(types_by_name):
    return [(t, v) for t in (types_by_name or {}).values() if t["kind"] == "enum" for v in t["values"]]


def gen_type(draw, name, opts, allow_const=True, allow_array=True, force=None, types_by_name=None):
    """a <type>; force: None | 'scalar' | 'array' | 'const'"""
    t = {"kind": "type", "name": name}
    shape = force or draw(st.sampled_from(["scalar"] * 5 + (["array"] * 2 if allow_array else []) + (["const"] * 2 if allow_const else [])))
    t["prim"] = draw(st.sampled_from(list(PRIMS)))
    t["length"] = None
    t["presence"] = "required"
    t["min"] = t["max"] = t["null"] = t["const"] = t["value_ref"] = None
    if shape == "scalar":
        t["presence"] = draw(st.sampled_from(["required", "required", "optional"]))
        if draw(st.booleans()):
            t["length"] = 1
        if draw(st.integers(0, 2)) == 0:
            t["min"] = _num_text(draw, t["prim"], opts)
        if draw(st.integers(0, 2)) == 0:
            t["max"] = _num_text(draw, t["prim"], opts)
        if draw(st.integers(0, 2)) == 0:
            # nullValue on a required type is only a warning
            t["null"] = _num_text(draw, t["prim"], opts)
    elif shape == "array":
        t["prim"] = draw(st.sampled_from(SINGLE_BYTE))
        t["length"] = draw(st.sampled_from([0, 2, 3, 5, 8, 16, 33, 64]))
        t["presence"] = draw(st.sampled_from(["required", "required", "optional"]))
    else:
        t["presence"] = "constant"
        evs = _enum_values(types_by_name)
        if evs and (force == "const" or draw(st.integers(0, 2)) == 0):
            # constant given by valueRef to an enum value that fits the primitive type
            et, ev = draw(st.sampled_from(evs))
            num = ord(ev["value"]) if et["prim"] == "char" else int(ev["value"])
            fits = [p for p in ["char"] + INT_PRIMS if (0 <= num <= 127 if p == "char" else prim_range(p)[0] <= num <= prim_range(p)[1])]
            t["prim"] = draw(st.sampled_from(fits))
            t["value_ref"] = "%s.%s" % (_refcase(draw, et["name"]), ev["name"])
            t["length"] = draw(st.sampled_from([None, 1]))
        elif t["prim"] == "char" and draw(st.booleans()):
            # string / char constant
            alphabet = "abcXYZ 019_-.,:;()[]+*/=!?#$%@^~|" + ("\"'\\" if opts["special_text"] else "")
            s = draw(st.text(alphabet=alphabet, min_size=1, max_size=9))
            # pugixml trims nothing, but leading/trailing blanks make the XML ambiguous: avoid them
            s = s.strip() or "k"
            t["const"] = s
            if draw(st.booleans()):
                t["length"] = len(s) + draw(st.sampled_from([0, 0, 1, 4]))
        elif t["prim"] == "char":
            t["const"] = draw(st.sampled_from(list("aZ09_~!")))
            t["length"] = draw(st.sampled_from([None, 1]))
        else:
            t["const"] = _num_text(draw, t["prim"], opts)
            if PRIMS[t["prim"]][1] == "f" and t["const"] in ("NaN",):
                pass
            t["length"] = draw(st.sampled_from([None, 1]))
    t["char_enc"] = draw(st.sampled_from([None, None, None, "ASCII", "UTF-8", "ISO-8859-1"]))
    t["offset"] = None
    if t["presence"] == "required" and draw(st.integers(0, 3)) == 0:
        t["_explicit_presence"] = True    # presence="required" spelled out
    _common_attrs(draw, t, opts)
    return t


def gen_enum(draw, name, opts, types_by_name):
    e = {"kind": "enum", "name": name}
    # encoding: a primitive (char or integer) or a public length-1 non-const type of such a primitive
    via = [n for n, t in types_by_name.items() if t["kind"] == "type" and t["presence"] != "constant"
           and (t["length"] in (None, 1)) and PRIMS[t["prim"]][1] != "f"]
    if via and draw(st.integers(0, 3)) == 0:
        e["enc"] = draw(st.sampled_from(sorted(via)))
        prim = types_by_name[e["enc"]]["prim"]
    else:
        e["enc"] = draw(st.sampled_from(["char"] + INT_PRIMS))
        prim = e["enc"]
    e["prim"] = prim
    n = draw(st.integers(0, 4))
    used = set()
    vals = []
    seen_vals = set()
    for _ in range(n):
        vn = _names(draw, used, related=[name])
        if prim == "char":
            cands = [ch for ch in "ABCxyz019" if ch not in seen_vals]
            v = draw(st.sampled_from(cands))
        else:
            lo, hi = prim_range(prim)
            cand = [c for c in sorted({lo, hi, 0, 1, 2, 3, 10, -1, hi - 1, lo + 1}) if lo <= c <= hi and str(c) not in seen_vals]
            v = str(draw(st.sampled_from(cand)))
        seen_vals.add(v)
        vv = {"name": vn, "value": v}
        _common_attrs(draw, vv, opts, allow_semantic=False)
        vals.append(vv)
    e["values"] = vals
    e["offset"] = None
    _common_attrs(draw, e, opts, allow_semantic=False)
    return e


def gen_set(draw, name, opts, types_by_name):
    s = {"kind": "set", "name": name}
    via = [n for n, t in types_by_name.items() if t["kind"] == "type" and t["presence"] != "constant"
           and (t["length"] in (None, 1)) and t["prim"] in UNSIGNED]
    if via and draw(st.integers(0, 3)) == 0:
        s["enc"] = draw(st.sampled_from(sorted(via)))
        prim = types_by_name[s["enc"]]["prim"]
    else:
        s["enc"] = draw(st.sampled_from(UNSIGNED))
        prim = s["enc"]
    s["prim"] = prim
    width = PRIMS[prim][0] * 8
    n = draw(st.integers(0, 4))
    used = set()
    idxs = set()
    choices = []
    for _ in range(n):
        cn = _names(draw, used, related=[name])
        cand = [i for i in sorted({0, 1, 2, 7, width - 1, width - 2, width // 2, 31 if width > 31 else 3, 32 if width > 32 else 4}) if i < width and i not in idxs]
        i = draw(st.sampled_from(cand))
        idxs.add(i)
        ch = {"name": cn, "index": i}
        _common_attrs(draw, ch, opts, allow_semantic=False)
        choices.append(ch)
    s["choices"] = choices
    s["offset"] = None
    _common_attrs(draw, s, opts, allow_semantic=False)
    return s


def _is_const_elem(el, types_by_name):
    if el["kind"] == "type":
        return el["presence"] == "constant"
    if el["kind"] == "ref":
        tgt = types_by_name[el["type"].lower()]
        return tgt["kind"] == "type" and tgt["presence"] == "constant"
    return False


def elem_size(el, types_by_name):
    k = el["kind"]
    if k == "type":
        if el["presence"] == "constant":
            # sbeppc gives constants a size too (length * prim) but they occupy no space in a composite
            pass
        ln = el["length"] if el["length"] is not None else 1
        if el["presence"] == "constant" and el["prim"] == "char" and el["length"] is None and el["const"] is not None and el["value_ref"] is None:
            ln = len(el["const"])
        return ln * PRIMS[el["prim"]][0]
    if k in ("enum", "set"):
        return PRIMS[el["prim"]][0]
    if k == "ref":
        return elem_size(types_by_name[el["type"].lower()], types_by_name)
    if k == "composite":
        return composite_size(el, types_by_name)
    raise ValueError(k)


def composite_size(c, types_by_name):
    off = 0
    for el in c["elements"]:
        if _is_const_elem(el, types_by_name):
            continue
        if el.get("offset") is not None:
            off = el["offset"]
        off += elem_size(el, types_by_name)
    return off


def gen_composite(draw, name, opts, types_by_name, depth=0, required=None):
    """required: list of (name, type-dict-factory) members that must exist (level headers)"""
    c = {"kind": "composite", "name": name, "elements": []}
    used = set()
    n = draw(st.integers(0, 4 if depth == 0 else 2))
    off = 0
    for _ in range(n):
        en = _names(draw, used, related=[name] + [e_["name"] for e_ in c["elements"]][:2])
        kinds = ["type"] * 4 + ["enum", "set"]
        if depth < 2:
            kinds.append("composite")
        refable = sorted(n2 for n2, t in types_by_name.items())
        if refable:
            kinds += ["ref"] * 2
        k = draw(st.sampled_from(kinds))
        if k == "type":
            el = gen_type(draw, en, opts, types_by_name=types_by_name)
        elif k == "enum":
            el = gen_enum(draw, en, opts, types_by_name)
        elif k == "set":
            el = gen_set(draw, en, opts, types_by_name)
        elif k == "composite":
            el = gen_composite(draw, en, opts, types_by_name, depth + 1)
        else:
            consts_ = [n2 for n2 in refable if types_by_name[n2]["kind"] == "type" and types_by_name[n2]["presence"] == "constant"]
            tgt = draw(st.sampled_from(consts_)) if (consts_ and draw(st.integers(0, 3)) == 0) else draw(st.sampled_from(refable))
            tname = types_by_name[tgt]["name"]
            if draw(st.integers(0, 4)) == 0:
                tname = tname.swapcase()  # lookup is case-insensitive
            el = {"kind": "ref", "name": en, "type": tname, "offset": None}
            _common_attrs(draw, el, opts, allow_semantic=False)
        if not _is_const_elem(el, types_by_name) and draw(st.integers(0, 3)) == 0:
            el["offset"] = off + draw(st.sampled_from([0, 1, 3, 8]))
        if _is_const_elem(el, types_by_name) and draw(st.integers(0, 2)) == 0:
            # an `offset` attribute on a constant breaks no rule and has no effect: constants are not in the layout
            el["offset"] = draw(st.sampled_from([0, 1, off, off + 5, 16, 1000]))
        if not _is_const_elem(el, types_by_name):
            if el.get("offset") is not None:
                off = el["offset"]
            off += elem_size(el, types_by_name)
        c["elements"].append(el)
    c["offset"] = None
    _common_attrs(draw, c, opts)
    return c


def _uint_for(draw, maxval, signed_ok=False):
    cands = [p for p in (INT_PRIMS if signed_ok else UNSIGNED) if prim_range(p)[1] >= maxval]
    return draw(st.sampled_from(cands))


def gen_level_header(draw, name, opts, types_by_name, required, extras_pool):
    """composite with the required members (name -> min max value it has to hold, signed_ok) in random order,
    at custom offsets, with extra members, inline or ref-typed."""
    c = {"kind": "composite", "name": name, "elements": []}
    items = []
    for rn, (maxv, signed_ok) in required.items():
        items.append(("req", rn, maxv, signed_ok))
    for en in extras_pool:
        if draw(st.integers(0, 2)) == 0:
            items.append(("extra", en, 0, True))
    items = draw(st.permutations(items))
    off = 0
    for kind, en, maxv, signed_ok in items:
        if kind == "req" or en in ("numGroups", "numVarDataFields"):
            prim = _uint_for(draw, maxv, signed_ok)
            # ref to a public type of exactly that primitive (non-const, length 1) if one exists
            refs = sorted(n2 for n2, t in types_by_name.items() if t["kind"] == "type" and t["presence"] != "constant"
                          and t["length"] in (None, 1) and t["prim"] in (INT_PRIMS if signed_ok else UNSIGNED)
                          and prim_range(t["prim"])[1] >= maxv)
            if refs and draw(st.integers(0, 3)) == 0:
                tgt = types_by_name[draw(st.sampled_from(refs))]
                el = {"kind": "ref", "name": en, "type": tgt["name"], "offset": None, "description": None, "since": None, "deprecated": None}
            else:
                el = {"kind": "type", "name": en, "prim": prim, "length": draw(st.sampled_from([None, None, 1])),
                      "presence": draw(st.sampled_from(["required"] * 4 + ["optional"])),
                      "min": None, "max": None, "null": None, "const": None, "value_ref": None, "char_enc": None, "offset": None,
                      "description": None, "since": None, "deprecated": None, "semantic_type": None}
        else:
            el = gen_type(draw, en, opts, allow_const=True, allow_array=True, types_by_name=types_by_name)
        if not _is_const_elem(el, types_by_name) and draw(st.integers(0, 4)) == 0:
            el["offset"] = off + draw(st.sampled_from([0, 1, 2, 5]))
        if _is_const_elem(el, types_by_name) and draw(st.integers(0, 2)) == 0:
            el["offset"] = draw(st.sampled_from([0, 1, off, off + 3, 64]))
        if not _is_const_elem(el, types_by_name):
            if el.get("offset") is not None:
                off = el["offset"]
            off += elem_size(el, types_by_name)
        c["elements"].append(el)
    c["offset"] = None
    c["description"] = None
    c["since"] = None
    c["deprecated"] = None
    c["semantic_type"] = None
    return c


def field_size(f, types_by_name):
    if f["type"] in PRIMS:
        return PRIMS[f["type"]][0]
    return elem_size(types_by_name[f["type"].lower()], types_by_name)


def field_is_const(f, types_by_name):
    if f["type"] in PRIMS:
        return f["presence"] == "constant"
    t = types_by_name[f["type"].lower()]
    if t["kind"] == "type":
        return t["presence"] == "constant"
    if t["kind"] == "enum":
        return f["presence"] == "constant"
    return False


def gen_fields(draw, opts, types_by_name, used, max_fields, const_only=False, related=()):
    fields = []
    off = 0
    n = draw(st.sampled_from([0, 1] + list(range(1, max_fields + 1)) * 2))
    if const_only:
        n = max(1, min(n, 2))
    enum_values = [(t, v) for t in types_by_name.values() if t["kind"] == "enum" for v in t["values"]]
    # where the constants sit matters to the generator (the "last field" of a block gets special cursor accessors): make
    # levels that begin and/or end with a constant (through its type, or a field-level constant) frequent
    ends = draw(st.sampled_from(["any", "any", "any", "const_last", "const_last", "const_first", "const_both"]))
    for i_ in range(n):
        fn = _names(draw, used, related=list(related))
        f = {"name": fn, "id": draw(st.sampled_from([0, 1, 2, 3, 100, 65535])), "offset": None, "presence": "required", "value_ref": None}
        choice = draw(st.sampled_from(["prim"] * 3 + (["public"] * 5 if types_by_name else []) + (["primconst"] if enum_values else [])))
        const_types = sorted(n2 for n2, t2 in types_by_name.items() if t2["kind"] == "type" and t2["presence"] == "constant")
        if const_only:
            if not const_types and not enum_values:
                break
            choice = draw(st.sampled_from((["consttype"] * 2 if const_types else []) + (["primconst"] if enum_values else [])))
        elif n >= 2 and (const_types or enum_values) and (
                (i_ == n - 1 and ends in ("const_last", "const_both")) or (i_ == 0 and ends in ("const_first", "const_both"))):
            choice = draw(st.sampled_from((["consttype"] * 2 if const_types else []) + (["primconst"] if enum_values else [])))
        if choice == "prim":
            f["type"] = draw(st.sampled_from(list(PRIMS)))
            f["presence"] = draw(st.sampled_from(["required", "required", "optional"]))
        elif choice == "consttype":
            t = types_by_name[draw(st.sampled_from(const_types))]
            f["type"] = t["name"]
            # constant through its type only: no presence attribute on the field
        elif choice == "primconst":
            # constant field over a primitive type with valueRef to an enum value that fits
            t, v = draw(st.sampled_from(enum_values))
            if t["prim"] == "char":
                num = ord(v["value"])
            else:
                num = int(v["value"])
            fits = [p for p in ["char"] + INT_PRIMS if (0 <= num <= 127 if p == "char" else prim_range(p)[0] <= num <= prim_range(p)[1])]
            f["type"] = draw(st.sampled_from(fits))
            f["presence"] = "constant"
            f["value_ref"] = "%s.%s" % (_refcase(draw, t["name"]), v["name"])
        else:
            tn = draw(st.sampled_from(sorted(types_by_name)))
            t = types_by_name[tn]
            f["type"] = t["name"] if draw(st.integers(0, 5)) else t["name"].swapcase()
            f["presence"] = draw(st.sampled_from(["required", "required", "optional"]))
            if t["kind"] == "enum" and t["values"] and draw(st.integers(0, 3)) == 0:
                v = draw(st.sampled_from(t["values"]))
                f["presence"] = "constant"
                f["value_ref"] = "%s.%s" % (_refcase(draw, t["name"]), v["name"])
        if not field_is_const(f, types_by_name):
            if draw(st.integers(0, 3)) == 0:
                f["offset"] = off + draw(st.sampled_from([0, 1, 2, 4, 9]))
                off = f["offset"]
            off += field_size(f, types_by_name)
            if f["presence"] == "required" and draw(st.integers(0, 5)) == 0:
                f["_explicit_presence"] = True
        elif draw(st.integers(0, 2)) == 0:
            f["offset"] = draw(st.sampled_from([0, 1, off, off + 7, 500]))   # ignored: a constant field is not in the block
        _common_attrs(draw, f, opts, allow_semantic=False)
        fields.append(f)
    return fields, off


def gen_level(draw, opts, ctx, depth, is_message, path=()):
    types_by_name = ctx["types"]
    used = set()
    lvl = {}
    const_only = (not is_message) and draw(st.integers(0, 9)) == 0
    lvl["fields"], min_bl = gen_fields(draw, opts, types_by_name, used, 8 if is_message else 4, const_only=const_only, related=path[-2:])
    lvl["min_block_length"] = min_bl
    lvl["block_length"] = None
    if draw(st.integers(0, 3)) == 0:
        lvl["block_length"] = min_bl + draw(st.sampled_from([0, 0, 1, 3, 16]))
    lvl["groups"] = []
    lvl["data"] = []
    ngroups = draw(st.sampled_from([0, 1, 1, 2, 2, 3] if depth == 0 else [0, 0, 1, 2, 3] if depth == 1 else [0, 0, 1])) if depth < 3 and ctx["dims"] else 0
    for _ in range(ngroups):
        # names that collide after concatenation of group paths (`a` > `b` vs. a sibling `a_b`): the trait size_bytes
        # parameter names are built that way
        concat = [x["name"] + "_" + y["name"] for x in lvl["groups"] for y in x["groups"]]
        concat = [n for n in concat if n not in used]
        if concat and draw(st.integers(0, 2)) == 0:
            gname = draw(st.sampled_from(concat))
            used.add(gname)
        else:
            gname = _names(draw, used, related=list(path[-2:]) + [x["name"] for x in lvl["groups"]][:2])
        g = {"name": gname, "id": draw(st.sampled_from([1, 2, 10, 65535]))}
        g.update(gen_level(draw, opts, ctx, depth + 1, False, tuple(path) + (g["name"],)))
        fit = [dn for dn in ctx["dims"] if header_member_max(types_by_name[dn.lower()], "blockLength", types_by_name) >= max_block_length(g)]
        if not fit:
            # cannot happen with the size bounds of this generator (first dimension holds 65535)
            g["fields"], g["min_block_length"], g["block_length"] = [], 0, None
            fit = ctx["dims"]
        g["dimension_type"] = _refcase(draw, draw(st.sampled_from(fit)))
        _common_attrs(draw, g, opts)
        lvl["groups"].append(g)
    ndata = draw(st.sampled_from([0, 0, 1, 1, 2])) if ctx["datas"] else 0
    for _ in range(ndata):
        d = {"name": _names(draw, used, related=list(path[-1:])), "id": draw(st.sampled_from([1, 5, 20])), "type": _refcase(draw, draw(st.sampled_from(ctx["datas"])))}
        _common_attrs(draw, d, opts, allow_semantic=False)
        lvl["data"].append(d)
    return lvl


def header_member_max(c, member, types_by_name):
    for el in c["elements"]:
        if el["name"] == member:
            t = el if el["kind"] == "type" else types_by_name[el["type"].lower()]
            return prim_range(t["prim"])[1]
    raise KeyError(member)


def max_block_length(level):
    m = level["block_length"] if level["block_length"] is not None else level["min_block_length"]
    return m


def _collect_levels(level, acc):
    acc.append(level)
    for g in level["groups"]:
        _collect_levels(g, acc)


@st.composite
def schemas(draw, special_text=False, odd_literals=False, max_messages=3, allow_include=True, allow_options=True):
    opts = {"special_text": special_text, "odd_literals": odd_literals}
    sch = {"package": draw(st.sampled_from(["pk", "Pkg_1", "s", "schema_name", "my_schema2"])),
           "schema_name": None,
           "id": draw(st.sampled_from([0, 1, 7, 255, 256, 65535, 65535, 65536, 100001, 4294967295])),
           "version": draw(st.sampled_from([0, 1, 5, 255, 65535])),
           "semantic_version": draw(st.sampled_from([None, "5.2", "1.0.0-rc1"])),
           "description": _text(draw, special_text) if draw(st.integers(0, 3)) == 0 else None,
           "byte_order": draw(st.sampled_from(["littleEndian", "bigEndian", None]))}
    if allow_options and draw(st.integers(0, 3)) == 0:
        # `--schema-name NAME`: the namespace / directory name comes from the command line, the package attribute is then free
        # text (SBE puts no C++ constraints on it and allows it to be absent; doc/sbeppc.md)
        sch["schema_name"] = draw(st.sampled_from(["ns1", "Custom_Name", "pk", "x", "types", "messages", "schema", "sbepp_x", "detail"]))
        sch["package"] = draw(st.sampled_from([None, "", "com.example.sbe", "my-pkg 1", "class", "std", "1abc", "pk", "a::b", "Pkg_1"]))
    if allow_options and draw(st.integers(0, 7)) == 0:
        # `--inject-include PATH` puts `#include "PATH"` at the top of schema/schema.hpp; a standard header keeps every
        # compile command of the harness independent of include paths
        sch["inject_include"] = draw(st.sampled_from(["climits", "cstddef"]))
    types = {}      # lower-case name -> encoding (insertion order = declaration order)
    used = set()    # lower-cased public type names
    # 1. simple public types
    for _ in range(draw(st.integers(0, 4))):
        n = _names(draw, used, lower=True, related=[t_["name"] for t_ in list(types.values())[-3:]])
        types[n.lower()] = gen_type(draw, n, opts)
    # 2. enums / sets
    for _ in range(draw(st.integers(0, 3))):
        n = _names(draw, used, lower=True, related=[t_["name"] for t_ in list(types.values())[-3:]])
        if draw(st.booleans()):
            types[n.lower()] = gen_enum(draw, n, opts, types)
        else:
            types[n.lower()] = gen_set(draw, n, opts, types)
    # 2b. public constants given by valueRef
    if _enum_values(types):
        for _ in range(draw(st.sampled_from([0, 1, 1, 2]))):
            n = _names(draw, used, lower=True, related=[t_["name"] for t_ in list(types.values())[-3:]])
            types[n.lower()] = gen_type(draw, n, opts, force="const", types_by_name=types)
    # 3. composites
    for _ in range(draw(st.integers(0, 3))):
        n = _names(draw, used, lower=True, related=[t_["name"] for t_ in list(types.values())[-3:]])
        types[n.lower()] = gen_composite(draw, n, opts, types)
    # 4. group dimension and data encodings (names from the pool as well, with the standard names preferred)
    dims, datas = [], []
    for i in range(draw(st.sampled_from([0, 1, 1, 1, 2, 2]))):
        cands = ["groupSizeEncoding"] if "groupsizeencoding" not in used and i == 0 and draw(st.integers(0, 2)) else None
        n = cands[0] if cands else _names(draw, used, lower=True, related=[t_["name"] for t_ in list(types.values())[-3:]])
        used.add(n.lower())
        req = {"blockLength": (65535 if i == 0 else draw(st.sampled_from([255, 255, 65535])), False), "numInGroup": (draw(st.sampled_from([6, 255])), False)}
        types[n.lower()] = gen_level_header(draw, n, opts, types, req, ["numGroups", "numVarDataFields", "pad"])
        dims.append(n)
    for i in range(draw(st.sampled_from([0, 1, 1, 1, 2]))):
        cands = ["varDataEncoding"] if "vardataencoding" not in used and i == 0 and draw(st.integers(0, 2)) else None
        n = cands[0] if cands else _names(draw, used, lower=True, related=[t_["name"] for t_ in list(types.values())[-3:]])
        used.add(n.lower())
        lp = draw(st.sampled_from(UNSIGNED))
        c = {"kind": "composite", "name": n, "offset": None, "description": None, "since": None, "deprecated": None, "semantic_type": None,
             "elements": [
                 {"kind": "type", "name": "length", "prim": lp, "length": None, "presence": "required", "min": None, "max": None, "null": None,
                  "const": None, "value_ref": None, "char_enc": None, "offset": None, "description": None, "since": None, "deprecated": None, "semantic_type": None},
                 {"kind": "type", "name": "varData", "prim": draw(st.sampled_from(["char", "uint8", "int8"])), "length": 0, "presence": "required",
                  "min": None, "max": None, "null": None, "const": None, "value_ref": None,
                  "char_enc": draw(st.sampled_from([None, "UTF-8"])), "offset": None, "description": None, "since": None, "deprecated": None, "semantic_type": None}]}
        types[n.lower()] = c
        datas.append(n)
    ctx = {"types": types, "dims": dims, "datas": datas}
    # 5. messages (need the block lengths before the header's blockLength type can be chosen)
    msgs = []
    mused = set()
    ids = set()
    for _ in range(draw(st.sampled_from([0] + list(range(1, max_messages + 1)) * 3))):
        m = {"name": _names(draw, mused, related=[t_["name"] for t_ in list(types.values())[:3]] + [m_["name"] for m_ in msgs][:1])}
        idc = [i for i in [0, 1, 2, 3, 127, 255, 256, 65535, 65536, 100001, 4294967295] if i not in ids]
        m["id"] = draw(st.sampled_from(idc))
        ids.add(m["id"])
        m.update(gen_level(draw, opts, ctx, 0, True, (m["name"],)))
        _common_attrs(draw, m, opts)
        msgs.append(m)
    sch["messages"] = msgs
    # 6. message header
    hname = "messageHeader"
    custom_header = draw(st.integers(0, 3)) == 0
    if custom_header or "messageheader" in used:
        hname = _names(draw, used, lower=True, related=[t_["name"] for t_ in list(types.values())[-3:]])
    used.add(hname.lower())
    max_bl = max([max_block_length(m) for m in msgs] + [0])
    max_id = max([m["id"] for m in msgs] + [0])
    req = {"blockLength": (max_bl, False), "templateId": (max_id, True), "schemaId": (sch["id"], True), "version": (sch["version"], True)}
    types[hname.lower()] = gen_level_header(draw, hname, opts, types, req, ["numGroups", "numVarDataFields", "reserved"])
    sch["header_type"] = hname if (custom_header or hname != "messageHeader") else None
    if sch["header_type"] is None and draw(st.integers(0, 4)) == 0:
        sch["header_type"] = "messageHeader"
    if sch["header_type"] is not None:
        sch["header_type"] = _refcase(draw, sch["header_type"])
    # an `offset` attribute on a public type has no effect on the layout of anything that refers to it
    for t_ in types.values():
        if t_.get("offset") is None and draw(st.integers(0, 7)) == 0:
            t_["offset"] = draw(st.sampled_from([0, 1, 4, 9, 100]))
    # declaration order of public types: shuffled (sbeppc resolves by name)
    order = draw(st.permutations(list(types)))
    sch["types"] = [types[k] for k in order]
    # physical layout of the file: several <types> blocks, one of them after the messages, types in an included
    # fragment, message elements with or without the namespace prefix
    if draw(st.integers(0, 2)) == 0:
        n = len(sch["types"])
        lay = {"included": 0, "blocks": [], "tail_block": False, "plain_message": draw(st.booleans()), "file": "inc_layout.xml"}
        if allow_include and n >= 2 and draw(st.integers(0, 2)) == 0:
            lay["included"] = draw(st.integers(1, min(3, n - 1)))
        rest = n - lay["included"]
        if rest >= 2 and draw(st.booleans()):
            a = draw(st.integers(1, rest - 1))
            lay["blocks"] = [a]
            lay["tail_block"] = draw(st.booleans())
        sch["layout"] = lay
    return sch


# --------------------------------------------------------------------------
# XML rendering

def _a(name, value):
    if value is None:
        return ""
    return " %s=%s" % (name, quoteattr(str(value)))


def _common_xml(d, with_semantic=True):
    s = _a("description", d.get("description")) + _a("sinceVersion", d.get("since")) + _a("deprecated", d.get("deprecated"))
    if with_semantic:
        s += _a("semanticType", d.get("semantic_type"))
    return s


def enc_xml(e, ind):
    k = e["kind"]
    pad = "  " * ind
    if k == "type":
        s = pad + "<type" + _a("name", e["name"]) + _a("primitiveType", e["prim"])
        if e["presence"] != "required" or (e.get("_explicit_presence")):
            s += _a("presence", e["presence"])
        s += _a("length", e["length"]) + _a("offset", e.get("offset")) + _a("minValue", e["min"]) + _a("maxValue", e["max"])
        s += _a("nullValue", e["null"]) + _a("valueRef", e.get("value_ref")) + _a("characterEncoding", e.get("char_enc")) + _common_xml(e)
        if e["const"] is not None:
            return s + ">" + escape(e["const"]) + "</type>\n"
        return s + "/>\n"
    if k == "enum":
        s = pad + "<enum" + _a("name", e["name"]) + _a("encodingType", e["enc"]) + _a("offset", e.get("offset")) + _common_xml(e, False) + ">\n"
        for v in e["values"]:
            s += pad + "  <validValue" + _a("name", v["name"]) + _common_xml(v, False) + ">" + escape(v["value"]) + "</validValue>\n"
        return s + pad + "</enum>\n"
    if k == "set":
        s = pad + "<set" + _a("name", e["name"]) + _a("encodingType", e["enc"]) + _a("offset", e.get("offset")) + _common_xml(e, False) + ">\n"
        for c in e["choices"]:
            s += pad + "  <choice" + _a("name", c["name"]) + _common_xml(c, False) + ">" + str(c["index"]) + "</choice>\n"
        return s + pad + "</set>\n"
    if k == "ref":
        return pad + "<ref" + _a("name", e["name"]) + _a("type", e["type"]) + _a("offset", e.get("offset")) + _common_xml(e, False) + "/>\n"
    if k == "composite":
        s = pad + "<composite" + _a("name", e["name"]) + _a("offset", e.get("offset")) + _common_xml(e) + ">\n"
        for el in e["elements"]:
            s += enc_xml(el, ind + 1)
        return s + pad + "</composite>\n"
    raise ValueError(k)


def level_xml(lvl, ind):
    pad = "  " * ind
    s = ""
    if lvl.get("_order") == "bad":
        # rule-breaking member order (C08 edit): everything that follows the fields is emitted first
        l2 = dict(lvl)
        l2["_order"] = None
        l2["fields"] = []
        l3 = dict(lvl)
        l3["_order"] = None
        l3["groups"] = []
        l3["data"] = []
        return level_xml(l2, ind) + level_xml(l3, ind)
    for f in lvl["fields"]:
        s += pad + "<field" + _a("name", f["name"]) + _a("id", f["id"]) + _a("type", f["type"]) + _a("offset", f["offset"])
        if f["presence"] != "required" or f.get("_explicit_presence"):
            s += _a("presence", f["presence"])
        s += _a("valueRef", f["value_ref"]) + _common_xml(f, False) + "/>\n"
    for g in lvl["groups"]:
        s += pad + "<group" + _a("name", g["name"]) + _a("id", g["id"]) + _a("dimensionType", g["dimension_type"] if g["dimension_type"] != "groupSizeEncoding" or g["id"] % 2 else None)
        s += _a("blockLength", g["block_length"]) + _common_xml(g) + ">\n" + level_xml(g, ind + 1) + pad + "</group>\n"
    for d in lvl["data"]:
        s += pad + "<data" + _a("name", d["name"]) + _a("id", d["id"]) + _a("type", d["type"]) + _common_xml(d, False) + "/>\n"
    return s


def ns(sch):
    """the schema's C++ namespace / directory name: `--schema-name` if given, else the package"""
    return sch.get("schema_name") or sch["package"]


ARGS_MARKER = "<!-- sbeppc-args:"


def sbeppc_args(sch):
    a = ["--schema-name", sch["schema_name"]] if sch.get("schema_name") else []
    if sch.get("inject_include"):
        a += ["--inject-include", sch["inject_include"]]
    return a


def args_from_xml(xml_text):
    """command line options a schema file asks for (first lines: `<!-- sbeppc-args: a b c -->`); the schema travels with
    its options so that every call site and every replay file runs sbeppc the same way"""
    i = xml_text.find(ARGS_MARKER, 0, 400)
    if i < 0:
        return []
    j = xml_text.find("-->", i)
    return xml_text[i + len(ARGS_MARKER):j].split()


def to_xml(sch):
    s = '<?xml version="1.0" encoding="UTF-8"?>\n'
    if sbeppc_args(sch):
        s += "%s %s -->\n" % (ARGS_MARKER, " ".join(sbeppc_args(sch)))
    s += '<sbe:messageSchema xmlns:sbe="http://fixprotocol.io/2016/sbe"'
    s += _a("package", sch["package"]) + _a("id", sch["id"]) + _a("version", sch["version"]) + _a("semanticVersion", sch["semantic_version"])
    s += _a("description", sch["description"]) + _a("byteOrder", sch["byte_order"]) + _a("headerType", sch["header_type"]) + ">\n"
    lay = sch.get("layout") or {}
    types = list(sch["types"])
    k = min(lay.get("included", 0), len(types))
    local = types[:len(types) - k]
    # consecutive <types> blocks (SBE allows several; sbeppc merges them), the last one optionally after the messages
    blocks, pos = [], 0
    for n in lay.get("blocks") or []:
        blocks.append(local[pos:pos + n])
        pos += n
    blocks.append(local[pos:])
    tail = blocks.pop() if (lay.get("tail_block") and len(blocks) > 1) else None
    for b in blocks:
        s += "  <types>\n" + "".join(enc_xml(t, 2) for t in b) + "  </types>\n"
    if k:
        s += '  <xi:include xmlns:xi="http://www.w3.org/2001/XInclude" href=%s/>\n' % quoteattr(lay.get("file") or "inc_layout.xml")
    inc = sch.get("_include")
    if inc:
        # types externalised into an included file (file written next to the schema; href is resolved against the cwd)
        s += '  <xi:include xmlns:xi="http://www.w3.org/2001/XInclude" href=%s/>\n' % quoteattr(inc["file"])
    mtag = "message" if lay.get("plain_message") else "sbe:message"
    for m in sch["messages"]:
        s += "  <" + mtag + _a("name", m["name"]) + _a("id", m["id"]) + _a("blockLength", m["block_length"]) + _common_xml(m) + ">\n"
        s += level_xml(m, 2) + "  </" + mtag + ">\n"
    if tail is not None:
        s += "  <types>\n" + "".join(enc_xml(t, 2) for t in tail) + "  </types>\n"
    return s + "</sbe:messageSchema>\n"


def include_files(sch):
    """{file name: content} of every fragment the schema includes (layout includes and the C08 `_include` form)"""
    out = {}
    lay = sch.get("layout") or {}
    k = min(lay.get("included", 0), len(sch["types"]))
    if k:
        out[lay.get("file") or "inc_layout.xml"] = "<types>\n" + "".join(enc_xml(t, 1) for t in sch["types"][len(sch["types"]) - k:]) + "</types>\n"
    if sch.get("_include"):
        out[sch["_include"]["file"]] = include_file_xml(sch)
    return out


def write_schema(sch, d, name="schema.xml"):
    """write the schema and the fragments it includes into directory d (hrefs made absolute so that the working
    directory of sbeppc does not matter); returns the schema path.  Mutates sch['layout']['file']."""
    lay = sch.get("layout") or {}
    if lay.get("included"):
        lay["file"] = os.path.join(d, os.path.basename(lay.get("file") or "inc_layout.xml"))
    for fn, content in include_files(sch).items():
        with open(fn if os.path.isabs(fn) else os.path.join(d, fn), "w") as f:
            f.write(content)
    p = os.path.join(d, name)
    with open(p, "w") as f:
        f.write(to_xml(sch))
    return p


def include_file_xml(sch):
    """content of the included fragment (or None)"""
    inc = sch.get("_include")
    if not inc:
        return None
    return "<types>\n" + "".join(enc_xml(t, 1) for t in inc["types"]) + "</types>\n"


# --------------------------------------------------------------------------
# deterministic sampling helper

def sample_schemas(n, seed_value, **kw):
    """n schemas as (xml, model) pairs, a pure function of (n, seed_value, kw)."""
    out = []

    @hseed(seed_value)
    @settings(max_examples=n, database=None, deadline=None, phases=[Phase.generate],
              suppress_health_check=list(HealthCheck))
    @given(schemas(**kw))
    def collect(s):
        if len(out) < n:
            out.append(s)

    collect()
    res = []
    seen = set()
    for s in out:
        x = to_xml(s)
        if x in seen:
            continue
        seen.add(x)
        res.append((x, json.loads(json.dumps(s))))
    return res
