"""Reference model of SBE layout and wire encoding, written from the SBE rules
and the schema model only (shares nothing with sbeppc/sbepp).

Values are carried as raw unsigned bit patterns (ints) for scalars/enums/sets,
`bytes` for arrays and data, dicts for composites/levels.
"""
from vlib.schemagen import PRIMS, prim_range


class Member:
    """A resolved composite element or level field."""
    __slots__ = ("name", "kind", "prim", "size", "presence", "length", "decl", "target", "elements", "offset",
                 "const_value", "is_field", "via_ref", "public_name", "field")

    def __init__(self, **kw):
        for k in self.__slots__:
            setattr(self, k, kw.get(k))

    @property
    def is_const(self):
        return self.kind in ("const", "constenum")


class Level:
    __slots__ = ("decl", "name", "fields", "groups", "data", "block_length", "min_block_length", "dimension", "path", "is_message")

    def __init__(self, **kw):
        for k in self.__slots__:
            setattr(self, k, kw.get(k))


class DataMember:
    __slots__ = ("decl", "name", "encoding", "length_prim", "elem_prim", "length_offset", "header_size")

    def __init__(self, **kw):
        for k in self.__slots__:
            setattr(self, k, kw.get(k))


def const_numeric_bits(text, prim):
    """raw bits of a numeric constant literal of a primitive type"""
    import struct
    size, kind = PRIMS[prim]
    if kind == "f":
        t = text
        v = float("nan") if t == "NaN" else float("inf") if t in ("INF", "+INF") else float("-inf") if t == "-INF" else float(t)
        if size == 4:
            return struct.unpack("<I", struct.pack("<f", v))[0]
        return struct.unpack("<Q", struct.pack("<d", v))[0]
    v = int(text)
    return v & (2 ** (8 * size) - 1)


class Model:
    def __init__(self, sch):
        self.sch = sch
        self.big = sch.get("byte_order") == "bigEndian"
        self.types = {t["name"].lower(): t for t in sch["types"]}
        self.header = self.composite(self.types[(sch.get("header_type") or "messageHeader").lower()])
        self.messages = [self.level(m, None, (m["name"],), True) for m in sch["messages"]]

    # ---------------------------------------------------------------- types
    def type_length(self, t):
        if t["presence"] == "constant" and t["prim"] == "char" and t["length"] is None and t.get("value_ref") is None:
            return len(t["const"])
        return 1 if t["length"] is None else t["length"]

    def resolve(self, el, name=None):
        """composite element / public encoding -> Member (offset not set)"""
        decl = el
        via_ref = False
        if el["kind"] == "ref":
            tgt = self.types[el["type"].lower()]
            via_ref = True
        else:
            tgt = el
        name = name or el["name"]
        k = tgt["kind"]
        public_name = tgt["name"] if (via_ref or tgt is self.types.get(tgt["name"].lower())) else None
        if k == "type":
            ln = self.type_length(tgt)
            psize = PRIMS[tgt["prim"]][0]
            if tgt["presence"] == "constant":
                cv = self.const_value(tgt)
                return Member(name=name, kind="const", prim=tgt["prim"], size=0, presence="constant", length=ln, decl=decl,
                              target=tgt, const_value=cv, via_ref=via_ref, public_name=public_name)
            if ln != 1:
                return Member(name=name, kind="array", prim=tgt["prim"], size=ln * psize, presence=tgt["presence"], length=ln,
                              decl=decl, target=tgt, via_ref=via_ref, public_name=public_name)
            return Member(name=name, kind="scalar", prim=tgt["prim"], size=psize, presence=tgt["presence"], length=1, decl=decl,
                          target=tgt, via_ref=via_ref, public_name=public_name)
        if k in ("enum", "set"):
            return Member(name=name, kind=k, prim=tgt["prim"], size=PRIMS[tgt["prim"]][0], presence="required", length=1, decl=decl,
                          target=tgt, via_ref=via_ref, public_name=public_name)
        if k == "composite":
            c = self.composite(tgt)
            c.name = name
            c.decl = decl
            c.via_ref = via_ref
            c.public_name = public_name
            return c
        raise ValueError(k)

    def const_value(self, t):
        """('num', bits) | ('str', bytes padded to length)"""
        if t.get("value_ref"):
            en, vn = t["value_ref"].split(".")
            e = self.types[en.lower()]
            v = [x for x in e["values"] if x["name"] == vn][0]
            num = ord(v["value"]) if e["prim"] == "char" else int(v["value"])
            return ("num", num & (2 ** (8 * PRIMS[t["prim"]][0]) - 1))
        if t["prim"] == "char":
            ln = self.type_length(t)
            s = t["const"].encode("utf-8")
            if len(t["const"]) > 1 or ln > 1:
                return ("str", s + b"\0" * (ln - len(s)))
            return ("num", s[0])
        return ("num", const_numeric_bits(t["const"], t["prim"]))

    def composite(self, c):
        m = Member(name=c["name"], kind="composite", decl=c, target=c, presence="required", length=1, elements=[])
        off = 0
        for el in c["elements"]:
            r = self.resolve(el)
            if r.is_const:
                r.offset = None
            else:
                if el.get("offset") is not None:
                    off = el["offset"]
                r.offset = off
                off += r.size
            m.elements.append(r)
        m.size = off
        m.public_name = c["name"] if self.types.get(c["name"].lower()) is c else None
        return m

    def member(self, comp, name):
        for e in comp.elements:
            if e.name == name:
                return e
        return None

    # --------------------------------------------------------------- levels
    def field(self, f):
        ty = f["type"]
        if ty in PRIMS:
            if f["presence"] == "constant":
                en, vn = f["value_ref"].split(".")
                e = self.types[en.lower()]
                v = [x for x in e["values"] if x["name"] == vn][0]
                num = ord(v["value"]) if e["prim"] == "char" else int(v["value"])
                m = Member(name=f["name"], kind="const", prim=ty, size=0, presence="constant", length=1, decl=f, target=None,
                           const_value=("num", num & (2 ** (8 * PRIMS[ty][0]) - 1)))
            else:
                m = Member(name=f["name"], kind="scalar", prim=ty, size=PRIMS[ty][0], presence=f["presence"], length=1, decl=f, target=None)
        else:
            tgt = self.types[ty.lower()]
            m = self.resolve(tgt, name=f["name"])
            m.public_name = tgt["name"]
            m.decl = f
            if tgt["kind"] == "enum" and f["presence"] == "constant":
                en, vn = f["value_ref"].split(".")
                v = [x for x in tgt["values"] if x["name"] == vn][0]
                num = ord(v["value"]) if tgt["prim"] == "char" else int(v["value"])
                m.kind = "constenum"
                m.size = 0
                m.presence = "constant"
                m.const_value = ("num", num & (2 ** (8 * PRIMS[tgt["prim"]][0]) - 1))
            elif tgt["kind"] == "composite":
                m.presence = f["presence"]
        m.is_field = True
        m.field = f
        return m

    def level(self, lv, dimension, path, is_message):
        L = Level(decl=lv, name=lv["name"], fields=[], groups=[], data=[], path=path, is_message=is_message)
        off = 0
        for f in lv["fields"]:
            m = self.field(f)
            if m.is_const:
                m.offset = None
            else:
                if f.get("offset") is not None:
                    off = f["offset"]
                m.offset = off
                off += m.size
            L.fields.append(m)
        L.min_block_length = off
        L.block_length = lv["block_length"] if lv.get("block_length") is not None else off
        if dimension is not None:
            L.dimension = self.composite(self.types[dimension.lower()])
        for g in lv["groups"]:
            L.groups.append(self.level(g, g["dimension_type"], path + (g["name"],), False))
        for d in lv["data"]:
            enc = self.composite(self.types[d["type"].lower()])
            ln = self.member(enc, "length")
            vd = self.member(enc, "varData")
            L.data.append(DataMember(decl=d, name=d["name"], encoding=enc, length_prim=ln.prim, elem_prim=vd.prim,
                                     length_offset=ln.offset, header_size=enc.size))
        return L

    # ------------------------------------------------------------- encoding
    def pack(self, bits, size):
        return int(bits & (2 ** (8 * size) - 1)).to_bytes(size, "big" if self.big else "little")

    def unpack(self, b):
        return int.from_bytes(b, "big" if self.big else "little")

    def put_member(self, buf, base, m, value):
        """write one non-const member value at base+offset into bytearray buf"""
        if m.kind in ("scalar", "enum", "set"):
            buf[base + m.offset: base + m.offset + m.size] = self.pack(value, m.size)
        elif m.kind == "array":
            assert len(value) == m.size, (m.name, len(value), m.size)
            buf[base + m.offset: base + m.offset + m.size] = value
        elif m.kind == "composite":
            for e in m.elements:
                if not e.is_const and e.name in value:
                    self.put_member(buf, base + m.offset, e, value[e.name])
        else:
            raise ValueError(m.kind)

    def header_values(self, L, msg=None, num_in_group=None):
        """values fill_message_header / fill_group_header write: {member name: bits}"""
        if L.is_message:
            v = {"schemaId": self.sch["id"], "templateId": L.decl["id"], "version": self.sch["version"], "blockLength": L.block_length}
            comp = self.header
        else:
            v = {"blockLength": L.block_length, "numInGroup": num_in_group}
            comp = L.dimension
        if self.member(comp, "numGroups") is not None:
            v["numGroups"] = len(L.groups)
        if self.member(comp, "numVarDataFields") is not None:
            v["numVarDataFields"] = len(L.data)
        return v

    def write_header(self, buf, base, comp, values):
        for n, val in values.items():
            m = self.member(comp, n)
            if m is not None and not m.is_const:
                self.put_member(buf, base, m, val)

    def level_size(self, L, vals):
        """wire size of the members of a level instance (block + groups + data), using its own inflation"""
        bl = L.block_length + vals.get("extra", 0)
        n = bl
        for g in L.groups:
            n += self.group_size(g, vals["groups"][g.name])
        for d in L.data:
            n += d.header_size + len(vals["data"][d.name])
        return n

    def group_size(self, g, gv):
        n = g.dimension.size
        for e in gv["entries"]:
            ev = dict(e)
            ev["extra"] = gv.get("extra", 0)
            n += self.level_size(g, ev)
        return n

    def message_size(self, L, vals):
        return self.header.size + self.level_size(L, vals)

    def encode_level(self, buf, pos, L, vals, extra):
        """encode fields/groups/data of one level instance at pos; returns end position"""
        bl = L.block_length + extra
        for m in L.fields:
            if not m.is_const:
                self.put_member(buf, pos, m, vals["fields"][m.name])
        pos += bl
        for g in L.groups:
            gv = vals["groups"][g.name]
            gextra = gv.get("extra", 0)
            hv = self.header_values(g, num_in_group=len(gv["entries"]))
            hv["blockLength"] = g.block_length + gextra
            hv.update(gv.get("header_override", {}))
            self.write_header(buf, pos, g.dimension, hv)
            pos += g.dimension.size
            for e in gv["entries"]:
                pos = self.encode_level(buf, pos, g, e, gextra)
        for d in L.data:
            payload = vals["data"][d.name]
            ln = d.encoding.elements[0] if d.encoding.elements[0].name == "length" else self.member(d.encoding, "length")
            buf[pos + ln.offset: pos + ln.offset + ln.size] = self.pack(len(payload), ln.size)
            pos += d.header_size
            buf[pos: pos + len(payload)] = payload
            pos += len(payload)
        return pos

    def encode_message(self, L, vals, background=0xCD, tail=0):
        """reference image of a message; vals = value tree incl. 'extra' inflation"""
        size = self.message_size(L, vals)
        if isinstance(background, int):
            buf = bytearray([background]) * (size + tail)
        else:
            buf = bytearray(background)
            assert len(buf) >= size
        hv = self.header_values(L)
        hv["blockLength"] = L.block_length + vals.get("extra", 0)
        hv.update(vals.get("header_override", {}))
        self.write_header(buf, 0, self.header, hv)
        end = self.encode_level(buf, self.header.size, L, vals, vals.get("extra", 0))
        assert end == size, (end, size)
        return bytes(buf), size

    # ------------------------------------------------ structure walker (C06)
    def walk_level(self, L, buf, pos, bl, ctrl):
        """members after the block of a level instance; returns end position or None when the structure does not fit"""
        n = len(buf)
        if bl < L.min_block_length:
            self.walk_short_block = True
        if pos + bl > n:
            self.walk_fail = "block" if L.is_message else "entry-block"
            return None
        pos += bl
        for g in L.groups:
            pos = self.walk_group(g, buf, pos, ctrl)
            if pos is None:
                return None
        for d in L.data:
            if pos + d.header_size > n:
                self.walk_fail = "data-header"
                return None
            lm = self.member(d.encoding, "length")
            ln = self.unpack(buf[pos + lm.offset: pos + lm.offset + lm.size])
            ctrl.append(("length", pos + lm.offset, lm.size, d.name))
            pos += d.header_size
            if pos + ln > n:
                self.walk_fail = "data-payload"
                return None
            pos += ln
        return pos

    def walk_group(self, g, buf, pos, ctrl):
        n = len(buf)
        dim = g.dimension
        ctrl.append(("group", pos, 0, g.path))
        if pos + dim.size > n:
            self.walk_fail = "group-header"
            return None
        blm, nm = self.member(dim, "blockLength"), self.member(dim, "numInGroup")
        bl = self.unpack(buf[pos + blm.offset: pos + blm.offset + blm.size])
        cnt = self.unpack(buf[pos + nm.offset: pos + nm.offset + nm.size])
        ctrl.append(("blockLength", pos + blm.offset, blm.size, g.name))
        ctrl.append(("numInGroup", pos + nm.offset, nm.size, g.name))
        pos += dim.size
        if not g.groups and not g.data:
            # flat: closed form (numInGroup may be astronomically large)
            total = cnt * bl
            if cnt > 0 and bl < g.min_block_length:
                self.walk_short_block = True
            if bl == 0 and cnt > 1000:
                self.walk_zero_flat = True
            if pos + total > n:
                self.walk_fail = "flat-entries"
                return None
            self.walk_flat = (cnt, bl)
            return pos + total
        for _ in range(cnt):
            pos = self.walk_level(g, buf, pos, bl, ctrl)
            if pos is None:
                return None
        return pos

    def walk_message(self, L, buf):
        """(fits, size, control fields) of the message structure the bytes describe, using wire values only"""
        ctrl = []
        n = len(buf)
        self.walk_fail = None
        self.walk_flat = None
        self.walk_zero_flat = False
        self.walk_short_block = False
        if self.header.size > n:
            self.walk_fail = "message-header"
            return False, 0, ctrl
        blm = self.member(self.header, "blockLength")
        bl = self.unpack(buf[blm.offset: blm.offset + blm.size])
        ctrl.append(("blockLength", blm.offset, blm.size, L.name))
        end = self.walk_level(L, buf, self.header.size, bl, ctrl)
        if end is None:
            return False, 0, ctrl
        return True, end, ctrl

    def walk_group_view(self, g, buf):
        ctrl = []
        self.walk_fail = None
        self.walk_flat = None
        self.walk_zero_flat = False
        self.walk_short_block = False
        end = self.walk_group(g, buf, 0, ctrl)
        if end is None:
            return False, 0, ctrl
        return True, end, ctrl

    # ----------------------------------------------------------------- dump
    def enum_value_name(self, m, value):
        for v in m.target["values"]:
            num = ord(v["value"]) if m.prim == "char" else int(v["value"])
            if num & (2 ** (8 * m.size) - 1) == value & (2 ** (8 * m.size) - 1):
                return v["name"]
        return "?"

    def set_choices_text(self, m, value):
        return ",".join("%s=%d" % (c["name"], (value >> c["index"]) & 1) for c in m.target["choices"]) or "-"

    def is_null(self, m, value):
        """optional scalar: does the raw value denote null (SBE default or explicit nullValue; NaN null means is-NaN)"""
        size, kind = PRIMS[m.prim]
        mask = 2 ** (8 * size) - 1
        text = m.target.get("null") if m.target else None
        if kind == "f":
            ebits, mbits = (8, 23) if size == 4 else (11, 52)
            def isnan(b):
                return ((b >> mbits) & (2 ** ebits - 1)) == 2 ** ebits - 1 and (b & (2 ** mbits - 1)) != 0
            if text is None or text == "NaN":
                return isnan(value & mask)
            nb = const_numeric_bits(text, m.prim)
            if isnan(value & mask):
                return False
            # floating-point equality: +0.0 == -0.0
            import struct
            f = lambda b: struct.unpack("<f" if size == 4 else "<d", b.to_bytes(size, "little"))[0]
            return f(value & mask) == f(nb)
        if text is None:
            if kind == "c":
                nb = 0
            elif kind == "u":
                nb = mask
            else:
                nb = 2 ** (8 * size - 1)
        else:
            nb = int(text) & mask
        return (value & mask) == nb

    def dump_member(self, m, value, out, comp_consts=True, vis_extras=False):
        if m.kind in ("scalar", "enum", "set"):
            out.append("F %s %x" % (m.name, value & (2 ** (8 * m.size) - 1)))
            if m.kind == "scalar" and m.presence == "optional" and self.null_flags:
                out.append("null" if self.is_null(m, value) else "hv")
            if vis_extras and m.kind == "enum":
                out.append("V %s" % self.enum_value_name(m, value))
            if (vis_extras or self.tag_extras) and m.kind == "set":
                out.append("S %s" % self.set_choices_text(m, value))
        elif m.kind == "array":
            out.append("A %s %s" % (m.name, value.hex() or "-"))
        elif m.kind in ("const", "constenum"):
            cv = m.const_value
            if cv[0] == "num":
                out.append("K %s %x" % (m.name, cv[1]))
            else:
                out.append("K %s %s" % (m.name, cv[1].hex() or "-"))
        elif m.kind == "composite":
            out.append("C %s {" % m.name)
            for e in m.elements:
                if e.is_const and not comp_consts:
                    continue
                self.dump_member(e, None if e.is_const else value[e.name], out, comp_consts, vis_extras)
            out.append("}")

    def dump_level(self, L, vals, out, extra, with_consts=True, comp_consts=True, vis_extras=False):
        for m in L.fields:
            if m.is_const and not with_consts:
                continue
            self.dump_member(m, None if m.is_const else vals["fields"][m.name], out, comp_consts, vis_extras)
        for g in L.groups:
            gv = vals["groups"][g.name]
            out.append("G %s %d %d {" % (g.name, len(gv["entries"]), g.block_length + gv.get("extra", 0)))
            for i, e in enumerate(gv["entries"]):
                out.append("E %d {" % i)
                self.dump_level(g, e, out, gv.get("extra", 0), with_consts, comp_consts, vis_extras)
                out.append("}")
            out.append("}")
        for d in L.data:
            p = vals["data"][d.name]
            out.append("D %s %d %s" % (d.name, len(p), p.hex() or "-"))

    null_flags = False
    tag_extras = False

    def dump_message(self, L, vals, with_consts=True, comp_consts=True, vis_extras=False, null_flags=False, tag_extras=False):
        out = []
        self.null_flags = null_flags
        self.tag_extras = tag_extras
        self.dump_level(L, vals, out, vals.get("extra", 0), with_consts, comp_consts, vis_extras)
        return " ".join(out)

    # --------------------------------------------------------------- events
    def events(self, L, vals):
        """flat list of visitor events (one per bool callback) of a full message visit, in order"""
        ev = []

        def member(m, value):
            if m.kind in ("scalar", "enum", "set"):
                extra = ""
                if m.kind == "enum":
                    extra = " V %s" % self.enum_value_name(m, value)
                elif m.kind == "set":
                    extra = " S %s" % self.set_choices_text(m, value)
                ev.append("F %s %x%s" % (m.name, value & (2 ** (8 * m.size) - 1), extra))
            elif m.kind == "array":
                ev.append("F %s %s" % (m.name, value.hex() or "-"))
            elif m.kind == "composite":
                ev.append("C %s" % m.name)
                for e in m.elements:
                    if not e.is_const:
                        member(e, value[e.name])

        def level(Lv, v):
            for m in Lv.fields:
                if not m.is_const:
                    member(m, v["fields"][m.name])
            for g in Lv.groups:
                gv = v["groups"][g.name]
                ev.append("G %s %d" % (g.name, len(gv["entries"])))
                for i, e in enumerate(gv["entries"]):
                    ev.append("E %d" % i)
                    level(g, e)
            for d in Lv.data:
                p = v["data"][d.name]
                ev.append("D %s %d %s" % (d.name, len(p), p.hex() or "-"))
        level(L, vals)
        return ev

    # ----------------------------------------------------------- statistics
    def all_levels(self):
        res = []

        def walk(L):
            res.append(L)
            for g in L.groups:
                walk(g)
        for m in self.messages:
            walk(m)
        return res

    def features(self):
        """generator-distribution classes of this schema"""
        f = set()
        sch = self.sch
        if self.big:
            f.add("big_endian")
        if sch.get("header_type"):
            f.add("custom_header_name")
        names = [e.name for e in self.header.elements]
        if names[:4] != ["blockLength", "templateId", "schemaId", "version"]:
            f.add("nonconventional_header")
        for L in self.all_levels():
            if len(L.path) >= 3:
                f.add("nested_group_depth2")
            if len(L.path) >= 4:
                f.add("nested_group_depth3")
            if L.groups:
                f.add("has_group")
            if L.data:
                f.add("has_data")
            if L.decl.get("block_length") is not None and L.block_length > L.min_block_length:
                f.add("explicit_block_length_gt_min")
            if not L.is_message and L.block_length == 0:
                f.add("zero_length_entry")
            for m in L.fields:
                f.add("field_" + m.kind)
                if m.prim:
                    f.add("prim_" + m.prim)
                if m.decl.get("offset") is not None:
                    f.add("custom_field_offset")
                if m.presence == "optional":
                    f.add("optional_field")
        def walk_types(m, depth):
            if m.kind == "composite":
                for e in m.elements:
                    if e.via_ref:
                        f.add("ref_member")
                    if e.decl.get("offset") is not None:
                        f.add("custom_member_offset")
                    if e.kind == "composite" and not e.via_ref:
                        f.add("inline_composite_depth%d" % (depth + 1))
                    if e.is_const:
                        f.add("const_member")
                    walk_types(e, depth + 1)
        for t in sch["types"]:
            if t["kind"] == "composite":
                walk_types(self.composite(t), 0)
            f.add("public_" + t["kind"])
        # name clashes
        tnames = {t["name"] for t in sch["types"]}
        mnames = {m["name"] for m in sch["messages"]}
        if tnames & mnames:
            f.add("clash_type_message")
        if {"types", "messages", "schema", "detail"} & (tnames | mnames):
            f.add("clash_fixed_names")
        for L in self.all_levels():
            mem = {m.name for m in L.fields} | {g.name for g in L.groups} | {d.name for d in L.data}
            if L.name in mem:
                f.add("clash_level_member")
            if any((g.name + "_entry") in mem or (g.name + "_entry") in mnames for g in L.groups):
                f.add("clash_entry_name")
        for t in sch["types"]:
            if t["kind"] == "composite" and any(e["name"] == t["name"] for e in t["elements"]):
                f.add("clash_composite_member")
            if t["kind"] == "enum" and any(v["name"] == t["name"] for v in t["values"]):
                f.add("clash_enum_value")
            if t["kind"] == "set" and any(v["name"] == t["name"] for v in t["choices"]):
                f.add("clash_set_choice")
            if any(n.startswith(t["name"] + "_") and n[len(t["name"]) + 1:].isdigit() for n in tnames):
                f.add("clash_mangled_suffix")
        # command line options, physical file layout, spelling of references (DESIGN 9.6)
        if sch.get("schema_name"):
            f.add("option_schema_name")
            if not sch.get("package") or not sch["package"].replace("_", "a").isalnum():
                f.add("package_not_an_identifier")
        if sch.get("inject_include"):
            f.add("option_inject_include")
        lay = sch.get("layout") or {}
        if lay.get("included"):
            f.add("layout_included_fragment")
        if lay.get("blocks"):
            f.add("layout_several_types_blocks")
        if lay.get("tail_block") and lay.get("blocks"):
            f.add("layout_types_after_messages")
        if lay.get("plain_message"):
            f.add("layout_message_without_prefix")

        def all_encodings(els):
            for e in els:
                yield e
                if e["kind"] == "composite":
                    yield from all_encodings(e["elements"])
        declared = {t["name"] for t in sch["types"]}
        refs = []
        for e in all_encodings(sch["types"]):
            if e["kind"] == "type" and e.get("value_ref"):
                f.add("type_level_valueref_constant")
                refs.append(e["value_ref"].split(".")[0])
            if e["kind"] == "ref":
                refs.append(e["type"])
        for L in self.all_levels():
            for fd in L.decl["fields"]:
                if fd["type"] not in PRIMS:
                    refs.append(fd["type"])
                if fd.get("value_ref"):
                    refs.append(fd["value_ref"].split(".")[0])
            for d in L.decl["data"]:
                refs.append(d["type"])
            if L.decl.get("dimension_type"):
                refs.append(L.decl["dimension_type"])
        if sch.get("header_type"):
            refs.append(sch["header_type"])
        if any(r not in declared for r in refs):
            f.add("reference_in_other_letter_case")
        pg = [(g.name, n.name) for L in self.all_levels() for g in L.groups for n in g.groups]
        for L in self.all_levels():
            if any((a + "_" + b) in {g.name for g in L.groups} for a, b in pg):
                f.add("clash_concatenated_group_path")
        return f
