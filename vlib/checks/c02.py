"""C02 — decoding returns exactly what a conforming SBE encoder wrote."""
import concurrent.futures as cf
import os

from hypothesis import HealthCheck, Phase, given, seed as hseed, settings, strategies as st

from vlib import common, constexprgen, pool as poolmod, values
from vlib.checks import decode_common


def _cx_one(args):
    edir, cfg, tag = args
    entry = poolmod.Entry(edir)
    M = entry.model
    cases = []

    @hseed(common.seed() + 77)
    @settings(max_examples=4, database=None, deadline=None, suppress_health_check=list(HealthCheck), phases=[Phase.generate])
    @given(st.data())
    def draw(data):
        mi = data.draw(st.integers(0, len(M.messages) - 1))
        L = M.messages[mi]
        vals = data.draw(values.level_values(L, max_entries=2, inflate=data.draw(st.booleans())))
        img, size = M.encode_message(L, vals, background=0xA7)
        if len(img) <= 1500:
            cases.append((mi, L, img, vals))

    draw()
    cases = cases[:3]
    if not cases:
        return {"dir": edir, "cfg": poolmod.cfg_name(cfg), "cases": 0, "problems": []}
    src, expected = constexprgen.CxGen(M).generate(cases)
    sp = os.path.join(edir, "cx_%s.cpp" % tag)
    exe = os.path.join(edir, "cx_%s" % tag)
    with open(sp, "w") as f:
        f.write(src)
    r = poolmod.run_compile(poolmod.compile_cmd(cfg, os.path.join(edir, "out"), sp, exe))
    problems = []
    if r.returncode != 0:
        problems.append(("constexpr-decode-not-constant", {"source": src[:20000], "config": poolmod.cfg_name(cfg)},
                         "constexpr decode TU does not compile: %s" % "; ".join(poolmod.first_errors(r.stdout.decode(errors="replace"), 3))))
        return {"dir": edir, "cfg": poolmod.cfg_name(cfg), "cases": len(cases), "problems": problems, "numbers": 0}
    out = common.run([exe]).stdout.decode(errors="replace")
    got = {}
    for line in out.splitlines():
        if line.startswith("CASE "):
            parts = line.split()
            got[int(parts[1])] = [int(x, 16) for x in parts[3:]]
    numbers = 0
    for ci, exp in enumerate(expected):
        numbers += len(exp)
        if got.get(ci) != exp:
            g = got.get(ci) or []
            j = next((i for i, (a, b) in enumerate(zip(exp, g)) if a != b), min(len(exp), len(g)))
            problems.append(("constexpr-decode-mismatch", {"source": src[:20000], "config": poolmod.cfg_name(cfg), "case": ci},
                             "constant-evaluated decode of message %s differs at value #%d: expected %s got %s" % (
                                 cases[ci][1].name, j, exp[j:j + 3], g[j:j + 3])))
    return {"dir": edir, "cfg": poolmod.cfg_name(cfg), "cases": len(cases), "problems": problems, "numbers": numbers,
            "sample": {"schema": edir.split("/")[-1], "config": poolmod.cfg_name(cfg), "constexpr_values": expected[0][:16]}}


def constexpr_part(res, t):
    """constant-evaluated decode (C++20/23, both compilers) over pool schemas"""
    p = poolmod.build_pool(t)
    entries = [e for e in p.entries if e.model.messages]
    n = 16 if t == "quick" else len(entries)
    cfgs = [("g++", "20"), ("clang++", "20")] if t == "quick" else [("g++", "20"), ("g++", "23"), ("clang++", "20"), ("clang++", "23")]
    jobs = []
    for i, e in enumerate(entries[:n]):
        for j, cfg in enumerate(cfgs):
            if t == "quick" and (i + j) % 2:
                continue
            jobs.append((e.dir, cfg, poolmod.cfg_name(cfg)))
    with cf.ProcessPoolExecutor(max_workers=common.NCPU) as ex:
        outs = list(ex.map(_cx_one, jobs))
    tot = 0
    for o in outs:
        res.count(o.get("numbers", 0))
        tot += o["cases"]
        res.cls("constexpr_tus")
        if o.get("sample") and len(res.samples) < 8:
            res.sample(o["sample"])
        if o["cases"]:
            res.nontriv("cx:%s:%s" % (o["dir"], o["cfg"]))
        for sig, case, text in o["problems"]:
            e = poolmod.Entry(o["dir"])
            case.update({"schema_xml": e.xml, "model": e.sch})
            res.violation(sig, case, "[%s] %s" % (o["cfg"], text))
    res.extra["constexpr"] = {"tus": len(jobs), "images": tot}


def run(t, budget=1.0):
    return decode_common.run("C02", t, budget, inflate=False, extra_part=constexpr_part)


def replay(path):
    import json
    case = json.load(open(path))["case"]
    if "source" in case:
        from vlib import poolcheck
        entry = poolcheck.replay_entry(case, [])
        if entry is None:
            return 1
        import shutil
        try:
            cfg = [c for c in poolmod.CONFIGS if poolmod.cfg_name(c) == case["config"]][0]
            sp = os.path.join(entry.dir, "cx.cpp")
            open(sp, "w").write(case["source"])
            r = poolmod.run_compile(poolmod.compile_cmd(cfg, os.path.join(entry.dir, "out"), sp, os.path.join(entry.dir, "cx")))
            print(r.stdout.decode(errors="replace")[-1500:])
            if r.returncode:
                return 1
            print(common.run([os.path.join(entry.dir, "cx")]).stdout.decode()[:1500])
            print("replay: the stored TU compiles now; compare the CASE lines with the replay file's description")
            return 0
        finally:
            shutil.rmtree(entry.dir, ignore_errors=True)
    return decode_common.replay(path)
