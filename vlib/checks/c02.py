"""C02 — decoding returns exactly what a conforming SBE encoder wrote."""
from vlib.checks import decode_common


def run(t, budget=1.0):
    return decode_common.run("C02", t, budget, inflate=False)


def replay(path):
    return decode_common.replay(path)
