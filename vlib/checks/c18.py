"""C18 — traits and tags mirror the schema.

For every pooled schema (main pool + the "special" pool whose texts need
escaping and whose numeric attributes carry leading zeros) one standalone C++11
program (vlib/traitsgen.py) prints every trait of every entity through its
documented tag path, plus a generic walk from the schema tag that is driven only
by the children tag lists.  The program is compiled and run in the configs of
the pool entry; every printed line is compared with the value computed from the
schema model (XML literals parsed independently, SBE defaults, reference layout).
"""
import concurrent.futures as cf
import json
import os
import re
import shutil
import subprocess
import threading
import time

from vlib import common, model, pool as poolmod, schemagen, traitsgen


def _norm_compile_error(out):
    for l in out.splitlines():
        m = re.search(r"error: (.*)", l)
        if m:
            t = re.sub(r"[‘'`\"].*?[’'`\"]", "Q", m.group(1))
            t = re.sub(r"\d+", "N", t)
            return t[:70].strip()
    return "unknown"


STATS = {"compiled": 0, "reused": 0}   # programs built in this run / taken from the build dir of this tree key


def build_and_dump(gen, out_dir, work, cfgname, runs=1):
    """compile the dump program of `gen` in one config and run it.
    -> ('ok', text) | ('compile', compiler output) | ('run', description)"""
    cfg = [c for c in poolmod.CONFIGS if poolmod.cfg_name(c) == cfgname][0]
    os.makedirs(work, exist_ok=True)
    prog = gen.program()
    h = common.text_hash(prog)
    src = os.path.join(work, "td-%s.cpp" % h)
    exe = os.path.join(work, "td-%s-%s" % (h, cfgname))
    if os.path.exists(exe):
        STATS["reused"] += 1
    else:
        STATS["compiled"] += 1
        if not os.path.exists(src):
            stmp = "%s.tmp%d-%d" % (src, os.getpid(), threading.get_ident())
            with open(stmp, "w") as f:
                f.write(prog)
            os.replace(stmp, src)
        tmp = "%s.tmp%d-%d" % (exe, os.getpid(), threading.get_ident())
        # a compile error counts only if it is reproducible (3 attempts): on a loaded machine compilers were seen to
        # crash or misread system headers transiently, which is not a verdict about the traits
        for attempt in range(3):
            r = common.run(poolmod.compile_cmd(cfg, out_dir, src, tmp))
            if r.returncode == 0:
                break
            time.sleep(2 * (attempt + 1))
        if r.returncode != 0:
            out = r.stdout.decode(errors="replace")
            if re.search(r"frontend command failed|internal compiler error|IO failure|Bad address|not valid UTF-8|Killed|out of memory", out):
                raise RuntimeError("compiler failure (environment, not a verdict) on %s [%s]: %s" % (src, cfgname, out[-400:]))
            return "compile", out
        os.replace(tmp, exe)
    text = None
    for _ in range(runs):
        try:
            r = subprocess.run([exe], stdout=subprocess.PIPE, stderr=subprocess.PIPE, timeout=120)
        except subprocess.TimeoutExpired:
            return "run", "timeout"
        if r.returncode != 0:
            return "run", "exit status %d: %s" % (r.returncode, r.stderr.decode(errors="replace")[-300:])
        t = r.stdout.decode("utf-8", errors="surrogateescape")
        if text is not None and t != text:
            return "run", "output differs between two runs of the same binary"
        text = t
    return "ok", text


def check_one(gen, out_dir, work, cfgname, runs=1):
    """-> dict(status, n, mismatches, problems, sample)"""
    st, text = build_and_dump(gen, out_dir, work, cfgname, runs)
    if st != "ok":
        return {"status": st, "detail": text, "n": 0, "mismatches": [], "problems": [], "lines": []}
    got, problems = traitsgen.parse_dump(text)
    n, mism = traitsgen.compare(gen, got)
    return {"status": "ok", "n": n, "mismatches": mism, "problems": problems, "got": got}


def _task(args):
    pname, idx, gen, out_dir, work, cfgname = args
    try:
        r = check_one(gen, out_dir, work, cfgname)
    except Exception as ex:      # harness problem: must not masquerade as a verdict
        r = {"status": "harness", "detail": repr(ex), "n": 0, "mismatches": [], "problems": []}
    return pname, idx, cfgname, r


def work_dir(entry):
    """build products of this check live next to the pool (same tree key), not inside it"""
    rel = os.path.relpath(entry.dir, common.build_dir("pool"))
    return os.path.join(common.build_dir("c18"), rel)


RULE = ("every pooled schema (Hypothesis-generated: main pool + pool with texts needing escapes and leading-zero literals) x every "
        "entity (schema, public types, inline/nested composite elements, refs, enum values, set choices, messages, fields, groups at "
        "any depth, data) x every documented trait, read through the documented tag path in a generated C++11 program and compared "
        "line by line with the value derived from the XML (one evaluation = one trait line in one compiler/standard config); "
        "non-trivial = expected value differs from the trait's empty default (non-empty description/semanticType/characterEncoding/"
        "semanticVersion, sinceVersion != 0, deprecated present, offset explicit or non-zero, explicit min/max/null, presence not "
        "required or overridden by the type, length != 1, explicit or non-zero blockLength, big-endian, ids/values/indexes, lists "
        "with >= 2 tags, encodings via a public type) or the entity is a <ref> member, nested at depth >= 2 or reached by the list-"
        "driven walk through >= 2 lists; distinct by (schema, entity path, trait)")

ASSUMPTIONS = [
    "the schema model dict is what the XML states (schemagen.to_xml renders it 1:1); member offsets, composite sizes and block "
    "lengths come from the reference layout model (model.Model), never from sbeppc",
    "no claim: `deprecated` of a <ref> that has none of its own (inherits the target's in the implementation; undocumented)",
    "no claim: `offset` of constant composite members / constant fields; `value_type` of constants; `value_type_tag` of constant fields; "
    "`traits_tag` of numeric and single-character constants (string constants: the round trip is asserted)",
    "no claim: traits reached through the tag path of a <ref> member's children or of a field's type children (aliases of the "
    "public type's tags; documentation does not mention these paths)",
    "no claim: which tag `length_type_tag` names when the data encoding's `length` is a <ref>",
    "a <ref> member's traits are the target's with name, offset, sinceVersion and (if given) deprecated of the <ref> (DESIGN A.5, "
    "doc/traits.md); `traits_tag_t<value_type>` of a <ref> member is the public target's tag",
    "group/data `value_type<Byte>` is taken to be the type the documented accessor `view.name()` returns",
    "message/group size_bytes(...) formulas are decided by C05, not here; data_traits::size_bytes(n) is checked for n in {0, 5}",
    "NaN literals are compared as 'is a NaN' (payload/sign of the NaN is not specified by the schema)",
    "pool scope: public types never carry an `offset` attribute, <type> constants never use valueRef, data encodings are {length, varData} "
    "with inline members, header/dimension/data type names are not case-varied; one fixed hand-written schema covers these",
    "g++ 12 / clang 14 with libstdc++ stand for the supported compilers; quick tier: each schema in 3 of the 10 configs",
]


class Source:
    """one schema to dump: a pool entry or a hand-written schema"""

    def __init__(self, origin, sid, sch, mdl, xml, out_dir, work, configs):
        self.origin, self.sid, self.sch, self.xml, self.out_dir, self.work, self.configs = origin, sid, sch, xml, out_dir, work, configs
        self.gen = traitsgen.TraitsGen(sch, mdl)


def hand_sources(t):
    """fixed schemas for documented constructs the pool generator never emits (see traitsgen.hand_schemas)"""
    out = []
    cfgs = ["gxx-11", "gxx-20", "clangxx-17"] if t == "quick" else [poolmod.cfg_name(c) for c in poolmod.CONFIGS]
    sbeppc = common.build_sbeppc("plain")
    for name, sch in traitsgen.hand_schemas():
        xml = schemagen.to_xml(sch)
        d = common.build_dir("c18", "hand", "%s-%s" % (name, common.text_hash(xml)))
        out_dir = os.path.join(d, "out")
        with common.flock(os.path.join(d, "lock")):
            if not os.path.exists(os.path.join(d, "done")):
                shutil.rmtree(out_dir, ignore_errors=True)
                with open(os.path.join(d, "schema.xml"), "w") as f:
                    f.write(xml)
                rc, o = common.run_sbeppc(sbeppc, os.path.join(d, "schema.xml"), out_dir)
                if rc != 0:
                    # a hand schema is valid SBE by construction; rejection is C08's subject, here it only means "cannot dump"
                    raise common.BuildError("C18: sbeppc rejects the hand-written schema %s: %s" % (name, o[-300:]))
                open(os.path.join(d, "done"), "w").close()
        out.append(Source("hand", name, sch, model.Model(sch), xml, out_dir, os.path.join(d, "td"), cfgs))
    return out


def run(t, budget=1.0):
    res = common.Result("C18", t)
    res.rule = RULE
    res.assumptions = list(ASSUMPTIONS)
    pools = [("main", poolmod.build_pool(t)),
             ("special", poolmod.build_pool(t, n=(24 if t == "quick" else 120), gen_kw={"special_text": True, "odd_literals": True}, tag="special"))]
    sources = []
    for pname, p in pools:
        if p.meta.get("errors"):
            raise RuntimeError("pool generator error (harness problem, not a verdict): %s" % p.meta["errors"][:2])
        for e in p.entries:
            sources.append(Source(pname, os.path.basename(e.dir), e.sch, e.model, e.xml, os.path.join(e.dir, "out"), work_dir(e), e.status["configs"]))
        res.extra["pool_" + pname] = {"schemas": len(p.entries), "build_wall_s": p.meta.get("wall_s"), "build_failures": len(p.failures)}
    if not sources:
        # every pooled schema failed to build on this tree: that is C07's verdict; passing vacuously here would be wrong
        raise common.BuildError("C18: no pooled schema could be built on this tree (%d minimal build failures, see ./check C07)" % (
            sum(len(p.failures) for _, p in pools)))
    sources += hand_sources(t)
    # smallest schemas first so that the first hit of a signature is the smallest schema showing it
    sources.sort(key=lambda s: (len(s.gen.expected), s.origin, s.sid))
    tasks = [(s.origin, i, s.gen, s.out_dir, s.work, c) for i, s in enumerate(sources) for c in s.configs]
    with cf.ThreadPoolExecutor(max_workers=common.NCPU) as ex:
        results = list(ex.map(_task, tasks))

    seen_sig = {}
    compared_nt = set()
    cfgs_used = set()
    kinds_seen = set()
    for pname, idx, cfgname, r in results:
        src = sources[idx]
        gen, sid = src.gen, src.sid
        cfgs_used.add(cfgname)
        if r["status"] == "harness":
            # not a property verdict (compiler crash, I/O problem, bug in this harness): exit 3 through main's BUILD-ERROR path
            raise common.BuildError("C18 could not be decided: %s/%s [%s]: %s" % (pname, sid, cfgname, r["detail"]))
        base = {"schema_xml": src.xml, "model": src.sch, "config": cfgname, "pool": pname}
        if r["status"] == "compile":
            res.count()
            sig = "trait-dump-does-not-compile:" + _norm_compile_error(r["detail"])
            res.cls("compile_fail")
            if sig not in seen_sig:
                seen_sig[sig] = 1
                case = dict(base, kind="compile", errors=poolmod.first_errors(r["detail"], 4))
                res.violation(sig, case, "[%s pool, %s, %s] trait dump program (documented tag paths / trait members only) does not compile: %s" % (
                    pname, sid, cfgname, "; ".join(poolmod.first_errors(r["detail"], 2))))
            continue
        if r["status"] == "run":
            res.count()
            sig = "trait-dump-run-failed"
            if sig not in seen_sig:
                seen_sig[sig] = 1
                res.violation(sig, dict(base, kind="run", detail=r["detail"]), "[%s pool, %s, %s] trait dump program failed: %s" % (pname, sid, cfgname, r["detail"]))
            continue
        if r["problems"]:
            raise RuntimeError("C18 harness error: dump of %s/%s [%s] malformed: %s" % (pname, sid, cfgname, r["problems"][:3]))
        res.count(r["n"])
        res.cls("dump_" + cfgname)
        for key in gen.nontrivial:
            compared_nt.add((pname, sid, key))
        if idx not in kinds_seen:
            kinds_seen.add(idx)
            res.cls("schemas_" + pname)
            for lbl, k in gen.kind_of.items():
                if k != "walk":
                    res.cls("entity_" + k)
            for (lbl, trait) in gen.nontrivial:
                res.cls("nt:" + traitsgen.trait_class(trait))
            if len(res.samples) < 6 and len(gen.nontrivial) > 40:
                got = r["got"]
                keys = [k for k in sorted(gen.nontrivial) if not k[0].startswith("W:")]
                pick = keys[:: max(1, len(keys) // 6)][:6]
                res.sample({"pool": pname, "schema": sid, "config": cfgname,
                            "lines": ["%s\t%s\t%s" % (k[0], k[1], got.get(k)) for k in pick]})
        for (label, kind, trait, exp, act) in r["mismatches"]:
            sig = "trait-mismatch:%s:%s" % (kind, traitsgen.trait_class(trait))
            res.cls("mismatch")
            if sig in seen_sig:
                seen_sig[sig] += 1
                continue
            seen_sig[sig] = 1
            # confirm: the same binary gives the same answer again (2 more runs)
            again = check_one(gen, src.out_dir, src.work, cfgname, runs=2)
            if again["status"] != "ok" or (label, kind, trait, exp, act) not in again["mismatches"]:
                raise RuntimeError("C18 harness error: mismatch on %s/%s [%s] %s %s did not reproduce" % (pname, sid, cfgname, label, trait))
            case = dict(base, kind="line", label=label, trait=trait, entity_kind=kind, expected=exp, actual=act,
                        expected_line="%s\t%s\t%s" % (label, trait, exp), actual_line="%s\t%s\t%s" % (label, trait, act))
            res.violation(sig, case, "[%s pool, %s, %s] %s `%s` trait %s: expected %s, got %s" % (
                pname, sid, cfgname, kind, label, trait, _show(exp), _show(act)))
    res.extra["configs_used"] = sorted(cfgs_used)
    res.extra["mismatch_signatures"] = {k: v for k, v in sorted(seen_sig.items())}
    res.extra["schemas_dumped"] = len(kinds_seen)
    res.extra["dump_programs"] = {"compiled_this_run": STATS["compiled"], "reused_from_build_dir_of_this_tree": STATS["reused"]}
    return res.finish(nontrivial_count=len(compared_nt))


def _show(v):
    """hex-encoded strings are shown decoded as well"""
    if isinstance(v, str) and re.match(r"^x([0-9a-f]{2})*$", v):
        try:
            return "%s (%r)" % (v, bytes.fromhex(v[1:]).decode("utf-8", errors="replace"))
        except ValueError:
            pass
    return str(v)


def replay(path):
    case = json.load(open(path))["case"]
    work = common.build_dir("c18-replay-%d" % os.getpid())
    try:
        xml = case["schema_xml"]
        sch = case["model"]
        if schemagen.to_xml(sch) != xml:
            print("replay: note: model and schema_xml of the replay file differ; expectations follow the model")
        sp = schemagen.write_schema(sch, work)   # (re-creates included fragments next to the schema)
        out_dir = os.path.join(work, "out")
        rc, out = common.run_sbeppc(common.build_sbeppc("plain"), sp, out_dir)
        if rc != 0:
            print("replay: sbeppc rejects the schema now:", out[-400:])
            return 1
        gen = traitsgen.TraitsGen(sch, model.Model(sch))
        r = check_one(gen, out_dir, os.path.join(work, "td"), case["config"], runs=3)
        if r["status"] != "ok":
            print("replay [%s]: dump program %s failure:\n%s" % (case["config"], r["status"], r["detail"][-1500:]))
            print("replay: STILL FAILS")
            return 1
        key = (case.get("label"), case.get("trait"))
        if case.get("kind") == "line":
            print("expected: %s" % case["expected_line"])
            print("recorded: %s" % case["actual_line"])
            print("now:      %s\t%s\t%s" % (key[0], key[1], r["got"].get(key)))
        for (label, kind, trait, exp, act) in r["mismatches"][:20]:
            print("mismatch: %s `%s` %s: expected %s, got %s" % (kind, label, trait, _show(exp), _show(act)))
        bad = bool(r["mismatches"])
        print("replay: %d lines compared, %d mismatches: %s" % (r["n"], len(r["mismatches"]), "STILL FAILS" if bad else "holds now"))
        return 1 if bad else 0
    finally:
        shutil.rmtree(work, ignore_errors=True)
