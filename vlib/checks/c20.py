"""C20 — sbeppc's exit status is truthful and its output deterministic.

Fault enumeration: every k-th output I/O call (mkdir / write-mode open / write)
of a run is failed through an LD_PRELOAD shim, for several errno values and a
"short write then fail" mode, for several schemas.  Oracle: exit 0 => output
tree byte-identical to the fault-free reference; fault fired => exit != 0 and an
`Error:` line.  Determinism: repeated runs (fresh dir, populated dir, different
cwd / environment size) are byte-identical.
"""
import concurrent.futures as cf
import glob
import json
import os
import shutil
import subprocess

from vlib import common

ERRNOS = {"ENOSPC": 28, "EACCES": 13, "EIO": 5}


def build_injector():
    d = common.shared_dir("fi")
    src = os.path.join(common.VERIF, "harness", "faultinject.c")
    out = os.path.join(d, "libfaultinject-%s.so" % common.file_hash(src))
    with common.flock(os.path.join(d, "lock")):
        if not os.path.exists(out):
            r = common.run(["gcc", "-shared", "-fPIC", "-O1", "-o", out + ".tmp", src, "-ldl"])
            if r.returncode != 0:
                raise common.BuildError("faultinject: " + r.stdout.decode())
            os.rename(out + ".tmp", out)
    return out


def snapshot(root):
    res = {}
    for p in common._iter_files(root):
        with open(p, "rb") as f:
            res[os.path.relpath(p, root)] = f.read()
    return res


def snap_hash(snap):
    return common.text_hash(*[k + "\0" + common.text_hash(v) for k, v in sorted(snap.items())])


def schemas_for(t, work):
    """repo schemas + schemas drawn from the Hypothesis schema generator (if
    the generator module is available)."""
    res = sorted(glob.glob(os.path.join(common.REPO, "test/schemas/*.xml")))
    res += sorted(glob.glob(os.path.join(common.REPO, "test/naming_test/*.xml")))
    try:
        from vlib import schemagen
        n = 10 if t == "quick" else 40
        gd = os.path.join(work, "gen")
        os.makedirs(gd, exist_ok=True)
        for i, (xml, _model) in enumerate(schemagen.sample_schemas(n, common.seed() * 1000 + 20, allow_include=False)):
            p = os.path.join(gd, "gen%03d.xml" % i)
            with open(p, "w") as f:
                f.write(xml)
            res.append(p)
    except ImportError:
        pass
    return res


class Runner:
    def __init__(self, sbeppc, shim, work):
        self.sbeppc = sbeppc
        self.shim = shim
        self.work = work
        self.n = 0

    def run(self, schema, tag, fail_at=None, errno_=28, mode="fail", populate_from=None, env_extra=None, cwd=None, prepare=None,
            relative=False):
        d = os.path.join(self.work, tag)
        shutil.rmtree(d, ignore_errors=True)
        out = os.path.join(d, "out")
        if populate_from:
            shutil.copytree(populate_from, out)
        else:
            os.makedirs(out)
        if prepare:
            prepare(out)
        env = {"PATH": os.environ.get("PATH", "/usr/bin:/bin"), "LC_ALL": "C"}
        log = os.path.join(d, "fi.log")
        if fail_at is not None:
            env.update({"LD_PRELOAD": self.shim, "FI_ROOT": out, "FI_LOG": log,
                        "FI_FAIL_AT": str(fail_at), "FI_ERRNO": str(errno_), "FI_MODE": mode})
        if env_extra:
            env.update(env_extra)
        out_arg, schema_arg = out, schema
        if relative:
            # the way a build script calls it: from the directory above the output, with relative paths
            cwd = d
            out_arg, schema_arg = "out", os.path.relpath(schema, d)
        try:
            rc, txt = common.run_sbeppc(self.sbeppc, schema_arg, out_arg, env=env, cwd=cwd, timeout=120)
        except subprocess.TimeoutExpired:
            rc, txt = -999, "TIMEOUT"
        calls, fired = [], None
        if fail_at is not None and os.path.exists(log):
            for line in open(log, errors="replace"):
                parts = line.rstrip("\n").split(" ", 3)
                if len(parts) >= 3:
                    calls.append((parts[2], parts[3] if len(parts) > 3 else ""))
                    if parts[0] == "FIRED":
                        fired = (int(parts[1]), parts[2], parts[3] if len(parts) > 3 else "")
        snap = snapshot(out)
        shutil.rmtree(d, ignore_errors=True)
        return rc, txt, calls, fired, snap


def rel(path, out_marker="/out/"):
    i = path.find(out_marker)
    return path[i + len(out_marker):] if i >= 0 else path


def check_case(runner, schema, ref, k, ename, mode, populated, ref_dir):
    tag = "k%d-%s-%s-%d-%s" % (k, ename, mode, populated, common.text_hash(schema))
    rc, txt, calls, fired, snap = runner.run(schema, tag, fail_at=k, errno_=ERRNOS[ename], mode=mode,
                                             populate_from=ref_dir if populated else None)
    problems = []
    if rc < 0 or rc > 1 and rc != 1:
        if rc == -999:
            problems.append(("hang", "sbeppc did not terminate within 120 s"))
        else:
            problems.append(("crash", "sbeppc ended with status %d" % rc))
    if rc == 0 and snap != ref:
        bad = sorted(f for f in set(ref) | set(snap) if ref.get(f) != snap.get(f))
        problems.append(("exit0-incomplete", "exit 0 but output differs from fault-free run in %d file(s), e.g. %s (%d vs %d bytes)" % (
            len(bad), bad[0], len(snap.get(bad[0], b"")), len(ref.get(bad[0], b"")))))
    if fired and rc == 0:
        problems.append(("fault-ignored", "I/O fault fired (%s %s, %s/%s) but exit status is 0" % (fired[1], rel(fired[2]), ename, mode)))
    if fired and rc != 0 and "Error" not in txt:
        problems.append(("no-diagnostic", "non-zero exit without an Error line"))
    return {"k": k, "errno": ename, "mode": mode, "populated": populated, "rc": rc, "fired": fired,
            "problems": problems, "out": txt[-300:]}


def obstacle_case(runner, schema, ref, kind, relp, populated, ref_dir):
    """a path of the output tree is occupied by the wrong kind of object before the run: a directory where a generated file goes,
    a regular file where a directory goes.  No shim: the failing call is whatever sbeppc uses to get the file in place."""
    def prepare(out):
        p = os.path.join(out, relp)
        if kind == "dir-at-file":
            if os.path.lexists(p):
                os.remove(p)
            os.makedirs(p)
        else:
            if os.path.isdir(p):
                shutil.rmtree(p)
            os.makedirs(os.path.dirname(p), exist_ok=True)
            with open(p, "w") as f:
                f.write("not a directory\n")
    tag = "obst-%s-%d-%s" % (kind, populated, common.text_hash(schema, relp))
    rc, txt, _calls, _fired, snap = runner.run(schema, tag, populate_from=ref_dir if populated else None, prepare=prepare)
    problems = []
    if rc == -999:
        problems.append(("hang", "sbeppc did not terminate within 120 s"))
    elif rc not in (0, 1):
        problems.append(("crash", "sbeppc ended with status %d" % rc))
    if rc == 0 and snap != ref:
        bad = sorted(f for f in set(ref) | set(snap) if ref.get(f) != snap.get(f))
        problems.append(("exit0-incomplete", "exit 0 but output differs from the unobstructed run in %d file(s), e.g. %s (%s)" % (
            len(bad), bad[0], "missing" if bad[0] not in snap else "different content")))
    if rc == 1 and "Error" not in txt:
        problems.append(("no-diagnostic", "non-zero exit without an Error line"))
    return {"kind": kind, "path": relp, "populated": populated, "rc": rc, "problems": problems, "out": txt[-300:]}


def run(t, budget=1.0):
    res = common.Result("C20", t, level="fault_enumeration")
    res.rule = ("for each schema: count output I/O calls N with the shim, then fail call k for every k in 1..N x errno "
                "x {fail, short-then-fail (writes)} x {fresh, populated output dir}; non-trivial = a run in which the "
                "injected fault actually fired (distinct by schema,k,errno,mode,populated); plus obstructed output paths without the shim "
                "(a directory where each generated file goes, a regular file where each output directory goes) and determinism reruns")
    res.assumptions = ["all output I/O of sbeppc goes through mkdir/fopen/open/write/writev/rename/link (libstdc++ ofstream + std::filesystem on glibc)",
                       "close() failures are not part of the property and are not injected"]
    sbeppc = common.build_sbeppc("plain")
    shim = build_injector()
    work = common.build_dir("c20-work-%d" % os.getpid())
    runner = Runner(sbeppc, shim, work)
    schemas = schemas_for(t, work)
    quick = (t == "quick")
    enames = list(ERRNOS)
    tasks = []
    obstacles = []
    per_schema = {}
    refdirs = {}
    try:
        for si, schema in enumerate(schemas):
            sname = os.path.basename(schema)
            rc0, txt0, _, _, ref = runner.run(schema, "ref-%d" % si)
            res.count()
            if rc0 != 0:
                # a schema sbeppc rejects: only totality matters here, skip
                res.cls("schema_rejected")
                continue
            # determinism: second fresh run with a different cwd and a larger environment, then a populated run
            ref_dir = os.path.join(work, "refdir-%d" % si)
            shutil.rmtree(ref_dir, ignore_errors=True)
            os.makedirs(ref_dir)
            for relp, data in ref.items():
                p = os.path.join(ref_dir, relp)
                os.makedirs(os.path.dirname(p), exist_ok=True)
                with open(p, "wb") as f:
                    f.write(data)
            refdirs[si] = ref_dir
            rc1, _, _, _, snap1 = runner.run(schema, "det1-%d" % si, cwd="/", env_extra={"PAD": "x" * 5000, "MALLOC_PERTURB_": "165"})
            rc2, _, _, _, snap2 = runner.run(schema, "det2-%d" % si, populate_from=ref_dir)
            # populated with stale garbage in every file
            stale = os.path.join(work, "stale-%d" % si)
            shutil.rmtree(stale, ignore_errors=True)
            shutil.copytree(ref_dir, stale)
            for p in common._iter_files(stale):
                with open(p, "ab") as f:
                    f.write(b"\n// stale trailing content that must disappear\n" * 50)
            rc3, _, _, _, snap3 = runner.run(schema, "det3-%d" % si, populate_from=stale)
            shutil.rmtree(stale, ignore_errors=True)
            # populated with what an aborted earlier run leaves behind: every file cut to a prefix (0 bytes / half)
            trunc = os.path.join(work, "trunc-%d" % si)
            shutil.rmtree(trunc, ignore_errors=True)
            shutil.copytree(ref_dir, trunc)
            for fi, p in enumerate(common._iter_files(trunc)):
                data_ = open(p, "rb").read()
                with open(p, "wb") as f:
                    f.write(data_[:0 if fi % 2 == 0 else len(data_) // 2])
            rc4, _, _, _, snap4 = runner.run(schema, "det4-%d" % si, populate_from=trunc)
            shutil.rmtree(trunc, ignore_errors=True)
            # a fresh directory somewhere else: deeper in the tree, and addressed by relative paths from another working directory
            rc5, _, _, _, snap5 = runner.run(schema, "det5-%d/deeper/than/the/reference" % si)
            rc6, _, _, _, snap6 = runner.run(schema, "det6-%d/rel" % si, relative=True)
            res.count(6)
            for nm, rcx, sn in (("fresh-rerun", rc1, snap1), ("populated-rerun", rc2, snap2), ("stale-populated-rerun", rc3, snap3),
                                ("truncated-populated-rerun", rc4, snap4), ("fresh-directory-at-another-depth", rc5, snap5),
                                ("fresh-directory-relative-paths-other-cwd", rc6, snap6)):
                res.nontriv(("det", sname, nm))
                res.cls("determinism_" + nm)
                if rcx != 0 or sn != ref:
                    bad = sorted(f for f in set(ref) | set(sn) if ref.get(f) != sn.get(f))
                    res.violation("nondeterministic:" + nm, {"schema": schema, "schema_xml": open(schema).read(), "kind": nm},
                                  "%s of %s: rc=%d, %d differing files (%s)" % (nm, sname, rcx, len(bad), bad[:3]))
            # counting run
            rcc, _, calls, _, snapc = runner.run(schema, "count-%d" % si, fail_at=0)
            res.count()
            if rcc != 0 or snapc != ref:
                res.violation("shim-changes-behaviour", {"schema": schema}, "counting run with the shim differs from the plain run (harness problem)")
                continue
            n = len(calls)
            per_schema[sname] = {"io_calls": n, "files": len(ref)}
            dirs = sorted({os.path.dirname(f) for f in ref if os.path.dirname(f)} | {os.path.dirname(os.path.dirname(f)) for f in ref if os.path.dirname(os.path.dirname(f))})
            for oi, f in enumerate(sorted(ref)):
                for pop in ((0, 1) if not quick else ((oi + si) % 2,)):
                    obstacles.append((schema, si, "dir-at-file", f, pop))
            for oi, dpath in enumerate(dirs):
                for pop in ((0, 1) if not quick else ((oi + si) % 2,)):
                    obstacles.append((schema, si, "file-at-dir", dpath, pop))
            per_schema[sname]["obstacle_paths"] = len(ref) + len(dirs)
            ks = list(range(1, n + 1))
            # quick tier: every k of every schema, one rotating (errno, populated) combination per k (+ short write);
            # thorough: the full cross product
            for k in ks:
                kind = calls[k - 1][0]
                if quick:
                    combos = [(enames[(k + si) % 3], "fail", (k + si) % 2)]
                    if kind.startswith("write"):
                        combos.append((enames[(k + si + 1) % 3], "short", (k + si + 1) % 2))
                else:
                    combos = [(e, "fail", p) for e in enames for p in (0, 1)]
                    if kind.startswith("write"):
                        combos += [(e, "short", p) for e in enames for p in (0, 1)]
                for e, m, p in combos:
                    tasks.append((schema, si, k, e, m, p, kind))
        refs = {}
        results = []
        with cf.ThreadPoolExecutor(max_workers=common.NCPU) as ex:
            futs = {}
            for (schema, si, k, e, m, p, kind) in tasks:
                if si not in refs:
                    refs[si] = snapshot(refdirs[si])
                futs[ex.submit(check_case, runner, schema, refs[si], k, e, m, p, refdirs[si])] = (schema, kind)
            for fu in cf.as_completed(futs):
                schema, kind = futs[fu]
                r = fu.result()
                sname = os.path.basename(schema)
                res.count()
                if r["fired"]:
                    res.nontriv((sname, r["k"], r["errno"], r["mode"], r["populated"]))
                    res.cls("fired_" + r["fired"][1] + "_" + r["mode"] + ("_populated" if r["populated"] else "_fresh"))
                else:
                    res.cls("not_fired")
                if len(res.samples) < 8 and r["fired"] and (r["k"] % 17 == 0 or len(res.samples) < 2):
                    res.sample({"schema": sname, "k": r["k"], "errno": r["errno"], "mode": r["mode"], "populated": r["populated"],
                                "failed_call": [r["fired"][1], rel(r["fired"][2])], "exit": r["rc"], "stdout_tail": r["out"]})
                for sig, text in r["problems"]:
                    # signature: defect class + kind of failed call (call site), not the schema or k
                    signature = "%s:%s:%s" % (sig, r["fired"][1] if r["fired"] else "-", r["mode"])
                    res.violation(signature, {"schema": schema, "schema_xml": open(schema).read(), "k": r["k"], "errno": r["errno"],
                                              "mode": r["mode"], "populated": r["populated"]},
                                  "%s: k=%d %s" % (sname, r["k"], text))
        with cf.ThreadPoolExecutor(max_workers=common.NCPU) as ex:
            futs = {}
            for (schema, si, kind, relp, pop) in obstacles:
                if si not in refs:
                    refs[si] = snapshot(refdirs[si])
                futs[ex.submit(obstacle_case, runner, schema, refs[si], kind, relp, pop, refdirs[si])] = schema
            for fu in cf.as_completed(futs):
                schema = futs[fu]
                r = fu.result()
                sname = os.path.basename(schema)
                res.count()
                res.nontriv((sname, "obstacle", r["kind"], r["path"], r["populated"]))
                res.cls("obstacle_%s_%s_rc%d" % (r["kind"], "populated" if r["populated"] else "fresh", r["rc"]))
                if r["kind"] == "dir-at-file" and len([x for x in res.samples if "obstacle" in x]) < 2:
                    res.sample({"schema": sname, "obstacle": r["kind"], "path": r["path"], "populated": r["populated"], "exit": r["rc"], "stdout_tail": r["out"]})
                for sig, text in r["problems"]:
                    res.violation("%s:obstacle:%s" % (sig, r["kind"]),
                                  {"schema": schema, "schema_xml": open(schema).read(), "obstacle": r["kind"], "path": r["path"], "populated": r["populated"]},
                                  "%s: %s at %s (%s output dir): %s" % (sname, r["kind"], r["path"], "populated" if r["populated"] else "fresh", text))
        res.extra["per_schema"] = per_schema
        res.extra["schemas"] = len(per_schema)
        res.exhaustive = True
        res.extra["exhaustive_scope"] = "every k-th output I/O call of every schema listed in per_schema" + ("" if not quick else "; errno/mode/populated combinations rotate in the quick tier")
    finally:
        shutil.rmtree(work, ignore_errors=True)
    return res.finish()


def replay(path):
    case = json.load(open(path))["case"]
    sbeppc = common.build_sbeppc("plain")
    shim = build_injector()
    work = common.build_dir("c20-replay-%d" % os.getpid())
    try:
        schema = os.path.join(work, "schema.xml")
        with open(schema, "w") as f:
            f.write(case["schema_xml"])
        runner = Runner(sbeppc, shim, work)
        rc0, _, _, _, ref = runner.run(schema, "ref")
        if "obstacle" in case:
            ref_dir = os.path.join(work, "refdir")
            os.makedirs(ref_dir)
            for relp, data in ref.items():
                p = os.path.join(ref_dir, relp)
                os.makedirs(os.path.dirname(p), exist_ok=True)
                open(p, "wb").write(data)
            r = obstacle_case(runner, schema, ref, case["obstacle"], case["path"], case["populated"], ref_dir)
            print(json.dumps(r, indent=1, default=str))
            return 1 if r["problems"] else 0
        if "k" not in case:
            rc1, _, _, _, s1 = runner.run(schema, "again", cwd="/")
            ok = (rc0 == rc1 == 0 and s1 == ref)
            print("replay determinism:", "holds" if ok else "FAILS")
            return 0 if ok else 1
        ref_dir = os.path.join(work, "refdir")
        os.makedirs(ref_dir)
        for relp, data in ref.items():
            p = os.path.join(ref_dir, relp)
            os.makedirs(os.path.dirname(p), exist_ok=True)
            open(p, "wb").write(data)
        r = check_case(runner, schema, ref, case["k"], case["errno"], case["mode"], case["populated"], ref_dir)
        print(json.dumps(r, indent=1, default=str))
        return 1 if r["problems"] else 0
    finally:
        shutil.rmtree(work, ignore_errors=True)
