"""C01 — encoding writes exactly the SBE wire image of the schema.

Scripts of in-order header fills, field setters (random subset, random order),
group header fills / resizes and data assignments are executed by the generated
driver on a patterned background buffer; the whole buffer must equal the
background overlaid with exactly the bytes the reference model says each
operation writes.
"""
import json
import shutil

from hypothesis import strategies as st

from vlib import common, poolcheck, values
from vlib.schemagen import PRIMS, prim_range


class Script:
    """token list for the driver + the expected buffer"""

    def __init__(self, M, background):
        self.M = M
        self.buf = bytearray(background)
        self.tok = []
        self.rets = []       # expected "ret=" / "hdr=" values in order
        self.writes = 0
        self.deep_writes = 0
        self.entries = 0
        self.data_bytes = 0
        self.ops = set()

    def put(self, pos, b):
        self.buf[pos:pos + len(b)] = b
        self.writes += 1
        if pos > 0:
            self.deep_writes += 1


def draw_member_write(data, sc, m, base):
    """draw a write for member m located at base+m.offset; append payload tokens, update expected buffer"""
    M = sc.M
    if m.kind in ("scalar", "enum"):
        v = data.draw(values.member_value(m))
        sc.tok.append("%x" % v)
        sc.put(base + m.offset, M.pack(v, m.size))
    elif m.kind == "set":
        choices = m.target["choices"]
        if choices and data.draw(st.booleans()):
            k = data.draw(st.integers(0, 4))
            val = 0
            sc.tok += ["c", str(k)]
            for _ in range(k):
                ci = data.draw(st.integers(0, len(choices) - 1))
                b = data.draw(st.booleans())
                sc.tok += [str(ci), "1" if b else "0"]
                bit = 1 << choices[ci]["index"]
                val = (val | bit) if b else (val & ~bit)
            sc.ops.add("set_by_choice")
        else:
            val = data.draw(values.scalar_bits(m.prim))
            sc.tok += ["v", "%x" % val]
        sc.put(base + m.offset, M.pack(val, m.size))
    elif m.kind == "composite":
        draw_member_loop(data, sc, [e for e in m.elements if not e.is_const], base + m.offset)
    elif m.kind == "array":
        n = m.size
        ops = ["w", "r", "l", "f", "n", "x"]
        if m.prim == "char":
            ops += ["s0", "s1", "s2", "s0p", "s1p", "s2p"]
        op = data.draw(st.sampled_from(ops))
        sc.ops.add("array_" + op)
        ln = data.draw(st.integers(0, n))
        if op[0] == "s":
            content = bytes(data.draw(st.lists(st.integers(1, 255), min_size=ln, max_size=ln)))
        else:
            content = data.draw(st.binary(min_size=ln, max_size=ln))
        pos = base + m.offset
        if op in ("w", "r", "l", "x"):
            new = content
            ret = ln
        elif op == "f":
            fillv = content[:1] or b"\0"
            new = fillv * n
            ret = n
        elif op == "n":
            fillv = content[:1] or b"\0"
            new = fillv * ln
            ret = ln
        else:
            mode = op[1]
            new = content
            if mode == "1" and ln < n:
                new = content + b"\0"
            elif mode == "2":
                new = content + b"\0" * (n - ln)
            ret = ln
        sc.tok += [op, content.hex() or "-"]
        sc.put(pos, new)
        sc.rets.append("ret=%d" % ret)
    else:
        raise ValueError(m.kind)


def draw_member_loop(data, sc, members, base, cur=False):
    if cur:
        # cursor discipline: every member once, in schema order; written through its cursor setter or passed over with skip
        for i, m in enumerate(members):
            if data.draw(st.integers(0, 3)) == 0:
                sc.tok += ["k", str(i)]
                sc.ops.add("cursor_skip")
            else:
                sc.tok += ["f", str(i)]
                draw_member_write(data, sc, m, base)
        sc.tok.append("e")
        return
    if members:
        idxs = data.draw(st.lists(st.integers(0, len(members) - 1), min_size=0, max_size=len(members) + 1))
    else:
        idxs = []
    for i in idxs:
        sc.tok += ["f", str(i)]
        draw_member_write(data, sc, members[i], base)
    sc.tok.append("e")


def uint_max(comp_member):
    return prim_range(comp_member.prim)[1]


def draw_level(data, sc, L, pos, bl, depth, cur=False):
    """fields/groups/data of one level instance whose block starts at pos with wire block length bl. returns end position"""
    M = sc.M
    draw_member_loop(data, sc, [m for m in L.fields if not m.is_const], pos, cur=cur)
    pos += bl
    for g in L.groups:
        dim = g.dimension
        mode = data.draw(st.sampled_from(["F", "F", "F", "F", "H", "H", "M", "M", "C"]))
        n = data.draw(st.integers(0, 3 if depth < 2 else 2))
        if mode == "C":
            n = 0    # clear(): numInGroup := 0 and nothing else (blockLength keeps whatever the buffer holds)
        blm = M.member(dim, "blockLength")
        nig = M.member(dim, "numInGroup")
        sc.ops.add("group_" + mode)
        if mode == "F":
            sc.tok += ["F", str(n)]
            M.write_header(sc.buf, pos, dim, M.header_values(g, num_in_group=n))
            sc.writes += 1
            sc.rets.append("hdr=%d" % pos)
            gbl = g.block_length
        elif mode == "C":
            sc.tok += ["C", "0"]
            M.put_member(sc.buf, pos, nig, 0)
            sc.writes += 1
            gbl = g.block_length
        else:
            extra = data.draw(st.sampled_from([0, 0, 1, 4]))
            gbl = min(g.block_length + extra, uint_max(blm))
            sc.tok += [mode, str(n), str(gbl)]
            M.put_member(sc.buf, pos, blm, gbl)
            M.put_member(sc.buf, pos, nig, n)
            sc.writes += 1
        pos += dim.size
        for _ in range(n):
            sc.entries += 1
            pos = draw_level(data, sc, g, pos, gbl, depth + 1, cur=cur)
    for d in L.data:
        op = data.draw(st.sampled_from(["r", "l", "n", "w", "d", "p", "i", "v", "c", "1"] + (["s"] if d.elem_prim == "char" else [])))
        sc.ops.add("data_" + op)
        ln = data.draw(st.integers(0, 12))
        if op in ("n", "v", "c"):
            b = data.draw(st.integers(0, 255))
            payload = bytes([b]) * ln
        elif op == "s":
            payload = bytes(data.draw(st.lists(st.integers(1, 255), min_size=ln, max_size=ln)))
        else:
            payload = data.draw(st.binary(min_size=ln, max_size=ln))
        sc.tok += [op, payload.hex() or "-"]
        lm = M.member(d.encoding, "length")
        sc.put(pos + lm.offset, M.pack(len(payload), lm.size))
        pos += d.header_size
        sc.put(pos, payload)
        pos += len(payload)
        sc.data_bytes += len(payload)
    return pos


def max_image_size(M, L, depth=0):
    """upper bound of the bytes a script can touch"""
    n = L.block_length + 4
    for g in L.groups:
        n += g.dimension.size + 3 * max_image_size(M, g, depth + 1)
    for d in L.data:
        n += d.header_size + 12
    return n


def run(t, budget=1.0):
    pc = poolcheck.PoolCheck("C01", t, budget)
    res = pc.res
    res.rule = ("pool schema x message x in-order encode script (header fill or hand-written blockLength; random subset/order of field setters "
                "incl. composite members, set-by-choice, array assign/fill/assign_string modes; per group fill_group_header / "
                "hand-written header + resize; data assign forms), executed through named accessors or the documented cursor-based way (cursor setters / skip in schema order, group(c) + cursor_range, data via dont_move + skip; named and by-tag), on a generated background buffer; whole buffer must equal the "
                "reference overlay; non-trivial = script writes a member at a non-zero offset and (if the message has them) >= 1 "
                "group entry or non-empty data; distinct by hash of (schema, script)")
    res.assumptions = ["reference overlay model is the trusted SBE layout", "numInGroup <= 3, data <= 12 bytes, images of a few KiB",
                       "scripts follow the documented in-order discipline; the cursor flavour follows doc/examples.md (every field once in schema order, written or skipped)"]
    if not pc.entries:
        return pc.finish()

    def body(data):
        entry, mi, L = pc.draw_target(data)
        M = entry.model
        size = M.header.size + max_image_size(M, L) + 16
        size = min(size, 60000)
        pat = data.draw(st.sampled_from(["00", "ff", "a5", "rand"]))
        if pat == "rand":
            bg = data.draw(st.binary(min_size=size, max_size=size))
        else:
            bg = bytes([int(pat, 16)]) * size
        sc = Script(M, bg)
        hm = data.draw(st.sampled_from(["F", "F", "F", "H"]))
        blm = M.member(M.header, "blockLength")
        if hm == "F":
            sc.tok.append("F")
            M.write_header(sc.buf, 0, M.header, M.header_values(L))
            sc.rets.append("hdr=0")
            bl = L.block_length
        else:
            bl = min(L.block_length + data.draw(st.sampled_from([0, 1, 3])), uint_max(blm))
            sc.tok += ["H", str(bl)]
            M.put_member(sc.buf, 0, blm, bl)
        # flavour: named (random-access) accessors, or the documented cursor-based way of encoding a message
        # (doc/examples.md: cursor setters in schema order, group(c) + fill_group_header + cursor_range, data through
        # dont_move + skip), named or by tag
        flavour = data.draw(st.sampled_from(["encode", "encode", "cencode", "cencodetag"]))
        cur = flavour.startswith("c")
        end = draw_level(data, sc, L, M.header.size, bl, 0, cur=cur)
        if end > size:
            return  # cannot happen with the bound above; guard against a harness miscalculation
        if cur:
            res.cls("flavour_" + flavour)
            from vlib.checks import decode_common
            if decode_common.cursor_end_checkable(L):
                sc.rets += ["cur=%d" % end, "size_by_cursor=%d" % end]
        res.count()
        key = common.text_hash(entry.dir, str(mi), " ".join(sc.tok), bg)
        nontrivial = sc.deep_writes > 0 and (not (L.groups or L.data) or sc.entries > 0 or sc.data_bytes > 0)
        if nontrivial:
            res.nontriv(key)
        for o in sc.ops:
            res.cls(o)
        if len(res.samples) < 6 and nontrivial and (len(res.samples) < 2 or res.evaluations % 211 < 9):
            res.sample({"schema": entry.dir.split("/")[-1], "message": L.name, "script": " ".join(sc.tok)[:400], "buffer_len": size})
        line = "%s %d %s %s" % (flavour, mi, bg.hex(), " ".join(sc.tok))
        exp_buf = bytes(sc.buf).hex()
        for cfg in entry.value_configs():
            resp = pc.call(entry, cfg, line)
            ok = False
            what = resp[:300]
            sig = "encode-%s" % resp.split(" ")[0].lower()
            if resp.startswith("OK "):
                body_ = resp[3:]
                i = body_.rfind("BUF ")
                got_buf = body_[i + 4:].strip()
                got_rets = body_[:i].split()
                if cur and not any(r.startswith("cur=") for r in sc.rets):
                    # a level without any member that could move the cursor: no claim about the final position
                    got_rets = [r for r in got_rets if not r.startswith(("cur=", "size_by_cursor="))]
                if got_buf != exp_buf:
                    sig = "encode-buffer-mismatch"
                    diffs = [j for j in range(0, len(exp_buf), 2) if exp_buf[j:j + 2] != got_buf[j:j + 2]]
                    what = "buffer differs at %d byte(s), first at offset %d: expected %s got %s" % (
                        len(diffs), diffs[0] // 2 if diffs else -1, exp_buf[diffs[0]:diffs[0] + 16] if diffs else "", got_buf[diffs[0]:diffs[0] + 16] if diffs else "")
                elif got_rets != sc.rets:
                    sig = "encode-return-mismatch"
                    what = "returned iterators/header addresses: expected %s got %s" % (sc.rets[:10], got_rets[:10])
                else:
                    ok = True
            if not ok:
                pc.fail(sig, entry, {"cmd": line, "config": cfg, "message": mi, "expected_buffer": exp_buf, "expected_rets": sc.rets, "actual": resp},
                        "[%s] message %s: %s" % (cfg, L.name, what))

    pc.run_hypothesis(body, 5000 if t == "quick" else 60000)
    return pc.finish()


def replay(path):
    case = json.load(open(path))["case"]
    entry = poolcheck.replay_entry(case, [case["config"]])
    if entry is None:
        return 1
    try:
        d = poolcheck.poolmod.Driver(entry.driver(case["config"]))
        resp = d.call(case["cmd"])
        d.close()
        i = resp.rfind("BUF ")
        rets = resp[3:i].split()
        if not any(r.startswith("cur=") for r in case["expected_rets"]):
            rets = [r for r in rets if not r.startswith(("cur=", "size_by_cursor="))]
        ok = resp.startswith("OK ") and resp[i + 4:].strip() == case["expected_buffer"] and rets == case["expected_rets"]
        print("actual:", resp[:600])
        print("replay:", "holds now" if ok else "STILL FAILS")
        return 0 if ok else 1
    finally:
        shutil.rmtree(entry.dir, ignore_errors=True)
