"""C03 — decoding honours wire blockLength (schema extension)."""
from vlib.checks import decode_common


def run(t, budget=1.0):
    return decode_common.run("C03", t, budget, inflate=True)


def replay(path):
    return decode_common.replay(path)
