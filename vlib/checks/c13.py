"""C13 — <data> views (sbepp::detail::dynamic_array_ref) behave like a std::vector bounded by their buffer.

Model-based check, harness /verif/harness/c13.cpp (see its header for the engines and the case syntax).  The view is
instantiated directly for length types {uint8,uint16,uint32,uint64 built-ins, uint8 with maxValue=255} x {little,big}
x element {char,uint8_t,int8_t} x byte {char,unsigned char,std::byte (C++17+)}; the matrix is split over PARTS binaries
per compiler configuration (compile time).  Every binary is built with SBEPP_ENABLE_ASSERTS_WITH_HANDLER, ASan and UBSan.

Engines per binary:
  closure  capacity 4, values {a,b}: every command from every reachable buffer state (complete for any depth),
  dfs      literal enumeration of all command sequences of depth <= 2 (quick: 3 configurations per binary; thorough: all)
           and depth <= 3 (thorough: one configuration per compiler configuration, sharded),
  random   rapidcheck command lists resolved against the model state (preconditions always satisfied), with shrinking.

Value arguments are passed from a local copy and, for push_back / insert(pos,v) / insert(pos,n,v) / resize(n,v) (the calls
std::vector defines for that), also as an lvalue naming an element of the same view (commands *_self; all three engines).
"""
import concurrent.futures as cf
import json
import os
import re

from vlib import common, libharness

PROP = "C13"
SRC = "c13.cpp"
PARTS = 4
QUICK = [("g++", "11"), ("g++", "20"), ("clang++", "17")]
THOROUGH = [(c, s) for c in ("g++", "clang++") for s in ("11", "14", "17", "20", "23")]


def cfg_label(compiler, std):
    return "%s-std%s" % (compiler, std)


def build_part(compiler, std, part):
    return libharness.build(SRC, "%s-p%dof%d" % (cfg_label(compiler, std), part, PARTS), compiler=compiler, std=std,
                            defines=("SBEPP_ENABLE_ASSERTS_WITH_HANDLER", "C13_PARTS=%d" % PARTS, "C13_PART=%d" % part),
                            extra=("-g1",))


def list_cfgs(binary):
    r = common.run([binary, "--list-cfgs"])
    return [l for l in r.stdout.decode().split() if l]


def quick_parts(ci, seed):
    """Quick tier: every compiler configuration builds half of the matrix; the two C++17+ configurations together cover
    all of it (std::byte only exists there), the C++11 one a seed-dependent half."""
    if ci == 1:
        return (0, 2)
    if ci == 2:
        return (1, 3)
    return (0, 3) if seed % 2 else (1, 2)


def build_all(configs, quick=False, seed=1):
    """-> {(compiler, std, part): (binary, [type configs])}"""
    keys = [(c, s, p) for ci, (c, s) in enumerate(configs) for p in (quick_parts(ci, seed) if quick else range(PARTS))]
    out = {}
    with cf.ThreadPoolExecutor(max_workers=common.NCPU) as ex:
        futs = {ex.submit(build_part, *k): k for k in keys}
        for fu in cf.as_completed(futs):
            out[futs[fu]] = fu.result()
    return {k: (b, list_cfgs(b)) for k, b in out.items()}


def chunks(lst, n):
    k = (len(lst) + n - 1) // n
    return [lst[i:i + k] for i in range(0, len(lst), k)] if lst else []


def run(t, budget=1.0):
    res = common.Result(PROP, t, level="exploration")
    quick = (t == "quick")
    configs = QUICK if quick else THOROUGH
    seed = common.seed()
    res.rule = (
        "case = (type configuration, buffer capacity, initial contents, command sequence) executed on the view and on a "
        "std::vector that receives the same member call; commands = push_back, pop_back, insert(pos,v), insert(pos,n,v), "
        "insert(pos,first,last) with input/forward/pointer iterators, insert(pos,ilist), erase(pos), erase(first,last), "
        "resize(n), resize(n,v), resize(n,default_init), assign(n,v), assign(first,last) (3 categories), assign(ilist), "
        "assign_string, assign_range (vector&, const forward_list&, vector&&), clear; every command satisfies the "
        "documented preconditions (valid for the vector, result fits the buffer and max_size()). "
        "Self-referencing value arguments: push_back_self, insert_self(pos,.), insert_n_self(pos,n,.), resize_v_self(n,.) call "
        "the same overloads as push_back/insert/insert_n/resize_v with an lvalue that names an element of the same view as the "
        "value argument, written as d[k] (at<k>), d.front(), d.back() or *(d.begin()+k) (it<k>), e.g. d.insert(d.begin(), d.back()); "
        "generated only on a non-empty view (k < size); the std::vector model receives the element's value read before the call "
        "(std::vector defines these four calls for an argument that refers into the container; assign(n,v) and iterator ranges "
        "into the view itself are not valid for a vector and are not generated). Classes selfref_<form> count them per form, "
        "selfref_element_moved_by_insert the insertions (count>0) whose referenced element lies at or behind the insertion "
        "position, i.e. is moved by the insertion itself. "
        "(1) closure [exhaustive]: capacity 4, values {a,b}: breadth-first over every reachable buffer state (length "
        "prefix + all 4 payload bytes, 1280 states) x every command; the view holds no state besides the buffer, so this "
        "covers command sequences of every depth (in particular depth<=3 from every reachable state); case = BFS path + command. "
        "(2) dfs [exhaustive]: literal enumeration of all sequences of depth<=2 (thorough: also depth<=3 for one configuration "
        "per compiler configuration) from each of the 31 states {a,b}^0..4. "
        "Both enumerations contain every *_self command for every element k and position/count (closure: all four reference "
        "forms; dfs depth<=2: d[k], front(), back(); dfs depth 3: d[k]). "
        "(3) random: rapidcheck tape -> abstract commands resolved against the current model size (positions begin/end/middle/"
        "random, counts 0/1/fill/fill-1/random, ranges empty/to-end/random; *_self: reference form uniform, element uniform or one of "
        "the last three), capacities 0..40, 250..261 (uint8 length limit "
        "254/255) and 65530..65539 (uint16 limit), arbitrary element bytes, up to 250 commands (40 on the 64 KiB buffers; element-wise input-iterator inserts capped at 300 elements). "
        "non-trivial = sequence that executed >=2 different mutator overloads and used a boundary position (begin or end) "
        "in a position-taking command; distinct by (type configuration, initial state, concrete command text); enumerated "
        "sequences are distinct by construction and counted, random ones are hashed. "
        "Type matrix: 4 length types + uint8/maxValue=255 x 2 byte orders x 3 element types x 3 byte types = 74 instantiations "
        "(50 before C++17); thorough: all of them in each of 10 compiler configurations; quick: each of the 3 compiler "
        "configurations runs half of the matrix (the two C++17+ ones together all of it), dfs on 3 instantiations per binary. "
        "distinct_nontrivial = maximum over the compiler configurations (+ the depth-3 enumeration, run once).")
    res.assumptions = [
        "dynamic_array_ref is constructed through the documented byte_range(Byte* ptr, std::size_t size) constructor it inherits "
        "(generated code uses the (begin,end) overload of the same class via get_dynamic_field_view)",
        "'fits the length type' is taken as size <= Length::max_value() (254 for the built-in uint8, 255 for a generated uint8 "
        "type with maxValue=255)",
        "elements created by resize(n, default_init) are unspecified: the model adopts the bytes the view exposes",
        "closure completeness relies on the view being a stateless (pointer,end) pair: behaviour is a function of the buffer bytes",
        "initializer lists are limited to 8 elements by the harness",
    ]
    known = ";".join(sorted(res.findings.known))
    bins = build_all(configs, quick, seed)
    res.extra["configs"] = [cfg_label(c, s) for c, s in configs]
    res.extra["matrix_parts"] = PARTS

    n_random = max(200, int((8000 if quick else 50000) * budget))
    jobs = []  # (weight, label, binary, args, env)
    dfs3_cfgs = set()
    if not quick:
        for ci, (c, s) in enumerate(configs):
            if c != "g++":
                continue
            allc = sorted(sum((bins[(c, s, p)][1] for p in range(PARTS)), []))
            pick = allc[(ci * 17 + seed) % len(allc)]
            dfs3_cfgs.add((c, s, pick))
    for (c, s, p), (binary, tcfgs) in sorted(bins.items()):
        lab = "%s/p%d" % (cfg_label(c, s), p)
        base = ["--seed", str(seed), "--tier", t, "--known", known]
        for hi, half in enumerate(chunks(tcfgs, 2)):
            jobs.append((len(half) * 1.5, "%s/closure%d" % (lab, hi), binary,
                         base + ["--mode", "closure", "--closure-cfgs", ",".join(half)], None))
        rc_env = {"RC_PARAMS": "seed=%d max_success=%d max_size=100" % (seed * 1000 + p + 1, n_random)}
        jobs.append((n_random / 500.0, lab + "/random", binary, base + ["--mode", "random"], rc_env))
        d3 = [x for x in tcfgs if (c, s, x) in dfs3_cfgs]
        d2 = [x for x in tcfgs if x not in d3]
        if quick:
            d2 = [d2[(seed + i * 5 + p) % len(d2)] for i in range(3)]
            d2 = sorted(set(d2))
        for ch in chunks(d2, 1 if quick else 3):
            jobs.append((len(ch) * 2.5, "%s/dfs2:%s" % (lab, ch[0]), binary,
                         base + ["--mode", "dfs", "--dfs-depth", "2", "--dfs-cfgs", ",".join(ch)], None))
        for x in d3:
            nsh = 16
            for sh in range(nsh):
                jobs.append((45, "%s/dfs3:%s:%d" % (lab, x, sh), binary,
                             base + ["--mode", "dfs", "--dfs-depth", "3", "--dfs-cfgs", x, "--shard", "%d/%d" % (sh, nsh)], None))
    jobs.sort(key=lambda j: -j[0])

    results = {}
    with cf.ThreadPoolExecutor(max_workers=common.NCPU) as ex:
        futs = {ex.submit(libharness.run, j[2], j[3], None, 7200, j[4]): j for j in jobs}
        for fu in cf.as_completed(futs):
            results[futs[fu][1]] = fu.result()

    # one replay per signature: the shortest case over all jobs (every job reports its own minimal case)
    best = {}
    hit_by = {}
    for label in sorted(results):
        for sig, kase, what in results[label]["fails"]:
            hit_by.setdefault(sig, []).append(label)
            if sig not in best or (len(kase), label) < best[sig][:2]:
                best[sig] = (len(kase), label, kase)
    for label in results:
        results[label]["fails"] = [f for f in results[label]["fails"] if best[f[0]][1] == label and best[f[0]][2] == f[1]]
    if hit_by:
        res.extra["violation_jobs"] = {sig: len(v) for sig, v in hit_by.items()}

    per_config_nontrivial = {}
    dfs3_nontrivial = 0
    exhaustive = True
    totals = {}
    sample_quota = {"random": 5, "dfs": 4, "closure": 3}
    kind_order = {"random": 0, "dfs2": 1, "dfs3": 1, "closure0": 2, "closure1": 3}
    for label in sorted(results, key=lambda l: (kind_order.get(l.split("/")[2].split(":")[0], 9), l)):
        d = results[label]
        kind = "random" if "/random" in label else "dfs" if "/dfs" in label else "closure"
        take = 1 if d["samples"] and sample_quota[kind] > 0 else 0
        sample_quota[kind] -= take
        libharness.merge_into(res, d, label, sample_limit=take)
        ccfg = label.split("/")[0]
        nt = d["stats"].get("nontrivial", 0)
        if "/dfs3:" in label:
            dfs3_nontrivial += nt
        else:
            per_config_nontrivial[ccfg] = per_config_nontrivial.get(ccfg, 0) + nt
        if "/random" not in label and d["exhaustive"] is not True:
            exhaustive = False
        for k, v in d["stats"].items():
            if k not in ("evaluations", "nontrivial"):
                totals[k] = totals.get(k, 0) + v
    if not res.samples:
        # every job died early (sanitizer abort): the failing cases are the cases that were explored
        for label in sorted(results):
            for sig, kase, what in results[label]["fails"][:1]:
                res.sample({"config": label, "case": kase[:600]})
    # the per-job stats are summarised, not listed (hundreds of jobs in the thorough tier)
    res.extra.pop("runs", None)
    res.extra["totals"] = totals
    res.extra["jobs"] = len(jobs)
    res.extra["nontrivial_per_compiler_config"] = per_config_nontrivial
    res.extra["dfs_depth3_configs"] = sorted("%s:%s" % (cfg_label(c, s), x) for c, s, x in dfs3_cfgs)
    res.extra["random_sequences_per_binary"] = n_random
    res.exhaustive = exhaustive and not res.extra.get("inconclusive")
    # the compiler configurations run the same cases: the maximum, not the sum; depth-3 sequences run in one configuration only
    nontrivial = (max(per_config_nontrivial.values()) if per_config_nontrivial else 0) + dfs3_nontrivial
    return res.finish(nontrivial_count=nontrivial)


def replay(path):
    case = json.load(open(path))["case"]
    text = case["case"]
    m = re.match(r"(g\+\+|clang\+\+)-std(\d+)", case.get("config", ""))
    compiler, std = (m.group(1), m.group(2)) if m else ("g++", "17")
    m = re.search(r"cfg=([^;]+)", text)
    tcfg = m.group(1) if m else ""
    binary = None
    for p in range(PARTS):
        b = build_part(compiler, std, p)
        if tcfg in list_cfgs(b):
            binary = b
            break
    if binary is None:
        print("replay: type configuration %r does not exist for %s -std=c++%s" % (tcfg, compiler, std))
        return 2
    d = libharness.run(binary, ["--replay", text])
    print(d["out"][-3000:])
    for sig, kase, what in d["fails"]:
        print("replay: VIOLATED [%s] %s" % (sig, what[:600]))
    if not d["fails"]:
        print("replay: property holds for this case")
    return 1 if d["fails"] else 0
