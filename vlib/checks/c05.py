"""C05 — all size computations agree with the encoded size.

Part (a): pool images (current schema, no inflation): run-time size_bytes of the
message, every group, entry, data member, composite and array, the header, the
cursor-based size after a full traversal, size_bytes_checked and the trait-level
size_bytes(counts..., total_data) of the message and of every group instance
must all equal the sizes of the reference image.
Part (b) (huge header values) lives in the library harness, see c05_big.
"""
import json
import shutil

from hypothesis import strategies as st

from vlib import common, poolcheck, values


def expected_sizes(M, L, vals, size):
    out = ["size_bytes=%d" % size, "header=%d" % M.header.size, "checked_valid=1", "checked_size=%d" % size, "cursor_size=%d" % size]

    def level(Lv, v):
        for m in Lv.fields:
            if m.kind == "composite":
                out.append("c:%s=%d" % (m.name, m.size))
            elif m.kind == "array":
                out.append("a:%s=%d" % (m.name, m.size))
        for g in Lv.groups:
            gv = v["groups"][g.name]
            out.append("g:%s=%d" % (g.name, M.group_size(g, gv)))
            out.append("gh:%s=%d" % (g.name, g.dimension.size))
            for e in gv["entries"]:
                ev = dict(e)
                ev["extra"] = gv.get("extra", 0)   # entries share the group's wire blockLength
                out.append("e=%d" % M.level_size(g, ev))
                level(g, e)
            if not g.groups and not g.data:
                esz = g.block_length + gv.get("extra", 0)
                out.extend(["ei=%d" % esz] * len(gv["entries"]))
                if gv["entries"]:
                    out.extend(["ef=%d" % esz, "eb=%d" % esz])
        for d in Lv.data:
            out.append("d:%s=%d" % (d.name, d.header_size + len(v["data"][d.name])))
    level(L, vals)
    return out


def preorder_counts(L, instances):
    """totals of numInGroup per group (pre-order) over a list of level instances of L, and total data payload"""
    counts = []
    total = [0]

    def walk(Lv, insts):
        for d in Lv.data:
            total[0] += sum(len(i["data"][d.name]) for i in insts)
        for g in Lv.groups:
            ents = [e for i in insts for e in i["groups"][g.name]["entries"]]
            counts.append(len(ents))
            walk(g, ents)
    walk(L, instances)
    return counts, total[0]


def has_data_anywhere(L):
    return bool(L.data) or any(has_data_anywhere(g) for g in L.groups)


def trait_cases(M, L, vals):
    """(which, args, expected) for the message and every group instance"""
    res = []
    counts, total = preorder_counts(L, [vals])
    args = counts + ([total] if has_data_anywhere(L) else [])
    res.append((0, args, M.message_size(L, vals)))
    idx = [0]

    def walk(Lv, insts):
        for g in Lv.groups:
            idx[0] += 1
            gi = idx[0]
            for inst in insts:
                gv = inst["groups"][g.name]
                c, t = preorder_counts(g, gv["entries"])
                a = [len(gv["entries"])] + c + ([t] if has_data_anywhere(g) else [])
                res.append((gi, a, M.group_size(g, gv)))
            walk(g, [e for inst in insts for e in inst["groups"][g.name]["entries"]])
    walk(L, [vals])
    return res


def preorder_groups(L):
    res = []

    def walk(x):
        for g in x.groups:
            res.append(g)
            walk(g)
    walk(L)
    return res


def trait_formula(M, L, counts, total_data):
    """size of a message with the given TOTAL entry counts per group (pre-order) and total data payload, big-int arithmetic"""
    groups = preorder_groups(L)
    size = M.header.size + L.block_length
    size += sum(g.dimension.size for g in L.groups) + sum(d.header_size for d in L.data)
    for g, n in zip(groups, counts):
        size += n * (g.block_length + sum(c.dimension.size for c in g.groups) + sum(d.header_size for d in g.data))
    return size + total_data


def group_trait_formula(M, g, counts, total_data):
    """size of a group instance with counts[0] entries and the given TOTAL entry counts of its nested groups (pre-order)"""
    sub = [g] + preorder_groups(g)
    size = g.dimension.size
    for x, n in zip(sub, counts):
        size += n * (x.block_length + sum(c.dimension.size for c in x.groups) + sum(d.header_size for d in x.data))
    return size + total_data


def preorder_data(L):
    res = []

    def walk(x):
        res.extend(x.data)
        for g in x.groups:
            walk(g)
    walk(L)
    return res


def args_representable(M, L, which, args):
    from vlib.schemagen import prim_range
    groups = preorder_groups(L)
    if which == 0:
        plist = groups
    else:
        g = groups[which - 1]
        plist = [g] + preorder_groups(g)
    for g, a in zip(plist, args):
        if a > prim_range(M.member(g.dimension, "numInGroup").prim)[1]:
            return False
    return True


def cursor_checkable(L):
    return any(not m.is_const for m in L.fields) or L.groups or L.data


def run(t, budget=1.0):
    pc = poolcheck.PoolCheck("C05", t, budget)
    res = pc.res
    res.rule = ("pool schema x message x value tree (group cardinalities 0..3, data lengths 0..24) reference-encoded under the current "
                "schema; run-time size_bytes of message/header/groups/entries/data/composites/arrays, cursor-based size, size_bytes_checked "
                "and the trait formulas size_bytes(counts..., total_data) of the message and of every group instance must equal the "
                "reference sizes; non-trivial = message with a nested group or data present and >= 1 entry or non-empty data; distinct "
                "by image hash")
    res.assumptions = ["reference model is the trusted SBE layout", "huge numInGroup/blockLength products are covered by the separate big-value part"]
    if not pc.entries:
        return pc.finish()

    def body(data):
        entry, mi, L = pc.draw_target(data)
        M = entry.model
        groups = preorder_groups(L)
        if L.groups and not L.groups[0].groups and not L.groups[0].data and data.draw(st.integers(0, 5)) == 0:
            # run-time size of a flat group from its header alone: numInGroup x blockLength up to the type maxima
            from vlib.schemagen import prim_range
            g0 = L.groups[0]
            empty = {"fields": data.draw(values.level_values(L, max_entries=0))["fields"], "groups": {g.name: {"entries": []} for g in L.groups},
                     "data": {d.name: b"" for d in L.data}}
            img, size = M.encode_message(L, empty, background=0)
            gpos = M.header.size + L.block_length
            nm, bm = M.member(g0.dimension, "numInGroup"), M.member(g0.dimension, "blockLength")
            ntop, btop = prim_range(nm.prim)[1], prim_range(bm.prim)[1]
            pick = lambda top: data.draw(st.one_of(st.sampled_from(sorted({0, 1, top, top - 1, top // 2 + 1, min(top, 255), min(top, 50000), min(top, 65535), min(top, 65537), min(top, 2 ** 31), min(top, 2 ** 32 - 1)})), st.integers(0, top)))
            nv, bv = pick(ntop), pick(btop)
            expv = g0.dimension.size + nv * bv
            if expv < 2 ** 63:
                b = bytearray(img[:gpos + g0.dimension.size])
                M.put_member(b, gpos, nm, nv)
                M.put_member(b, gpos, bm, bv)
                line = "gsize %d %s" % (mi, bytes(b).hex())
                if nv * bv >= 2 ** 31:
                    res.nontriv(common.text_hash(entry.dir, line))
                res.cls("flat_group_header_only_size")
                for cfg in entry.value_configs():
                    resp = pc.call(entry, cfg, line)
                    res.count()
                    if resp != "OK gsize=%d n=%d" % (expv, nv):
                        pc.fail("size-mismatch:flat-group-big-product", entry,
                                {"cmd": line, "config": cfg, "expected": "OK gsize=%d n=%d" % (expv, nv), "actual": resp},
                                "[%s] size_bytes of flat group %s with numInGroup=%d blockLength=%d: expected %d, got %s" % (cfg, g0.name, nv, bv, expv, resp[:100]))
            return
        pdata = preorder_data(L)
        if pdata and data.draw(st.integers(0, 7)) == 0:
            # (1) data_traits<>::size_bytes(n) for any n of the length type; (2) run-time size of the first root-level data
            # member of a group-less message from its length prefix alone (payload not in memory, as for flat groups)
            from vlib.schemagen import prim_range
            di = data.draw(st.integers(0, len(pdata) - 1))
            d = pdata[di]
            ltop = prim_range(d.length_prim)[1]
            pick = data.draw(st.one_of(st.sampled_from(sorted({0, 1, ltop, ltop - 1, ltop // 2 + 1, min(ltop, 255), min(ltop, 65535), min(ltop, 65536), min(ltop, 2 ** 31), min(ltop, 2 ** 32 - 1), min(ltop, 2 ** 32), min(ltop, 2 ** 63 - 100)})),
                                       st.integers(0, ltop)))
            expv = d.header_size + pick
            if expv < 2 ** 64:
                line = "dtsize %d %d %d" % (mi, di, pick)
                if pick >= 2 ** 16:
                    res.nontriv(common.text_hash(entry.dir, line))
                res.cls("data_trait_any_length")
                for cfg in entry.value_configs():
                    resp = pc.call(entry, cfg, line)
                    res.count()
                    if resp != "OK trait=%d" % expv:
                        pc.fail("size-mismatch:data-trait", entry, {"cmd": line, "config": cfg, "expected": "OK trait=%d" % expv, "actual": resp},
                                "[%s] data_traits size_bytes(%d) of data member #%d of %s: expected %d, got %s" % (cfg, pick, di, L.name, expv, resp[:100]))
            if L.data and not L.groups and expv < 2 ** 63:
                d0 = L.data[0]
                lm0 = M.member(d0.encoding, "length")
                top0 = prim_range(d0.length_prim)[1]
                nv = min(pick, top0) if data.draw(st.booleans()) else data.draw(st.sampled_from(sorted({0, 1, top0, top0 - 1, min(top0, 2 ** 31), min(top0, 2 ** 32 + 1), min(top0, 2 ** 62)})))
                if d0.header_size + nv >= 2 ** 63:
                    # the property is about sizes that fit size_t (DESIGN 4, C05); a 64-bit length near the type maximum does not
                    res.cls("data_size_not_representable_skipped")
                    return
                empty = {"fields": data.draw(values.level_values(L, max_entries=0))["fields"], "groups": {}, "data": {x.name: b"" for x in L.data}}
                img, size = M.encode_message(L, empty, background=0)
                dpos = M.header.size + L.block_length
                b = bytearray(img[:dpos + d0.header_size])
                M.put_member(b, dpos, lm0, nv)
                line = "dsize %d %s" % (mi, bytes(b).hex())
                want = "OK dsize=%d n=%d" % (d0.header_size + nv, nv)
                if nv >= 2 ** 16:
                    res.nontriv(common.text_hash(entry.dir, line))
                res.cls("data_prefix_only_size")
                for cfg in entry.value_configs():
                    resp = pc.call(entry, cfg, line)
                    res.count()
                    if resp != want:
                        pc.fail("size-mismatch:data-big-length", entry, {"cmd": line, "config": cfg, "expected": want, "actual": resp},
                                "[%s] size_bytes of data %s with length=%d: expected %s, got %s" % (cfg, d0.name, nv, want, resp[:100]))
            return
        if groups and data.draw(st.integers(0, 6)) == 0:
            # group-level trait formula with large counts (no image)
            from vlib.schemagen import prim_range
            gi = data.draw(st.integers(0, len(groups) - 1))
            g = groups[gi]
            sub = [g] + preorder_groups(g)
            counts = []
            for x in sub:
                top = prim_range(M.member(x.dimension, "numInGroup").prim)[1]
                counts.append(data.draw(st.one_of(st.sampled_from(sorted({0, 1, top, top - 1, top // 2 + 1, min(top, 65535), min(top, 65536), min(top, 2 ** 31), min(top, 2 ** 32 - 1)})),
                                                  st.integers(0, top))))
            total = data.draw(st.sampled_from([0, 1, 2 ** 16, 2 ** 32 + 5])) if has_data_anywhere(g) else 0
            expv = group_trait_formula(M, g, counts, total)
            if expv < 2 ** 64:
                args = counts + ([total] if has_data_anywhere(g) else [])
                line = "tsize %d %d %s" % (mi, gi + 1, " ".join(str(a) for a in args))
                if max(counts + [0]) >= 2 ** 16:
                    res.nontriv(common.text_hash(entry.dir, line))
                res.cls("group_trait_big_counts")
                for cfg in entry.value_configs():
                    resp = pc.call(entry, cfg, line)
                    res.count()
                    if resp != "OK trait=%d" % expv:
                        pc.fail("size-mismatch:trait-group-big-counts", entry,
                                {"cmd": line, "config": cfg, "expected": "OK trait=%d" % expv, "actual": resp},
                                "[%s] group %s trait size_bytes(%s): expected %d, got %s" % (cfg, g.name, args, expv, resp[:100]))
            return
        if groups and data.draw(st.integers(0, 4)) == 0:
            # trait formula with large counts (no image): every numInGroup value up to the type maximum
            from vlib.schemagen import prim_range
            counts = []
            for g in groups:
                top = prim_range(M.member(g.dimension, "numInGroup").prim)[1]
                counts.append(data.draw(st.one_of(st.sampled_from(sorted({0, 1, top, top - 1, top // 2 + 1, min(top, 65535), min(top, 65536), min(top, 2 ** 31), min(top, 2 ** 32 - 1)})),
                                                  st.integers(0, top))))
            total = data.draw(st.sampled_from([0, 1, 2 ** 16, 2 ** 32 + 5])) if has_data_anywhere(L) else 0
            expv = trait_formula(M, L, counts, total)
            if expv < 2 ** 64:
                args = counts + ([total] if has_data_anywhere(L) else [])
                line = "tsize %d 0 %s" % (mi, " ".join(str(a) for a in args))
                if max(counts + [0]) >= 2 ** 16:
                    res.nontriv(common.text_hash(entry.dir, line))
                res.cls("trait_big_counts")
                for cfg in entry.value_configs():
                    resp = pc.call(entry, cfg, line)
                    res.count()
                    if resp != "OK trait=%d" % expv:
                        pc.fail("size-mismatch:trait-message-big-counts", entry,
                                {"cmd": line, "config": cfg, "expected": "OK trait=%d" % expv, "actual": resp},
                                "[%s] message %s trait size_bytes(%s): expected %d, got %s" % (cfg, L.name, args, expv, resp[:100]))
            return
        vals = data.draw(values.level_values(L, max_entries=3, inflate=False, model=M))
        img, size = M.encode_message(L, vals, background=data.draw(st.sampled_from([0, 0xFF, 0x77])))
        exp = expected_sizes(M, L, vals, size)
        nontrivial = (L.data or any(g.groups or g.data for g in L.groups)) and (values.count_entries(vals) > 0 or any(len(x) for x in vals["data"].values()))
        if nontrivial:
            res.nontriv(common.text_hash(entry.dir, img))
        if len(res.samples) < 5 and nontrivial and (len(res.samples) < 2 or res.evaluations % 301 < 9):
            res.sample({"schema": entry.dir.split("/")[-1], "message": L.name, "expected": exp[:30]})
        tcs = trait_cases(M, L, vals)
        for cfg in entry.value_configs():
            resp = pc.call(entry, cfg, "sizes %d %s" % (mi, img.hex()))
            res.count()
            got = resp[3:].split() if resp.startswith("OK ") else None
            e2 = exp
            if got is not None and not cursor_checkable(L):
                got = [g for g in got if not g.startswith("cursor_size=")]
                e2 = [g for g in exp if not g.startswith("cursor_size=")]
            if got != e2:
                bad = "response: " + resp[:200]
                if got is not None:
                    for a, b in zip(e2, got):
                        if a != b:
                            bad = "expected %s got %s" % (a, b)
                            break
                    else:
                        bad = "expected %d values got %d" % (len(e2), len(got))
                pc.fail("size-mismatch:runtime" if got is not None else "size-" + resp.split(" ")[0].lower(), entry,
                        {"cmd": "sizes %d %s" % (mi, img.hex()), "config": cfg, "expected": " ".join(e2), "actual": resp, "values": values.tree_hash_key(vals)},
                        "[%s] message %s: %s" % (cfg, L.name, bad))
            for which, args, expv in tcs:
                if not args_representable(M, L, which, args):
                    # a total entry count that does not fit the (narrow) numInGroup parameter type cannot be passed to the trait
                    res.cls("trait_args_not_representable")
                    continue
                line = "tsize %d %d %s" % (mi, which, " ".join(str(a) for a in args))
                resp = pc.call(entry, cfg, line)
                res.count()
                if resp != "OK trait=%d" % expv:
                    pc.fail("size-mismatch:trait-%s" % ("message" if which == 0 else "group"), entry,
                            {"cmd": line, "config": cfg, "expected": "OK trait=%d" % expv, "actual": resp, "values": values.tree_hash_key(vals)},
                            "[%s] message %s trait size_bytes(%s) (level #%d): expected %d, got %s" % (cfg, L.name, args, which, expv, resp[:100]))

    pc.run_hypothesis(body, 3000 if t == "quick" else 25000)
    return pc.finish()


def replay(path):
    case = json.load(open(path))["case"]
    entry = poolcheck.replay_entry(case, [case["config"]])
    if entry is None:
        return 1
    try:
        d = poolcheck.poolmod.Driver(entry.driver(case["config"]))
        resp = d.call(case["cmd"])
        d.close()
        print("expected:", case["expected"][:800])
        print("actual:  ", resp[:800])
        ok = resp in (case["expected"], "OK " + case["expected"])
        print("replay:", "holds now" if ok else "STILL FAILS")
        return 0 if ok else 1
    finally:
        shutil.rmtree(entry.dir, ignore_errors=True)
