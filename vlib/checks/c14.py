"""C14 — fixed-length arrays: assignment, padding and string length are exact.

Two C++ harnesses instantiate `sbepp::detail::static_array_ref<Byte, char, N, Tag>`
directly (no sbeppc involved):

* /verif/harness/c14.cpp — run-time search.  Exhaustive: N in 0..5 (0..6 in the
  thorough tier) x every prior content over {NUL,'a','b'} x every input of length
  0..N (NUL-free for `const char*`, with and without embedded NUL for ranges /
  iterators / initializer lists) x eos modes {none, single, all, default argument}
  x 20 overloads; then rapidcheck with N up to 64 and arbitrary bytes.  Each case
  runs on a roomy arena (whole-arena diff, guard element on each side) and on a
  heap block of exactly guard+N+guard bytes (ASan).  Built once with the default
  assert() and once with -DSBEPP_ENABLE_ASSERTS_WITH_HANDLER (the handler must not
  fire while the documented preconditions hold).
* /verif/harness/c14_cx.cpp — constexpr differential (C++20/23 only): the same
  functions are evaluated in constant expressions and at run time on an array
  embedded in a larger array, and both sides are compared with the reference.
  A grid TU that does not compile is reported with the compiler message.

Oracle: /verif/harness/c14_ref.hpp, written from the doxygen comments of
static_array_ref / eos_null and doc/representation.md.
"""
import concurrent.futures as cf
import json
import os
import re

from vlib import common, libharness

PROP = "C14"
HELPERS = ("c14_ref.hpp",)

CX_FLAGS = {
    "g++": ["-fconstexpr-ops-limit=4000000000", "-fconstexpr-loop-limit=100000000"],
    "clang++": ["-fconstexpr-steps=2000000000"],
}


def helper_hash():
    return common.file_hash(*[os.path.join(common.VERIF, "harness", h) for h in HELPERS])


def plan(t):
    """[(label, kind, compiler, std, variant)] — kind: main | cx1 | cx2"""
    if t == "quick":
        mains = [("g++", "11", "assert"), ("g++", "20", "handler"), ("clang++", "17", "assert")]
        cxs = [("g++", "20"), ("clang++", "20")]
    else:
        mains = []
        for comp in ("g++", "clang++"):
            for std in ("11", "14", "17", "20", "23"):
                for variant in ("assert", "handler"):
                    mains.append((comp, std, variant))
        cxs = [(c, s) for c in ("g++", "clang++") for s in ("20", "23")]
    out = [("%s-%s-%s" % (c, s, v), "main", c, s, v) for c, s, v in mains]
    for c, s in cxs:
        out.append(("%s-%s-cx1" % (c, s), "cx1", c, s, ""))
        out.append(("%s-%s-cx2" % (c, s), "cx2", c, s, ""))
    return out


def build_one(kind, compiler, std, variant, t="quick"):
    tag = "%s-%s-%s%s-%s" % (compiler, std, kind, variant, helper_hash())
    if kind == "main":
        defines = ["SBEPP_ENABLE_ASSERTS_WITH_HANDLER"] if variant == "handler" else []
        return libharness.build("c14.cpp", tag, compiler=compiler, std=std, defines=defines)
    defines = ["C14_CX_PART=%s" % kind[2]]
    if kind == "cx2" and t != "quick":
        defines.append("C14_CX_MAXN=4")
        tag += "-n4"
    return libharness.build("c14_cx.cpp", tag, compiler=compiler, std=std, defines=defines, libs=(), extra=CX_FLAGS[compiler])


def compile_signature(label_kind, compiler, msg):
    """Stable signature for a grid TU that does not compile: first error line without locations."""
    m = re.search(r"error: (.*)", msg)
    first = m.group(1) if m else "no error line"
    first = re.sub(r"/\S+?:\d+(:\d+)?", "", first)
    first = re.sub(r"\d+", "#", first)
    first = re.sub(r"\s+", " ", first).strip()[:90]
    return "cx-compile:%s:%s" % (label_kind, first)


def run_one(item, t, budget, seed, known):
    label, kind, compiler, std, variant = item
    try:
        binary = build_one(kind, compiler, std, variant, t)
    except common.BuildError as e:
        if kind == "main":
            raise
        return label, {"compile_error": str(e), "kind": kind, "compiler": compiler}
    args = ["--seed", str(seed), "--tier", t, "--known", ";".join(known)]
    n = int((600000 if t == "quick" else 3000000) * budget)
    # malloc_context_size: ASan's stack depot otherwise grows by ~1 KB per rapidcheck case (2.5 GB per process in the thorough tier)
    env = {"RC_PARAMS": "seed=%d max_success=%d max_size=100" % (seed, max(n, 100)),
           "ASAN_OPTIONS": "detect_leaks=0:quarantine_size_mb=32:malloc_context_size=2"}
    d = libharness.run(binary, args, timeout=7200, env=env)
    return label, d


def run(t, budget=1.0):
    res = common.Result(PROP, t, level="exploration")
    res.rule = (
        "case = (N, prior content, overload, eos mode, input bytes | count,value) on static_array_ref<Byte,char,N>. "
        "Exhaustive part: N in 0..5 (thorough: 0..6) x all 3^N contents over {NUL,'a','b'} x all inputs of length 0..N "
        "(alphabet {'a','b'} for const char*, {NUL,'a','b'} for the 18 range/iterator/initializer-list overloads) x "
        "{none,single,all,default} x assign(count,v)/fill(v) for every count and v in the alphabet; observers on every content with "
        "non-NUL and NUL guards. Random part: rapidcheck, N from {0..8,16,17,31,33,64}, arbitrary bytes (NUL-rich and NUL-free "
        "profiles), Byte in {char, unsigned char, std::byte}. constexpr part (C++20/23): N in 0..6 observers, N in 0..3 (thorough 0..4) "
        "assignment overloads, constant-evaluated vs run time vs reference. "
        "Non-trivial = input/count shorter than N (padding or untouched tail observable) or prior content without NUL "
        "(strlen boundary); distinct by hash of (N, content, input, mode, overload[, count, value]); the harness counts them, "
        "the maximum over configurations is reported (configurations share the exhaustive cases)")
    res.assumptions = [
        "Value = char only (SBE char arrays); Byte in {char, unsigned char, std::byte}; other element types are not strings and are outside C14",
        "only calls whose documented preconditions hold are made (input length / count <= N, non-null pointer); behaviour on violated "
        "preconditions is not asserted because neither the doxygen comments nor doc/*.md promise a check",
        "front()/back() are only called for N > 0",
        "array lengths with instantiated code: 0..8,16,17,31,33,64 for Byte=char; 0..3,17,64 for unsigned char and std::byte",
        "initializer lists of length <= 8, N-1 and N only (their length is a compile-time quantity)",
        "constexpr grid: Byte = Value = char (data() casts Byte* to Value*, which is only a constant expression when both are the same type); "
        "std::string inputs are constant-evaluated with g++ only (clang 14 cannot constant-evaluate libstdc++ 12's std::string)",
        "toolchains: g++ 12.2 and clang++ 14.0.6 with libstdc++ 12",
    ]
    seed = common.seed()
    known = sorted(res.findings.known.keys())
    items = plan(t)
    res.max_samples = 24
    results = {}
    with cf.ThreadPoolExecutor(max_workers=common.NCPU) as ex:
        futs = {ex.submit(run_one, it, t, budget, seed * 100 + i, known): it for i, it in enumerate(items)}
        for fu in cf.as_completed(futs):
            label, d = fu.result()
            results[label] = d
    nontriv = 0
    exhaustive = True
    for label in sorted(results):
        d = results[label]
        if "compile_error" in d:
            msg = d["compile_error"]
            sig = compile_signature(d["kind"], d["compiler"], msg)
            res.violation(sig, {"config": label, "case": "compile", "compiler_output": msg[-3000:]},
                          "[%s] the constexpr grid TU does not compile: %s" % (label, msg[-1500:]))
            exhaustive = False
            continue
        libharness.merge_into(res, d, label, sample_limit=3)
        nontriv = max(nontriv, d["stats"].get("nontrivial", 0))
        if d["exhaustive"] is not True:
            exhaustive = False
        if d["rc"] not in (0, 1) and not d["fails"]:
            exhaustive = False
    res.exhaustive = exhaustive
    res.extra["configs"] = sorted(results)
    return res.finish(nontrivial_count=nontriv)


def replay(path):
    rec = json.load(open(path))
    case = rec["case"]
    label = case["config"]
    m = re.match(r"(g\+\+|clang\+\+)-(\d+)-(assert|handler|cx1|cx2)$", label)
    if not m:
        print("cannot parse configuration label %r" % label)
        return 2
    compiler, std, v = m.groups()
    kind = v if v.startswith("cx") else "main"
    t = "thorough" if (kind == "cx2" and " N=4 " in case.get("case", "")) else "quick"
    try:
        binary = build_one(kind, compiler, std, v if kind == "main" else "", t)
    except common.BuildError as e:
        if kind == "main":
            raise
        print("replay: the constexpr grid TU does not compile:\n%s" % str(e)[-3000:])
        return 1
    if case.get("case") == "compile":
        print("replay: the constexpr grid TU compiles now (%s)" % label)
        return 0
    d = libharness.run(binary, ["--seed", "1", "--tier", t, "--replay", case["case"]], timeout=600)
    for line in d["out"].splitlines():
        if line.startswith(("FAIL ", "REPLAY ", "INFO ")) or "ERROR" in line or "runtime error" in line:
            print(line[:1500])
    if d["fails"]:
        print("replay: property violated (%s)" % d["fails"][0][0])
        return 1
    print("replay: property holds for this case")
    return 0
