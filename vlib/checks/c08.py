"""C08 — sbeppc rejects exactly the schemas that break its layout rules.

A Hypothesis-generated valid schema gets at most one rule-breaking edit from a
catalog (DESIGN 4 C08 / A.2), applied at a random applicable position.  Oracle:
unedited => exit 0; edited => exit != 0 and the first diagnostic is a located
`Error: <file>:<line>:<col>: ...` line.  The expected verdict comes from the
edit by construction *and* from the independent rule checker (vlib/rules.py):
both must agree, which guards the catalog against edits that break no rule.
"""
import concurrent.futures as cf
import copy
import json
import os
import re
import shutil

from hypothesis import HealthCheck, Phase, given, seed as hseed, settings, strategies as st

from vlib import common, rules, schemagen
from vlib.schemagen import PRIMS, prim_range

KEYWORD_NAMES = sorted(rules.KEYWORDS)
BAD_NAMES = ["9x", "a-b", "a b", "x.y", "é", "a+", "-a", ".Qty", "+x", "$v", "a$", "x-"]   # bad first / middle / last character


def walk_types(sch):
    """yields (encoding dict, container list, context) for public and nested encodings"""
    def rec(el, ctx):
        yield el, ctx
        if el["kind"] == "composite":
            for e in el["elements"]:
                yield from rec(e, "member")
    for t in sch["types"]:
        yield from rec(t, "public")


def walk_levels(sch):
    def rec(L, kind, depth):
        yield L, kind, depth
        for g in L["groups"]:
            yield from rec(g, "group", depth + 1)
    for m in sch["messages"]:
        yield from rec(m, "message", 0)


def header_names(sch):
    hs = {(sch.get("header_type") or "messageHeader").lower()}
    for L, kind, d in walk_levels(sch):
        if kind == "group":
            hs.add(L["dimension_type"].lower())
        for x in L["data"]:
            hs.add(x["type"].lower())
    return hs


def out_of_range_text(prim, draw):
    size, kind = PRIMS[prim]
    if kind == "f":
        return draw(st.sampled_from(["1e39" if size == 4 else "1e400", "-1e39" if size == 4 else "-1e400", "abc", "0x10", "1,5", "nan", "-NaN", "1e", ""]))
    lo, hi = prim_range(prim)
    if kind == "c":
        lo, hi = -128, 127
    return draw(st.sampled_from([str(hi + 1), str(lo - 1), str(hi * 10 + 7), "1.5", "x", "+1", " 1", "0x1", "1e3"]))


def candidates(sch, draw):
    """list of (rule, position kind, mutate(sch_copy)) — positions are addressed by index paths so they survive deepcopy"""
    T = schemagen
    types_by_name = {t["name"].lower(): t for t in list(sch["types"]) + list((sch.get("_include") or {}).get("types", []))}
    hdrs = header_names(sch)
    cands = []

    def type_path(target):
        """index path of an encoding inside sch['types'] (list of indexes)"""
        def rec(el, path):
            if el is target:
                return path
            if el["kind"] == "composite":
                for i, e in enumerate(el["elements"]):
                    r = rec(e, path + [i])
                    if r is not None:
                        return r
            return None
        for i, t in enumerate(sch["types"]):
            r = rec(t, [i])
            if r is not None:
                return r
        return None

    def at_type(s, path):
        el = s["types"][path[0]]
        for i in path[1:]:
            el = el["elements"][i]
        return el

    def level_path(target):
        def rec(L, path):
            if L is target:
                return path
            for i, g in enumerate(L["groups"]):
                r = rec(g, path + [i])
                if r is not None:
                    return r
            return None
        for i, m in enumerate(sch["messages"]):
            r = rec(m, [i])
            if r is not None:
                return r
        return None

    def at_level(s, path):
        L = s["messages"][path[0]]
        for i in path[1:]:
            L = L["groups"][i]
        return L

    used_as_header_member = set()
    for hn in hdrs:
        c = types_by_name.get(hn)
        if c and c["kind"] == "composite":
            for e in c["elements"]:
                if e["kind"] == "ref":
                    used_as_header_member.add(e["type"].lower())

    # ---- types
    for el, ctx in walk_types(sch):
        p = type_path(el)
        kind = el["kind"]
        pos = "%s-%s" % (ctx, kind)
        if kind == "type":
            scalar = el["presence"] != "constant" and (el["length"] in (None, 1))
            if scalar:
                for attr in ("min", "max") + (("null",) if el["presence"] == "optional" else ()):
                    def mut(s, p=p, attr=attr, prim=el["prim"]):
                        at_type(s, p)[attr] = out_of_range_text(prim, draw)
                    cands.append(("value-not-representable", pos + "-" + attr, mut))
                if PRIMS[el["prim"]][0] > 1:
                    def mut(s, p=p):
                        at_type(s, p)["length"] = draw(st.sampled_from([0, 2, 2, 3, 100]))
                    cands.append(("multi-byte-array", pos, mut))
            if el["presence"] == "constant" and el["prim"] != "char" and el.get("value_ref") is None:
                def mut(s, p=p, prim=el["prim"]):
                    at_type(s, p)["const"] = out_of_range_text(prim, draw) or "x"
                cands.append(("value-not-representable", pos + "-const", mut))

                def mut2(s, p=p):
                    at_type(s, p)["length"] = 2
                cands.append(("constant-length-rule", pos, mut2))
            if el["presence"] == "constant" and el["prim"] == "char" and el.get("value_ref") is None and el["length"] is not None and len(el["const"]) > 1:
                def mut(s, p=p, n=len(el["const"])):
                    at_type(s, p)["length"] = n - 1
                cands.append(("constant-length-rule", pos + "-char", mut))
            if el["presence"] == "constant":
                # a char constant whose text is padded with white space (a pretty-printed schema): the raw text is what counts,
                # and it is longer than `length`.  Any constant can be turned into one (constants take no space in a layout).
                def mut(s, p=p, c=(el["const"] if (el["prim"] == "char" and el.get("value_ref") is None and el.get("const")) else "ab")):
                    t_ = at_type(s, p)
                    t_["prim"] = "char"
                    t_["value_ref"] = None
                    t_["min"] = t_["max"] = t_["null"] = None
                    t_["length"] = len(c)
                    t_["const"] = draw(st.sampled_from(["  ", " ", "\n    "])) + c + draw(st.sampled_from(["  ", " ", "\n  "]))
                cands.append(("constant-length-rule", pos + "-char-padded-text", mut))
            if el["presence"] == "constant":
                def mut(s, p=p):
                    at_type(s, p)["const"] = None
                    at_type(s, p)["value_ref"] = None
                cands.append(("constant-value-rule", pos + "-novalue", mut))
            if el["presence"] == "constant" and el.get("value_ref") is not None:
                # exactly one of text / valueRef
                def mut(s, p=p):
                    at_type(s, p)["const"] = "1"
                cands.append(("constant-value-rule", pos + "-value-and-valueRef", mut))

                def mut(s, p=p):
                    vr = at_type(s, p)["value_ref"]
                    at_type(s, p)["value_ref"] = draw(st.sampled_from([vr.split(".")[0] + ".no_such_value", "nope." + vr.split(".")[1]]))
                cands.append(("unknown-reference", pos + "-type-valueRef", mut))

                def mut(s, p=p):
                    at_type(s, p)["length"] = 2
                cands.append(("constant-length-rule", pos + "-valueRef", mut))
        if kind == "enum":
            for vi, v in enumerate(el["values"]):
                def mut(s, p=p, vi=vi, prim=el["prim"]):
                    at_type(s, p)["values"][vi]["value"] = "ab" if prim == "char" else (out_of_range_text(prim, draw) or "x")
                cands.append(("value-not-representable", pos + "-validValue", mut))
            if len(el["values"]) >= 2:
                def mut(s, p=p):
                    vs = at_type(s, p)["values"]
                    vs[1]["name"] = vs[0]["name"]
                cands.append(("duplicate-valid-value", pos, mut))
            for vi, v in enumerate(el["values"][:2]):
                def mut(s, p=p, vi=vi):
                    at_type(s, p)["values"][vi]["name"] = draw(st.sampled_from(KEYWORD_NAMES))
                cands.append(("keyword-name", pos + "-validValue", mut))
            others = [t["name"] for t in sch["types"] if t["kind"] in ("composite", "enum", "set") and t is not el]
            arrays = [t["name"] for t in sch["types"] if t["kind"] == "type" and t["length"] not in (None, 1) and t["presence"] != "constant"]
            floats = [t["name"] for t in sch["types"] if t["kind"] == "type" and t["length"] in (None, 1) and PRIMS[t["prim"]][1] == "f" and t["presence"] != "constant"]
            def mut(s, p=p):
                at_type(s, p)["enc"] = "no_such_type_1"
            cands.append(("unknown-reference", pos + "-encodingType", mut))
            if others + arrays + floats:
                def mut(s, p=p, cs=others + arrays + floats):
                    at_type(s, p)["enc"] = draw(st.sampled_from(cs))
                cands.append(("wrong-kind-reference", pos + "-encodingType", mut))
            def mut(s, p=p):
                at_type(s, p)["enc"] = draw(st.sampled_from(["float", "double"]))
            cands.append(("wrong-kind-reference", pos + "-encodingType-fp", mut))
        if kind == "set":
            for ci, c in enumerate(el["choices"]):
                def mut(s, p=p, ci=ci, w=PRIMS[el["prim"]][0] * 8):
                    at_type(s, p)["choices"][ci]["index"] = draw(st.sampled_from([w, w + 1, 255, 256, 256 + w - 1, 264, 300, 65536]))
                cands.append(("choice-index-out-of-range", pos, mut))
            if len(el["choices"]) >= 2:
                def mut(s, p=p):
                    cs = at_type(s, p)["choices"]
                    cs[1]["name"] = cs[0]["name"]
                cands.append(("duplicate-choice", pos, mut))
            for ci, c in enumerate(el["choices"][:2]):
                def mut(s, p=p, ci=ci):
                    at_type(s, p)["choices"][ci]["name"] = draw(st.sampled_from(KEYWORD_NAMES))
                cands.append(("keyword-name", pos + "-choice", mut))
            def mut(s, p=p):
                at_type(s, p)["enc"] = draw(st.sampled_from(["int8", "int16", "int32", "int64", "char", "float"]))
            cands.append(("wrong-kind-reference", pos + "-encodingType-signed", mut))
            def mut(s, p=p):
                at_type(s, p)["enc"] = "NoSuchType"
            cands.append(("unknown-reference", pos + "-encodingType", mut))
        if kind == "composite":
            # offset below minimum for a member that has a non-const member of non-zero size before it
            off = 0
            for i, e in enumerate(el["elements"]):
                if T._is_const_elem(e, types_by_name):
                    continue
                start = e["offset"] if e.get("offset") is not None else off
                if start > 0 and off > 0:
                    def mut(s, p=p, i=i, off=off):
                        at_type(s, p)["elements"][i]["offset"] = draw(st.integers(0, off - 1))
                    cands.append(("offset-below-minimum", pos + "-member-" + e["kind"], mut))
                off = start + T.elem_size(e, types_by_name)
            if len(el["elements"]) >= 2:
                def mut(s, p=p):
                    es = at_type(s, p)["elements"]
                    es[1]["name"] = es[0]["name"]
                if el["name"].lower() not in hdrs:
                    cands.append(("duplicate-composite-element", pos, mut))
            # cyclic reference (direct) — only where the composite is public
            if ctx == "public":
                def vc(n):
                    # the reference that closes a cycle may spell its target in another letter case (lookup ignores case)
                    return draw(st.sampled_from([n, n, n.swapcase(), n.upper(), n.lower()]))

                def mut(s, p=p, nm=el["name"]):
                    at_type(s, p)["elements"].append({"kind": "ref", "name": "cyc_self", "type": vc(nm), "offset": None, "description": None, "since": None, "deprecated": None})
                cands.append(("cyclic-reference", pos + "-direct", mut))
                inl = [i for i, e in enumerate(el["elements"]) if e["kind"] == "composite"]
                if inl:
                    def mut(s, p=p, nm=el["name"], i=inl[0]):
                        at_type(s, p)["elements"][i]["elements"].append({"kind": "ref", "name": "cyc_in", "type": vc(nm), "offset": None, "description": None, "since": None, "deprecated": None})
                    cands.append(("cyclic-reference", pos + "-from-inline-composite", mut))
                pubs = [t for t in sch["types"] if t["kind"] == "composite" and t is not el]
                if pubs:
                    def mut(s, p=p, nm=el["name"], other=pubs[0]["name"]):
                        at_type(s, p)["elements"].append({"kind": "ref", "name": "cyc_a", "type": vc(other), "offset": None, "description": None, "since": None, "deprecated": None})
                        for t in s["types"]:
                            if t["name"] == other:
                                t["elements"].append({"kind": "ref", "name": "cyc_b", "type": vc(nm), "offset": None, "description": None, "since": None, "deprecated": None})
                    cands.append(("cyclic-reference", pos + "-indirect", mut))
        if kind == "ref":
            def mut(s, p=p):
                at_type(s, p)["type"] = "missing_type"
            cands.append(("unknown-reference", pos, mut))
        # names
        if el["name"].lower() not in hdrs and not (ctx == "member"):
            # renaming a public type would break references to it: only rename types nobody refers to
            referenced = any((f["type"].lower() == el["name"].lower()) for L, _, _ in walk_levels(sch) for f in L["fields"]) or \
                any(e.get("type", "").lower() == el["name"].lower() or e.get("enc", "").lower() == el["name"].lower() for e, _ in walk_types(sch)) or \
                any((f.get("value_ref") or "").split(".")[0].lower() == el["name"].lower() for L, _, _ in walk_levels(sch) for f in L["fields"])
            if not referenced:
                def mut(s, p=p):
                    at_type(s, p)["name"] = draw(st.sampled_from(KEYWORD_NAMES))
                cands.append(("keyword-name", pos, mut))

                def mut(s, p=p):
                    at_type(s, p)["name"] = draw(st.sampled_from(BAD_NAMES))
                cands.append(("invalid-name", pos, mut))
        if ctx == "member":
            parent_is_header = False
            for t in sch["types"]:
                if t["kind"] == "composite" and t["name"].lower() in hdrs and any(e is el for e in t["elements"]):
                    parent_is_header = True
            if not parent_is_header or el["name"] not in ("blockLength", "numInGroup", "templateId", "schemaId", "version", "length", "varData"):
                def mut(s, p=p):
                    at_type(s, p)["name"] = draw(st.sampled_from(KEYWORD_NAMES))
                cands.append(("keyword-name", pos, mut))

                def mut(s, p=p):
                    at_type(s, p)["name"] = draw(st.sampled_from(BAD_NAMES))
                cands.append(("invalid-name", pos, mut))
    # duplicate public type (case-insensitive)
    if sch["types"]:
        def mut(s):
            t = copy.deepcopy(s["types"][0])
            t["name"] = t["name"].swapcase() if t["name"].swapcase() != t["name"] else t["name"]
            s["types"].append(t)
        cands.append(("duplicate-type-name", "public", mut))

    # ---- level headers
    def header_edits(hname, required, poskind):
        c = types_by_name.get(hname.lower())
        if c is None or c["kind"] != "composite":
            return
        p = type_path(c)
        for rn in required:
            idx = [i for i, e in enumerate(c["elements"]) if e["name"] == rn]
            if not idx:
                continue
            i = idx[0]
            def mut(s, p=p, i=i):
                del at_type(s, p)["elements"][i]
            cands.append(("malformed-level-header", poskind + "-missing-" + rn, mut))
            e = c["elements"][i]
            if e["kind"] == "type":
                if rn != "varData":
                    def mut(s, p=p, i=i):
                        el = at_type(s, p)["elements"][i]
                        el["length"] = 2
                        el["prim"] = "uint8"
                    cands.append(("malformed-level-header", poskind + "-array-" + rn, mut))

                    def mut(s, p=p, i=i):
                        el = at_type(s, p)["elements"][i]
                        el["presence"] = "constant"
                        el["const"] = "1"
                        el["min"] = el["max"] = el["null"] = None
                    cands.append(("malformed-level-header", poskind + "-constant-" + rn, mut))

                    def mut(s, p=p, i=i):
                        nm = at_type(s, p)["elements"][i]["name"]
                        at_type(s, p)["elements"][i] = {"kind": "composite", "name": nm, "elements": [], "offset": None, "description": None, "since": None, "deprecated": None, "semantic_type": None}
                    cands.append(("malformed-level-header", poskind + "-composite-" + rn, mut))
                else:
                    def mut(s, p=p, i=i):
                        at_type(s, p)["elements"][i]["length"] = draw(st.sampled_from([1, 2, None]))
                    cands.append(("malformed-level-header", poskind + "-varData-length", mut))

                    def mut(s, p=p, i=i):
                        at_type(s, p)["elements"][i]["prim"] = draw(st.sampled_from(["uint16", "int32", "uint64", "float"]))
                    cands.append(("multi-byte-array", poskind + "-varData-multibyte", mut))

    header_edits(sch.get("header_type") or "messageHeader", ["schemaId", "templateId", "version", "blockLength"], "message-header")
    seen_h = set()
    for L, kind, depth in walk_levels(sch):
        if kind == "group" and L["dimension_type"].lower() not in seen_h:
            seen_h.add(L["dimension_type"].lower())
            header_edits(L["dimension_type"], ["numInGroup", "blockLength"], "group-header")
        for x in L["data"]:
            if x["type"].lower() not in seen_h:
                seen_h.add(x["type"].lower())
                header_edits(x["type"], ["length", "varData"], "data-header")

    def mut(s):
        s["header_type"] = "no_such_header"
    cands.append(("unknown-reference", "headerType", mut))
    non_comp = [t["name"] for t in sch["types"] if t["kind"] != "composite"]
    if non_comp:
        def mut(s, cs=non_comp):
            s["header_type"] = draw(st.sampled_from(cs))
        cands.append(("wrong-kind-reference", "headerType", mut))

    # ---- levels
    for L, kind, depth in walk_levels(sch):
        lp = level_path(L)
        pos = "%s-depth%d" % (kind, depth)
        off = 0
        for i, f in enumerate(L["fields"]):
            if T.field_is_const(f, types_by_name):
                continue
            start = f["offset"] if f.get("offset") is not None else off
            if off > 0:
                def mut(s, lp=lp, i=i, off=off):
                    at_level(s, lp)["fields"][i]["offset"] = draw(st.integers(0, off - 1))
                cands.append(("offset-below-minimum", pos + "-field", mut))
            off = start + T.field_size(f, types_by_name)
        if off > 0:
            def mut(s, lp=lp, off=off):
                at_level(s, lp)["block_length"] = draw(st.integers(0, off - 1))
            cands.append(("block-length-below-content", pos, mut))
        members = L["fields"] + L["groups"] + L["data"]
        if len(members) >= 2:
            def mut(s, lp=lp):
                lv = at_level(s, lp)
                ms = lv["fields"] + lv["groups"] + lv["data"]
                a, b = draw(st.sampled_from([(x, y) for x in range(len(ms)) for y in range(len(ms)) if x != y]))
                ms[b]["name"] = ms[a]["name"]
            cands.append(("duplicate-member", pos, mut))
        for coll in ("fields", "groups", "data"):
            for i, x in enumerate(L[coll]):
                def mut(s, lp=lp, coll=coll, i=i):
                    at_level(s, lp)[coll][i]["name"] = draw(st.sampled_from(KEYWORD_NAMES))
                cands.append(("keyword-name", pos + "-" + coll, mut))

                def mut(s, lp=lp, coll=coll, i=i):
                    at_level(s, lp)[coll][i]["name"] = draw(st.sampled_from(BAD_NAMES))
                cands.append(("invalid-name", pos + "-" + coll, mut))
        for i, f in enumerate(L["fields"]):
            def mut(s, lp=lp, i=i):
                f2 = at_level(s, lp)["fields"][i]
                f2["type"] = "UnknownType_7"
                f2["presence"] = "required"
                f2["value_ref"] = None
            cands.append(("unknown-reference", pos + "-field-type", mut))
            if f.get("value_ref"):
                def mut(s, lp=lp, i=i):
                    vr = at_level(s, lp)["fields"][i]["value_ref"]
                    at_level(s, lp)["fields"][i]["value_ref"] = draw(st.sampled_from([vr.split(".")[0] + ".no_such_value", "nope." + vr.split(".")[1]]))
                cands.append(("unknown-reference", pos + "-field-valueRef", mut))

                def mut(s, lp=lp, i=i):
                    at_level(s, lp)["fields"][i]["value_ref"] = None
                cands.append(("constant-value-rule", pos + "-field-novalueRef", mut))
            if f["type"] not in PRIMS and types_by_name[f["type"].lower()]["kind"] == "composite":
                def mut(s, lp=lp, i=i):
                    at_level(s, lp)["fields"][i]["presence"] = "constant"
                cands.append(("constant-value-rule", pos + "-composite-field-constant", mut))
        for i, g in enumerate(L["groups"]):
            def mut(s, lp=lp, i=i):
                at_level(s, lp)["groups"][i]["dimension_type"] = "noSuchDimension"
            cands.append(("unknown-reference", pos + "-dimensionType", mut))
            if non_comp:
                def mut(s, lp=lp, i=i, cs=non_comp):
                    at_level(s, lp)["groups"][i]["dimension_type"] = draw(st.sampled_from(cs))
                cands.append(("wrong-kind-reference", pos + "-dimensionType", mut))
        for i, x in enumerate(L["data"]):
            def mut(s, lp=lp, i=i):
                at_level(s, lp)["data"][i]["type"] = "noSuchDataType"
            cands.append(("unknown-reference", pos + "-data-type", mut))
            if non_comp:
                def mut(s, lp=lp, i=i, cs=non_comp):
                    at_level(s, lp)["data"][i]["type"] = draw(st.sampled_from(cs))
                cands.append(("wrong-kind-reference", pos + "-data-type", mut))
        if L["fields"] and (L["groups"] or L["data"]):
            def mut(s, lp=lp):
                at_level(s, lp)["_order"] = "bad"
            cands.append(("member-order", pos, mut))
    # ---- level header composites of the other kind (a group dimension used as data type and vice versa)
    dims = sorted({L["dimension_type"] for L, kind, d in walk_levels(sch) if kind == "group"})
    datas = sorted({x["type"] for L, kind, d in walk_levels(sch) for x in L["data"]})
    for L, kind, depth in walk_levels(sch):
        lp = level_path(L)
        if kind == "group" and datas:
            def mut(s, lp=lp, cs=datas):
                at_level(s, lp)["dimension_type"] = draw(st.sampled_from(cs))
            cands.append(("malformed-level-header", "group-depth%d-dimensionType-is-data-encoding" % depth, mut))
        for i, x in enumerate(L["data"]):
            other = [dn for dn in dims if dn.lower() != x["type"].lower()]
            if other:
                def mut(s, lp=lp, i=i, cs=other):
                    at_level(s, lp)["data"][i]["type"] = draw(st.sampled_from(cs))
                cands.append(("malformed-level-header", "%s-depth%d-data-type-is-group-dimension" % (kind, depth), mut))
    # ---- duplicate public type defined by an included file (case-insensitive)
    if sch["types"] and not sch.get("_include"):
        def mut(s):
            t = copy.deepcopy(draw(st.sampled_from(s["types"])))
            t["name"] = t["name"].swapcase() if draw(st.booleans()) else t["name"]
            s["_include"] = {"file": "inc_dup.xml", "types": [t]}
        cands.append(("duplicate-type-name", "via-include", mut))
    # ---- schema name (package, or --schema-name when given)
    BAD_SCHEMA_NAMES = KEYWORD_NAMES + BAD_NAMES + ["std", "posix", ""]
    if sch.get("schema_name"):
        def mut(s):
            s["schema_name"] = draw(st.sampled_from([n for n in BAD_SCHEMA_NAMES if n and " " not in n]))
        cands.append(("invalid-schema-name", "schema-name-option", mut))
    else:
        def mut(s):
            s["package"] = draw(st.sampled_from(BAD_SCHEMA_NAMES + [None]))
        cands.append(("invalid-schema-name", "package", mut))
    # ---- messages
    if len(sch["messages"]) >= 2:
        def mut(s):
            s["messages"][1]["name"] = s["messages"][0]["name"]
        cands.append(("duplicate-message-name", "message", mut))

        def mut(s):
            s["messages"][1]["id"] = s["messages"][0]["id"]
        cands.append(("duplicate-message-id", "message", mut))
    for i, m in enumerate(sch["messages"]):
        def mut(s, i=i):
            s["messages"][i]["name"] = draw(st.sampled_from(KEYWORD_NAMES))
        cands.append(("keyword-name", "message", mut))

        def mut(s, i=i):
            s["messages"][i]["name"] = draw(st.sampled_from(BAD_NAMES))
        cands.append(("invalid-name", "message", mut))
    return cands


LOC_RE = re.compile(r"^Error: (.+?):(\d+):(\d+): ")


def verdict(sbeppc, xml, work, tag, include=None):
    d = os.path.join(work, tag)
    os.makedirs(d, exist_ok=True)
    sp = os.path.join(d, "s.xml")
    with open(sp, "w") as f:
        f.write(xml)
    for stale in ("inc_dup.xml", "inc_types.xml", "inc_layout.xml"):
        if os.path.exists(os.path.join(d, stale)):
            os.remove(os.path.join(d, stale))
    if include and not isinstance(include, dict):
        include = {include[0]: include[1]}
    for fn, content in (include or {}).items():
        with open(os.path.join(d, os.path.basename(fn)), "w") as f:
            f.write(content)
    rc, out = common.run_sbeppc(sbeppc, sp, os.path.join(d, "out"), cwd=d)
    shutil.rmtree(os.path.join(d, "out"), ignore_errors=True)
    errs = [l for l in out.splitlines() if l.startswith("Error")]
    return rc, errs, xml.count("\n") + 1


def _worker(args):
    seed_off, n, seed_value, work = args
    sbeppc = common.build_sbeppc("plain")
    out = {"evals": 0, "classes": {}, "nontrivial": [], "samples": [], "matrix": {}, "failure": None, "catalog_bugs": 0}

    def cls(k):
        out["classes"][k] = out["classes"].get(k, 0) + 1

    local = {"last": None}

    @hseed(seed_value * 100 + seed_off)
    @settings(max_examples=n, database=None, deadline=None, suppress_health_check=list(HealthCheck), report_multiple_bugs=False,
              phases=[Phase.generate, Phase.shrink])
    @given(st.data())
    def prop(data):
        sch = data.draw(schemagen.schemas(max_messages=2), label="schema")
        draw = data.draw
        edited = data.draw(st.integers(0, 5)) != 0
        rule, pos = None, None
        s2 = json.loads(json.dumps(sch))
        if len(s2["types"]) >= 2 and data.draw(st.integers(0, 4)) == 0:
            # valid transformation: move the last public type into an included file
            hdrs_ = header_names(s2)
            cand_i = [i for i, t in enumerate(s2["types"]) if t["name"].lower() not in hdrs_]
            if cand_i:
                t = s2["types"].pop(cand_i[-1])
                s2["_include"] = {"file": "inc_types.xml", "types": [t]}
                cls("with_include")
        if edited:
            cands = candidates(s2, draw)
            if not cands:
                edited = False
            else:
                rule, pos, fn = cands[data.draw(st.integers(0, len(cands) - 1), label="edit")]
                fn(s2)
        xml = schemagen.to_xml(s2)
        broken = rules.violations(s2)
        out["evals"] += 1
        if edited and rule not in broken:
            # the catalog produced an edit that breaks no rule according to the independent checker: a harness
            # disagreement, never reported as a property violation; counted and skipped
            out["catalog_bugs"] += 1
            cls("catalog_disagreement:" + rule)
            return
        if not edited and broken:
            cls("checker_rejects_valid:" + ",".join(broken))
            out["catalog_bugs"] += 1
            return
        incs = schemagen.include_files(s2)
        rc, errs, nlines = verdict(sbeppc, xml, work, "t%d" % seed_off, incs)
        for incx in incs.values():
            nlines = max(nlines, incx.count("\n") + 1)
        incx = incs or None
        if not edited:
            cls("unedited")
            if rc != 0:
                local["last"] = ("valid-schema-rejected", {"schema_xml": xml, "model": s2, "rule": None, "include": incx},
                                 "valid schema rejected: %s" % (errs[:1] or [rc]))
                raise AssertionError()
            return
        key = "%s @ %s" % (rule, pos)
        out["matrix"][key] = out["matrix"].get(key, 0) + 1
        out["nontrivial"].append("%s|%s|%s" % (rule, pos, common.text_hash(xml)))
        if len(out["samples"]) < 3 and out["matrix"][key] == 1 and len(out["matrix"]) % 7 == 1:
            out["samples"].append({"rule": rule, "position": pos, "diagnostic": errs[:1], "exit": rc})
        if rc == 0:
            local["last"] = ("invalid-schema-accepted:%s" % rule, {"schema_xml": xml, "model": s2, "rule": rule, "position": pos, "include": incx},
                             "schema breaking rule `%s` at %s accepted with exit 0" % (rule, pos))
            raise AssertionError()
        if rc < 0 or rc > 1:
            local["last"] = ("abnormal-exit:%s" % rule, {"schema_xml": xml, "model": s2, "rule": rule, "position": pos, "include": incx},
                             "sbeppc ended with status %d on a schema breaking `%s`" % (rc, rule))
            raise AssertionError()
        m = LOC_RE.match(errs[0]) if errs else None
        if not m or not (1 <= int(m.group(2)) <= nlines) or int(m.group(3)) < 1:
            local["last"] = ("diagnostic-not-located:%s" % rule, {"schema_xml": xml, "model": s2, "rule": rule, "position": pos, "include": incx},
                             "rejected (rule `%s` at %s) but the first diagnostic is not a located Error line: %s" % (rule, pos, errs[:1]))
            raise AssertionError()

    try:
        prop()
    except AssertionError:
        out["failure"] = local["last"]
    return out


def run(t, budget=1.0):
    res = common.Result("C08", t)
    res.rule = ("Hypothesis-generated valid schema + at most one rule-breaking edit from the catalog (offset below minimum, blockLength "
                "below content, min/max/null/constant/enum value not representable, choice index beyond width, unknown / cyclic / "
                "wrong-kind references, multi-byte array, malformed level header, invalid or keyword name, duplicates, constant and "
                "member-order rules) at a random applicable position; unedited => exit 0, edited => non-zero exit and a located "
                "`Error: file:line:col:` diagnostic; the independent Python rule checker must agree with the intended verdict; "
                "non-trivial = edited case, counted as distinct (rule, position kind, schema hash)")
    res.assumptions = ["the catalog mirrors the rules sbeppc documents/enforces (DESIGN A.2); schemas invalid for reasons sbeppc does not claim to "
                       "diagnose (duplicate enum values, ids beyond the header type) are neither generated nor edited in"]
    common.build_sbeppc("plain")
    work = common.build_dir("c08-work-%d" % os.getpid())
    n_examples = int((12000 if t == "quick" else 120000) * budget)
    nworkers = common.NCPU
    matrix = {}
    bugs = 0
    try:
        with cf.ProcessPoolExecutor(max_workers=nworkers) as ex:
            outs = list(ex.map(_worker, [(i, max(1, n_examples // nworkers), common.seed(), work) for i in range(nworkers)]))
        for o in outs:
            res.count(o["evals"])
            for k, v in o["classes"].items():
                res.cls(k, v)
            for k in o["nontrivial"]:
                res.nontriv(k)
            for smp in o["samples"]:
                res.sample(smp)
            for k, v in o["matrix"].items():
                matrix[k] = matrix.get(k, 0) + v
            bugs += o["catalog_bugs"]
            if o["failure"]:
                res.violation(*o["failure"])
        res.extra["rule_position_matrix"] = dict(sorted(matrix.items()))
        res.extra["rules_hit"] = sorted({k.split(" @ ")[0] for k in matrix})
        res.extra["catalog_disagreements"] = bugs
    finally:
        shutil.rmtree(work, ignore_errors=True)
    return res.finish()


def replay(path):
    case = json.load(open(path))["case"]
    work = common.build_dir("c08-replay-%d" % os.getpid())
    try:
        rc, errs, nlines = verdict(common.build_sbeppc("plain"), case["schema_xml"], work, "r", (case["include"] if isinstance(case.get("include"), dict) else tuple(case["include"])) if case.get("include") else None)
        print("exit", rc, errs[:2])
        if case.get("rule") is None:
            return 0 if rc == 0 else 1
        ok = rc == 1 and errs and LOC_RE.match(errs[0])
        return 0 if ok else 1
    finally:
        shutil.rmtree(work, ignore_errors=True)
