"""C19 — visiting and tag-based access enumerate members faithfully.

(1) visit / visit_children over a reference-encoded message with a recording
visitor that stops at the k-th callback, for every k: the event log must be the
model's expected sequence truncated at k, nothing may be reported after the
stop, and after a complete visit the cursor is at the end of the message.
Enum values are visited (value tag / unknown tag) and sets (every choice with
its bit) inside the same traversal (see the `vis` dump of C02/C03).
(2) get_by_tag dump == named-getter expectation; set_by_tag encode scripts
produce the same buffer as the reference overlay (and hence as named setters).
"""
import json
import shutil

from hypothesis import strategies as st

from vlib import common, poolcheck, values
from vlib.checks import c01, c04, decode_common


def run(t, budget=1.0):
    pc = poolcheck.PoolCheck("C19", t, budget)
    res = pc.res
    res.rule = ("pool schema x message x value tree x every stopping point k (all k when the traversal has <= 40 callbacks, else "
                "boundaries + random sample): recorded visitor event log == model's expected sequence truncated at k, no callback after "
                "the stop, cursor at message end after a complete visit; plus get_by_tag dump == value tree and set_by_tag scripts == "
                "reference overlay; non-trivial = traversal with >= 3 callbacks incl. a group entry or composite and 0 < k < n; "
                "distinct by (image hash, k)")
    res.assumptions = ["reference model defines the expected callback order (fields, groups, data in schema order; composite children; "
                       "entries in order)", "the visitor propagates the stop flag upwards itself, as the documentation requires"]
    if not pc.entries:
        return pc.finish()

    def body(data):
        entry, mi, L = pc.draw_target(data)
        M = entry.model
        part = data.draw(st.sampled_from(["events", "events", "events", "gettag", "settag", "cursortag"]))
        if part == "cursortag":
            # get_by_tag / set_by_tag with a cursor (all wrappers) == named cursor accessors == position model of C04
            vals = data.draw(values.level_values(L, max_entries=2, inflate=data.draw(st.booleans())))
            img, size = M.encode_message(L, vals, background=0x5C)
            lay = c04.layout_level(M, L, vals, M.header.size, vals.get("extra", 0))
            sq = c04.Seq(M, img)
            sq.write_weight = 2
            sq.tok.append("I")
            sq.cur = M.header.size
            sq.c()
            c04.root_walk(data, sq, L, vals, lay)
            exp = "OK " + " ".join(sq.exp + ["size_by_cursor=%d" % sq.cur, "BUF " + bytes(sq.buf).hex()])
            line = "cursortag %d %s %s" % (mi, img.hex(), " ".join(sq.tok))
            for cfg in entry.value_configs():
                resp = pc.call(entry, cfg, line)
                res.count()
                res.cls("by_tag_cursor_sequences")
                if resp != exp:
                    a, b = exp.split(), resp.split()
                    j = next((i for i, (x, y) in enumerate(zip(a, b)) if x != y), min(len(a), len(b)))
                    pc.fail("by-tag-cursor-mismatch" if resp.startswith("OK") else "by-tag-cursor-" + resp.split(" ")[0].lower(), entry,
                            {"cmd": line, "config": cfg, "kind": "cursortag", "expected": exp, "actual": resp[:3000]},
                            "[%s] message %s, cursor steps `%s` through get_by_tag/set_by_tag: token %d expected `%s` got `%s`" % (
                                cfg, L.name, " ".join(sq.tok)[:160], j, " ".join(a[j:j + 3]), " ".join(b[j:j + 3])))
            if len(sq.wrappers) >= 2:
                res.nontriv(common.text_hash("cursortag", entry.dir, line))
            return
        if part == "settag":
            size = min(M.header.size + c01.max_image_size(M, L) + 16, 60000)
            bg = bytes([data.draw(st.sampled_from([0, 0xFF, 0xA5]))]) * size
            sc = c01.Script(M, bg)
            sc.tok.append("F")
            M.write_header(sc.buf, 0, M.header, M.header_values(L))
            sc.rets.append("hdr=0")
            c01.draw_level(data, sc, L, M.header.size, L.block_length, 0)
            exp_buf = bytes(sc.buf).hex()
            for cfg in entry.value_configs():
                line = "encodetag %d %s %s" % (mi, bg.hex(), " ".join(sc.tok))
                resp = pc.call(entry, cfg, line)
                res.count()
                res.cls("set_by_tag_scripts")
                i = resp.rfind("BUF ")
                if not (resp.startswith("OK ") and resp[i + 4:].strip() == exp_buf and resp[3:i].split() == sc.rets):
                    pc.fail("set-by-tag-mismatch" if resp.startswith("OK") else "set-by-tag-" + resp.split(" ")[0].lower(), entry,
                            {"cmd": line, "config": cfg, "kind": "settag", "expected_buffer": exp_buf, "expected_rets": sc.rets, "actual": resp},
                            "[%s] set_by_tag script on message %s differs from the reference overlay: %s" % (cfg, L.name, resp[:200]))
            if sc.writes > 1:
                res.nontriv(common.text_hash("settag", entry.dir, " ".join(sc.tok)))
            return
        vals = data.draw(values.level_values(L, max_entries=3, inflate=data.draw(st.booleans()), model=M))
        img, size = M.encode_message(L, vals, background=data.draw(st.sampled_from([0, 0xFF, 0x3C])))
        hx = img.hex()
        if part == "gettag":
            exp = M.dump_message(L, vals, with_consts=True, tag_extras=True)
            for cfg in entry.value_configs():
                resp = pc.call(entry, cfg, "dump %d tag %s" % (mi, hx))
                res.count()
                res.cls("get_by_tag_dumps")
                if not (resp == "OK " + exp or (resp == "OK" and exp == "")):
                    what = decode_common.first_diff(exp, resp[3:]) if resp.startswith("OK") else resp[:200]
                    pc.fail("get-by-tag-mismatch" if resp.startswith("OK") else "get-by-tag-" + resp.split(" ")[0].lower(), entry,
                            {"cmd": "dump %d tag %s" % (mi, hx), "config": cfg, "kind": "gettag", "expected": "OK " + exp, "actual": resp},
                            "[%s] get_by_tag on message %s: %s" % (cfg, L.name, what))
            if exp:
                res.nontriv(common.text_hash("gettag", entry.dir, img))
            return
        ev = M.events(L, vals)
        n = len(ev)
        if n <= 40 or t == "thorough" and n <= 300:
            ks = list(range(0, n + 2))
        else:
            ks = sorted(set([0, 1, 2, n - 1, n, n + 1] + data.draw(st.lists(st.integers(1, n), min_size=8, max_size=8))))
        checkable = decode_common.cursor_end_checkable(L)
        rich = n >= 3 and any(e.startswith(("E ", "C ")) for e in ev)
        cfgs = entry.value_configs()
        for k in ks:
            stopped = 1 <= k <= n
            shown = ev[:k] if stopped else ev
            exp = " | ".join(shown) + " | END cursor=%d stopped=%d events=%d" % (size, 1 if stopped else 0, len(shown))
            cfg = cfgs[k % len(cfgs)] if len(ks) > 6 else None
            for c in ([cfg] if cfg else cfgs):
                resp = pc.call(entry, c, "events %d %d %s" % (mi, k, hx))
                res.count()
                got = resp[3:] if resp.startswith("OK ") else resp
                e2, g2 = exp, got
                if stopped or not checkable:
                    # no claim about the cursor after an interrupted visit / when nothing can move it
                    import re
                    e2 = re.sub(r"cursor=\d+", "cursor=*", e2)
                    g2 = re.sub(r"cursor=-?\d+", "cursor=*", g2)
                if not resp.startswith("OK ") or e2 != g2:
                    sig = "visit-mismatch:%s" % ("stop" if stopped else "full") if resp.startswith("OK") else "visit-" + resp.split(" ")[0].lower()
                    pc.fail(sig, entry, {"cmd": "events %d %d %s" % (mi, k, hx), "config": c, "kind": "events", "expected": e2, "actual": resp,
                                         "values": values.tree_hash_key(vals)},
                            "[%s] message %s stop at k=%d of %d: expected `%s` got `%s`" % (c, L.name, k, n, e2[-220:], g2[-220:]))
            if rich and 0 < k < n:
                res.nontriv(common.text_hash("ev", entry.dir, img, str(k)))
        res.cls("event_traversals")
        if len(res.samples) < 5 and rich and (len(res.samples) < 2 or res.evaluations % 401 < 20):
            res.sample({"schema": entry.dir.split("/")[-1], "message": L.name, "events": ev[:25], "stop_points": ks[:30]})

    pc.run_hypothesis(body, 2500 if t == "quick" else 30000)
    return pc.finish()


def replay(path):
    case = json.load(open(path))["case"]
    entry = poolcheck.replay_entry(case, [case["config"]])
    if entry is None:
        return 1
    try:
        d = poolcheck.poolmod.Driver(entry.driver(case["config"]))
        resp = d.call(case["cmd"])
        d.close()
        print("actual:", resp[:1200])
        if case["kind"] == "settag":
            i = resp.rfind("BUF ")
            ok = resp.startswith("OK ") and resp[i + 4:].strip() == case["expected_buffer"] and resp[3:i].split() == case["expected_rets"]
        elif case["kind"] == "gettag":
            ok = resp == case["expected"] or (resp == "OK" and case["expected"] == "OK ")
        elif case["kind"] == "cursortag":
            ok = resp == case["expected"]
        else:
            import re
            got = resp[3:] if resp.startswith("OK ") else resp
            exp = case["expected"]
            if "cursor=*" in exp:
                got = re.sub(r"cursor=-?\d+", "cursor=*", got)
            ok = resp.startswith("OK ") and got == exp
        print("replay:", "holds now" if ok else "STILL FAILS")
        return 0 if ok else 1
    finally:
        shutil.rmtree(entry.dir, ignore_errors=True)
