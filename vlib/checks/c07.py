"""C07 — accepted schemas yield compilable, name-preserving headers.

The verdict is the pool build itself (DESIGN 3.5 level A): Hypothesis generates
valid schemas (clash-prone names, all attribute forms), the tree's sbeppc
compiles them, every generated header is compiled on its own and the generated
touch-everything TU (the driver: every accessor, trait user, visitor, filler
through documented names only) is compiled in several compiler/standard
configs.  A second pool uses text that needs escaping and odd numeric literal
forms.  A third, tiny class names entities like the generator's own template
parameters (known finding).
"""
import json
import os
import re
import shutil

from hypothesis import HealthCheck, Phase, given, seed as hseed, settings, strategies as st

from vlib import common, model, pool as poolmod, rules, schemagen


def norm_error(errors):
    for e in errors:
        m = re.search(r"error: (.*)", e)
        if m:
            t = m.group(1)
            t = re.sub(r"[‘'`\"].*?[’'`\"]", "Q", t)
            t = re.sub(r"\d+", "N", t)
            return t[:70].strip()
    return "unknown"


def failure_signature(st_):
    sig = st_.get("signature", "build-failed")
    if sig == "valid-schema-rejected":
        return sig + ":" + norm_error([re.sub(r"^Error: \S+?:\d+:\d+: ", "error: ", e) for e in st_["errors"]])
    return sig + ":" + norm_error(st_["errors"])


IMPL_KINDS = ("field", "type", "composite", "member", "group", "data", "enum", "set", "message", "choice", "validValue")


def impl_schema(kind, nm):
    def n(k, default):
        return nm if k == kind else default
    hdr = ('<composite name="messageHeader"><type name="blockLength" primitiveType="uint16"/><type name="templateId" primitiveType="uint16"/>'
           '<type name="schemaId" primitiveType="uint16"/><type name="version" primitiveType="uint16"/></composite>'
           '<composite name="groupSizeEncoding"><type name="blockLength" primitiveType="uint16"/><type name="numInGroup" primitiveType="uint16"/></composite>'
           '<composite name="varDataEncoding"><type name="length" primitiveType="uint16"/><type name="varData" primitiveType="uint8" length="0"/></composite>')
    types = ('<type name="%s" primitiveType="uint32"/><composite name="%s"><type name="%s" primitiveType="int8"/></composite>'
             '<enum name="%s" encodingType="uint8"><validValue name="%s">1</validValue></enum>'
             '<set name="%s" encodingType="uint8"><choice name="%s">1</choice></set>') % (
        n("type", "t1"), n("composite", "c1"), n("member", "m1_"), n("enum", "e1"), n("validValue", "v1"), n("set", "s1"), n("choice", "ch1"))
    msg = ('<sbe:message name="%s" id="1"><field name="%s" id="1" type="%s"/><field name="fc" id="2" type="%s"/><field name="fe" id="3" type="%s"/>'
           '<field name="fs" id="4" type="%s"/><group name="%s" id="5"><field name="x" id="1" type="uint8"/></group>'
           '<data name="%s" id="6" type="varDataEncoding"/></sbe:message>') % (
        n("message", "msg1"), n("field", "f1"), n("type", "t1"), n("composite", "c1"), n("enum", "e1"), n("set", "s1"), n("group", "g1"), n("data", "d1"))
    return ('<?xml version="1.0"?>\n<sbe:messageSchema xmlns:sbe="http://fixprotocol.io/2016/sbe" package="pk" id="1" version="0">\n<types>%s%s</types>\n%s\n'
            '</sbe:messageSchema>\n') % (hdr, types, msg)


def impl_name_cases(res, t, names=None, label="impl_name", sig="implementation-identifier-name", what="an identifier the generated code uses itself",
                    kinds_per_name=None):
    """entities named like identifiers the generated code uses itself (template parameters, locals); with names=C++ keywords:
    whatever sbeppc accepts as a name has to compile as well"""
    sbeppc = common.build_sbeppc("plain")
    work = common.build_dir("c07-%s-%d" % (label, os.getpid()))
    n = 0
    try:
        names = names or schemagen.IMPL_NAMES
        cfgs = [poolmod.CONFIGS[2], poolmod.CONFIGS[8]] if t == "quick" else [poolmod.CONFIGS[0], poolmod.CONFIGS[4], poolmod.CONFIGS[5], poolmod.CONFIGS[9]]
        for ni, nm in enumerate(names):
            kinds = IMPL_KINDS
            if kinds_per_name:
                kinds = [IMPL_KINDS[(ni * kinds_per_name + j + common.seed()) % len(IMPL_KINDS)] for j in range(kinds_per_name)]
            for kind in kinds:
                xml = impl_schema(kind, nm)
                d = os.path.join(work, "%s_%s" % (kind, nm))
                os.makedirs(d)
                sp = os.path.join(d, "s.xml")
                open(sp, "w").write(xml)
                rc, out = common.run_sbeppc(sbeppc, sp, os.path.join(d, "out"))
                res.count()
                n += 1
                if rc != 0:
                    res.cls(label + "_rejected_by_sbeppc")
                    continue   # rejecting such a name is fine for C07 (it speaks about accepted schemas)
                tu = os.path.join(d, "t.cpp")
                open(tu, "w").write("#include <pk/pk.hpp>\nint main() { return 0; }\n")
                res.nontriv("%s:%s:%s" % (label, kind, nm))
                bad = None
                for cfg in cfgs:
                    r = common.run(poolmod.compile_cmd(cfg, os.path.join(d, "out"), tu, syntax_only=True))
                    res.count()
                    if r.returncode != 0:
                        bad = (cfg, r.stdout.decode(errors="replace"))
                        break
                if bad:
                    res.cls(label + "_compile_fail")
                    res.violation("%s:%s" % (sig, nm),
                                  {"schema_xml": xml, "config": poolmod.cfg_name(bad[0])},
                                  "%s named `%s` (%s): %s" % (kind, nm, what, poolmod.first_errors(bad[1], 1)[0]))
                else:
                    res.cls(label + "_ok")
    finally:
        shutil.rmtree(work, ignore_errors=True)


def run(t, budget=1.0):
    res = common.Result("C07", t)
    res.rule = ("Hypothesis-generated valid schemas (clash-prone fixed identifier pool, all attribute forms; second pool with text "
                "needing escapes and odd numeric literal forms); sbeppc exit 0 must imply: each generated header compiles alone and the "
                "generated touch-everything TU compiles, per (schema, compiler, standard); non-trivial = schema with >= 1 name-clash "
                "pattern or non-default attribute form, counted per distinct (schema, config)")
    res.assumptions = ["g++ 12.2 and clang 14 with libstdc++ 12 stand for gcc/clang", "macro names and reserved identifiers are outside the name pool",
                       "quick tier: each schema's TU in 3 of the 10 configs (union covers all 10), headers alone in 1 rotating config"]
    pools = [("main", poolmod.build_pool(t)),
             ("special", poolmod.build_pool(t, n=(24 if t == "quick" else 120), gen_kw={"special_text": True, "odd_literals": True}, tag="special"))]
    for pname, p in pools:
        feats = {}
        for e in p.entries:
            fs = set(e.status.get("features", []))
            for f in fs:
                feats[f] = feats.get(f, 0) + 1
            nontrivial = any(f.startswith("clash_") for f in fs) or bool(fs & {"custom_member_offset", "custom_field_offset", "explicit_block_length_gt_min", "ref_member", "nonconventional_header", "const_member"}) or pname == "special"
            evals = e.status.get("headers_checked", 0) + len(e.status["configs"])
            res.count(evals)
            for c in e.status["configs"]:
                res.cls("tu_" + c)
                if nontrivial:
                    res.nontriv("%s:%s" % (e.dir, c))
            for c in e.status.get("header_configs", []):
                res.cls("headers_" + c)
            if len(res.samples) < 6 and nontrivial:
                res.sample({"pool": pname, "schema_xml_head": e.xml[:700], "configs": e.status["configs"], "features": sorted(fs)[:12]})
        res.extra["features_" + pname] = feats
        res.extra["pool_" + pname] = {"schemas_ok": len(p.entries), "minimal_failures": len(p.failures), "errors": p.meta.get("errors"), "wall_s": p.meta.get("wall_s")}
        zero = [c for c in ("clash_level_member", "clash_type_message", "clash_fixed_names", "ref_member", "custom_field_offset", "nested_group_depth2", "big_endian") if not feats.get(c)]
        if zero and pname == "main":
            res.extra["generator_health_zero_classes"] = zero
        for fe in p.failures:
            st_ = fe.status
            res.count()
            sig = failure_signature(st_)
            res.violation(sig, {"schema_xml": fe.xml, "model": fe.sch, "config": st_.get("failed_config"), "stage": st_.get("stage"),
                                "header": st_.get("failed_header")},
                          "[%s pool, %s, %s] %s" % (pname, st_.get("failed_config"), st_.get("failed_header") or st_.get("stage"), "; ".join(st_["errors"][:2])))
        if p.meta.get("errors"):
            raise RuntimeError("pool generator error (harness problem, not a verdict): %s" % p.meta["errors"][:2])
    impl_name_cases(res, t)
    # C++ keywords as names: sbeppc is expected to refuse them (C08 checks that); whatever it lets through must still compile
    impl_name_cases(res, t, names=sorted(rules.KEYWORDS), label="keyword_name", sig="accepted-keyword-name",
                    what="a C++ keyword sbeppc accepted as a name", kinds_per_name=3 if t == "quick" else None)
    return res.finish()


def replay(path):
    case = json.load(open(path))["case"]
    work = common.build_dir("c07-replay-%d" % os.getpid())
    try:
        if "model" in case:
            cfgs = [c for c in poolmod.CONFIGS if poolmod.cfg_name(c) == case.get("config")] or poolmod.CONFIGS[:1]
            st_ = poolmod.build_entry(case["model"], work, cfgs, cfgs, common.build_sbeppc("plain"))
            print(json.dumps({k: st_[k] for k in ("ok", "stage", "errors")}, indent=1))
            return 0 if st_["ok"] else 1
        sp = os.path.join(work, "s.xml")
        open(sp, "w").write(case["schema_xml"])
        rc, out = common.run_sbeppc(common.build_sbeppc("plain"), sp, os.path.join(work, "out"))
        if rc != 0:
            print("rejected by sbeppc now:", out[-300:])
            return 0
        tu = os.path.join(work, "t.cpp")
        open(tu, "w").write("#include <pk/pk.hpp>\nint main() { return 0; }\n")
        cfg = [c for c in poolmod.CONFIGS if poolmod.cfg_name(c) == case.get("config")][0]
        r = common.run(poolmod.compile_cmd(cfg, os.path.join(work, "out"), tu, syntax_only=True))
        print(r.stdout.decode(errors="replace")[-1500:])
        return 1 if r.returncode else 0
    finally:
        shutil.rmtree(work, ignore_errors=True)
