"""C04 — cursor access is equivalent to random access and tracks position.

Model-based sequence generation: a position model of the cursor protocol
(DESIGN A.3) tracks the cursor's address; Hypothesis draws only steps that are
legal in the documented protocol, using all five wrappers (plain, init,
dont_move, init_dont_move, skip), reads and writes, cursor_range /
cursor_subrange / cursor_begin..end iteration — and, in a separate class of
cases, a legal prefix followed by exactly one illegal call (plain / dont_move /
skip while the cursor is not at the address the member requires).  Oracle per
step: returned value / view address equals the value tree / reference layout,
cursor.pointer() equals the model's position; after the sequence the buffer
equals the image with the writes applied; an illegal step must invoke the
assertion handler with the "Wrong cursor value" assertion.
"""
import json
import shutil

from hypothesis import strategies as st

from vlib import common, poolcheck, values

MOVING = ["p", "i", "s"]


def layout_level(M, L, vals, base, extra):
    bl = L.block_length + extra
    info = {"base": base, "blk_end": base + bl, "groups": [], "data": []}
    pos = base + bl
    for g in L.groups:
        gv = vals["groups"][g.name]
        start = pos
        pos += g.dimension.size
        ents = []
        for e in gv["entries"]:
            ei = layout_level(M, g, e, pos, gv.get("extra", 0))
            ents.append(ei)
            pos = ei["end"]
        info["groups"].append({"start": start, "hdr_end": start + g.dimension.size, "entries": ents, "end": pos})
    for d in L.data:
        ln = len(vals["data"][d.name])
        info["data"].append({"start": pos, "end": pos + d.header_size + ln, "len": ln})
        pos += d.header_size + ln
    info["end"] = pos
    return info


class Seq:
    def __init__(self, M, img):
        self.M = M
        self.buf = bytearray(img)
        self.tok = []
        self.exp = []
        self.cur = None
        self.wrappers = set()
        self.crossed_group = False
        self.illegal = None      # description of the injected illegal step
        self.want_illegal = False
        self.steps = 0
        self.write_weight = 1     # out of 4: probability that a value member is written instead of read
        self.prefer = None        # wrapper preferred where legal

    def c(self):
        self.exp.append("c=%d" % self.cur)


def member_report(M, m, value, addr):
    if m.kind in ("scalar", "enum", "set"):
        return "F %s %x" % (m.name, value & (2 ** (8 * m.size) - 1))
    if m.kind == "array":
        return "A %s @%d %s" % (m.name, addr, value.hex() or "-")
    return "C %s @%d" % (m.name, addr)


def maybe_illegal(data, sq, needs_pos, here):
    """returns an illegal wrapper to use now, or None"""
    if sq.want_illegal and sq.illegal is None and needs_pos and sq.cur != here and sq.steps >= 1:
        if data.draw(st.integers(0, 2)) == 0:
            return data.draw(st.sampled_from(["p", "d", "s"]))
    return None


def field_step(data, sq, L, lay, fields, k, vals, force_moving=False):
    M = sq.M
    m = fields[k]
    prev_end = 0 if k == 0 else fields[k - 1].offset + fields[k - 1].size
    req = lay["base"] + prev_end
    addr = lay["base"] + m.offset
    last = (k == len(fields) - 1)
    after = lay["blk_end"] if last else addr + m.size
    bad = maybe_illegal(data, sq, True, req)
    if bad:
        sq.tok += ["f", str(k), bad, "r"]
        sq.illegal = "field %s with wrapper %s while cursor=%s, required=%d" % (m.name, bad, sq.cur, req)
        return False
    legal = ["p", "i", "d", "j", "s"] if sq.cur == req else ["i", "j"]
    if force_moving:
        legal = [w for w in legal if w in MOVING]
    if sq.prefer in legal and data.draw(st.integers(0, 3)) != 0:
        w = sq.prefer
    else:
        w = data.draw(st.sampled_from(legal))
    sq.wrappers.add(w)
    write = m.kind in ("scalar", "enum", "set") and w != "s" and data.draw(st.integers(0, 3)) < sq.write_weight
    if write:
        nv = data.draw(values.member_value(m))
        sq.tok += ["f", str(k), w, "w", "%x" % nv]
        sq.buf[addr:addr + m.size] = M.pack(nv, m.size)
        vals["fields"][m.name] = nv
        sq.exp.append("written")
    else:
        sq.tok += ["f", str(k), w, "r"]
        sq.exp.append("skipped" if w == "s" else member_report(M, m, vals["fields"][m.name], addr))
    if w in ("p", "i", "s"):
        sq.cur = after
    elif w == "j":
        sq.cur = req
    sq.c()
    sq.steps += 1
    return True


def traverse_entry(data, sq, g, ev, lay):
    """complete traversal of one entry created from the cursor (cursor is at lay['base'])"""
    fields = [m for m in g.fields if not m.is_const]
    if not fields and not g.groups and not g.data:
        # member-less entry: the generated constructor advances the cursor by blockLength
        sq.cur = lay["blk_end"]
    for k in range(len(fields)):
        if data.draw(st.integers(0, 3)) == 0:
            if not field_step(data, sq, g, lay, fields, k, ev):   # may be a non-moving access (or illegal)
                return False
        if not field_step(data, sq, g, lay, fields, k, ev, force_moving=True):
            return False
    for gi in range(len(g.groups)):
        if not group_step(data, sq, g, lay, gi, ev, complete=True):
            return False
    for di in range(len(g.data)):
        if not data_step(data, sq, g, lay, di, ev, complete=True):
            return False
    sq.tok.append("x")
    return True


def group_step(data, sq, L, lay, gi, vals, complete=False):
    g = L.groups[gi]
    gl = lay["groups"][gi]
    gv = vals["groups"][g.name]
    first_vl = (gi == 0)
    S = gl["start"]
    bad = maybe_illegal(data, sq, not first_vl, S)
    if bad:
        sq.tok += ["g", str(gi), bad]
        sq.illegal = "group %s with wrapper %s while cursor=%s, required=%d" % (g.name, bad, sq.cur, S)
        return False
    legal = ["p", "i", "d", "j", "s"] if (first_vl or sq.cur == S) else ["i", "j"]
    if complete:
        legal = [w for w in legal if w in MOVING]
    w = data.draw(st.sampled_from(legal))
    sq.wrappers.add(w)
    sq.tok += ["g", str(gi), w]
    sq.steps += 1
    if w == "s":
        sq.cur = gl["end"]
        sq.exp.append("skipped")
        sq.c()
        sq.crossed_group = True
        return True
    sq.exp.append("G %s @%d" % (g.name, S))
    if w in ("p", "i"):
        sq.cur = gl["hdr_end"]
    else:
        sq.cur = S
    sq.c()
    n = len(gl["entries"])
    flat = not g.groups and not g.data
    if w in ("d", "j"):
        sq.tok.append("none")
        sq.c()
        return True
    modes = ["range", "range", "iter"] + ([] if complete else ["none"])
    if n > 0 and not complete:
        modes += ["sub", "subc"]
    mode = data.draw(st.sampled_from(modes))
    if mode == "none":
        sq.tok.append("none")
        sq.c()
        return True
    start, count = 0, n
    if mode == "sub":
        start = data.draw(st.integers(0, n - 1))
        count = n - start
        sq.tok += ["sub", str(start), str(gl["entries"][start]["base"])]
        sq.cur = gl["entries"][start]["base"]
    elif mode == "subc":
        start = data.draw(st.integers(0, n - 1))
        count = data.draw(st.integers(0, n - start))
        sq.tok += ["subc", str(start), str(count), str(gl["entries"][start]["base"])]
        sq.cur = gl["entries"][start]["base"]
    else:
        sq.tok.append(mode)
    for i in range(start, start + count):
        el = gl["entries"][i]
        sq.exp.append("E @%d" % el["base"])
        if not traverse_entry(data, sq, g, gv["entries"][i], el):
            return False
    if count:
        sq.crossed_group = True
    sq.c()
    return True


def data_step(data, sq, L, lay, di, vals, complete=False):
    d = L.data[di]
    dl = lay["data"][di]
    first_vl = (di == 0 and not L.groups)
    S = dl["start"]
    bad = maybe_illegal(data, sq, not first_vl, S)
    if bad:
        sq.tok += ["d", str(di), bad]
        sq.illegal = "data %s with wrapper %s while cursor=%s, required=%d" % (d.name, bad, sq.cur, S)
        return False
    legal = ["p", "i", "d", "j", "s"] if (first_vl or sq.cur == S) else ["i", "j"]
    if complete:
        legal = [w for w in legal if w in MOVING]
    w = data.draw(st.sampled_from(legal))
    sq.wrappers.add(w)
    sq.tok += ["d", str(di), w]
    sq.steps += 1
    if w == "s":
        sq.exp.append("skipped")
        sq.cur = dl["end"]
    else:
        sq.exp.append("D %s @%d n=%d" % (d.name, S, dl["len"]))
        sq.cur = dl["end"] if w in ("p", "i") else S
    sq.c()
    return True


def root_walk(data, sq, L, vals, lay):
    fields = [m for m in L.fields if not m.is_const]
    for k in range(len(fields)):
        for _ in range(data.draw(st.sampled_from([0, 1, 1, 1, 2]))):
            if not field_step(data, sq, L, lay, fields, k, vals):
                return False
    for gi in range(len(L.groups)):
        for _ in range(data.draw(st.sampled_from([0, 1, 1, 1, 2]))):
            if not group_step(data, sq, L, lay, gi, vals):
                return False
    for di in range(len(L.data)):
        for _ in range(data.draw(st.sampled_from([0, 1, 1, 2]))):
            if not data_step(data, sq, L, lay, di, vals):
                return False
    return True


def run(t, budget=1.0):
    pc = poolcheck.PoolCheck("C04", t, budget)
    res = pc.res
    res.rule = ("pool image (with/without inflated block lengths) x model-generated cursor call sequence: per member a wrapper from "
                "{plain, init, dont_move, init_dont_move, skip} that is legal at the model's cursor position, reads and writes, repeated "
                "and skipped members at the root, complete traversals inside cursor_range / cursor_begin..end / cursor_subrange(pos[,count]) "
                "iteration; plus sequences with one injected illegal call; per step value/address and cursor.pointer() == model; "
                "final buffer == image with writes; illegal => 'Wrong cursor value' handler; non-trivial = >= 2 distinct wrappers and a "
                "group boundary crossed, or an illegal case; distinct by (image, sequence)")
    res.assumptions = ["the position model is DESIGN A.3 (from the doxygen comments and doc/representation.md)",
                       "no claim about entries created from a misplaced cursor: iteration bodies are complete traversals",
                       "legality is decided on addresses"]
    if not pc.entries:
        return pc.finish()

    def body(data):
        entry, mi, L = pc.draw_target(data)
        M = entry.model
        vals = data.draw(values.level_values(L, max_entries=3, inflate=data.draw(st.booleans()), model=M))
        img, size = M.encode_message(L, vals, background=data.draw(st.sampled_from([0, 0xFF, 0x6B])))
        lay = layout_level(M, L, vals, M.header.size, vals.get("extra", 0))
        assert lay["end"] == size
        sq = Seq(M, img)
        sq.want_illegal = data.draw(st.integers(0, 3)) == 0
        sq.tok.append("I")
        sq.cur = M.header.size
        sq.c()
        ok = root_walk(data, sq, L, vals, lay)
        line = "cursor %d %s %s" % (mi, img.hex(), " ".join(sq.tok))
        nontrivial = (len(sq.wrappers) >= 2 and sq.crossed_group) or sq.illegal is not None
        if nontrivial:
            res.nontriv(common.text_hash(entry.dir, line))
        for w in sq.wrappers:
            res.cls("wrapper_" + w)
        if sq.illegal:
            res.cls("illegal_cases")
        if len(res.samples) < 6 and nontrivial and (len(res.samples) < 2 or res.evaluations % 211 < 12):
            res.sample({"schema": entry.dir.split("/")[-1], "message": L.name, "steps": " ".join(sq.tok)[:300], "illegal": sq.illegal})
        for cfg in entry.status["configs"]:
            resp = pc.call(entry, cfg, line)
            res.count()
            if sq.illegal is not None:
                good = resp.startswith("ASSERT") and "Wrong cursor value" in resp
                if good:
                    got_prefix = resp.split(" || ", 1)[1].split() if " || " in resp else []
                    exp_tokens = " ".join(sq.exp).split()
                    good = got_prefix == exp_tokens[:len(got_prefix)] and len(got_prefix) == len(exp_tokens)
                if not good:
                    pc.fail("cursor-misuse-not-reported" if resp.startswith("OK") else "cursor-misuse-%s" % resp.split(" ")[0].lower(), entry,
                            {"cmd": line, "config": cfg, "expect": "ASSERT Wrong cursor value", "expected_prefix": " ".join(sq.exp), "actual": resp[:600],
                             "illegal": sq.illegal},
                            "[%s] message %s: illegal step (%s) was not reported through the assertion handler: %s" % (cfg, L.name, sq.illegal, resp[:200]))
                continue
            exp = " ".join(sq.exp + ["size_by_cursor=%d" % sq.cur, "BUF " + bytes(sq.buf).hex()])
            # get_by_tag / set_by_tag with a cursor must behave exactly like the named cursor accessors
            resp_tag = pc.call(entry, cfg, "cursortag" + line[len("cursor"):])
            res.count()
            if resp == "OK " + exp and resp_tag != resp:
                a, b = exp.split(), (resp_tag[3:].split() if resp_tag.startswith("OK ") else [resp_tag[:80]])
                j = next((i for i, (x, y) in enumerate(zip(a, b)) if x != y), min(len(a), len(b)))
                pc.fail("cursor-bytag-mismatch", entry, {"cmd": "cursortag" + line[len("cursor"):], "config": cfg, "expect": "OK " + exp, "actual": resp_tag[:3000]},
                        "[%s] message %s, steps `%s` through get_by_tag/set_by_tag with the cursor: token %d expected `%s` got `%s`" % (
                            cfg, L.name, " ".join(sq.tok)[:200], j, " ".join(a[j:j + 3]), " ".join(b[j:j + 3])))
            if resp != "OK " + exp:
                what = resp[:300]
                sig = "cursor-%s" % resp.split(" ")[0].lower()
                if resp.startswith("OK "):
                    a, b = exp.split(), resp[3:].split()
                    j = next((i for i, (x, y) in enumerate(zip(a, b)) if x != y), min(len(a), len(b)))
                    kind = "position" if j < len(a) and a[j].startswith("c=") else "buffer" if j > 0 and a[j - 1] == "BUF" else "value"
                    sig = "cursor-mismatch:%s" % kind
                    what = "token %d: expected `%s` got `%s` (after `%s`)" % (j, " ".join(a[j:j + 3]), " ".join(b[j:j + 3]), " ".join(a[max(0, j - 6):j]))
                pc.fail(sig, entry, {"cmd": line, "config": cfg, "expect": "OK " + exp, "actual": resp[:3000], "values": values.tree_hash_key(vals)},
                        "[%s] message %s, steps `%s`: %s" % (cfg, L.name, " ".join(sq.tok)[:200], what))

    pc.run_hypothesis(body, 2000 if t == "quick" else 30000)
    return pc.finish()


def replay(path):
    case = json.load(open(path))["case"]
    entry = poolcheck.replay_entry(case, [case["config"]])
    if entry is None:
        return 1
    try:
        d = poolcheck.poolmod.Driver(entry.driver(case["config"]))
        resp = d.call(case["cmd"])
        d.close()
        print("expect:", case["expect"][:600])
        print("actual:", resp[:600])
        if case["expect"].startswith("ASSERT"):
            ok = resp.startswith("ASSERT") and "Wrong cursor value" in resp
        else:
            ok = resp == case["expect"]
        print("replay:", "holds now" if ok else "STILL FAILS")
        return 0 if ok else 1
    finally:
        shutil.rmtree(entry.dir, ignore_errors=True)
