"""C09 — sbeppc is total.

Engines: (1) libFuzzer, in process, coverage guided, with a structure-aware
XML custom mutator, on the real `main` of the tree (ASan+UBSan+assertions);
(2) Hypothesis-generated command lines against the hardened binary.
Oracle is inside the target: exit 0, or non-zero + `Error` line + nothing left
in the output directory; no escape / abort / sanitizer report / hang.
"""
import glob
import json
import os
import re
import shutil
import struct
import subprocess
import time

from vlib import common

FUZZ_SRC = os.path.join(common.VERIF, "harness", "fuzz_sbeppc.cpp")
DICT = os.path.join(common.VERIF, "harness", "sbe.dict")
SEED_CORPUS = os.path.join(common.VERIF, "corpus", "c09")


def build_fuzzer():
    d = common.build_dir("fuzz")
    out = os.path.join(d, "fuzz_sbeppc-" + common.file_hash(FUZZ_SRC))
    with common.flock(os.path.join(d, "lock")):
        if os.path.exists(out):
            return out
        bi = common._build_info(d)
        cmd = [common.CLANGXX] + common.HARDEN_FLAGS + ["-fsanitize=fuzzer,address,undefined"] + common.SBEPPC_INC + [
            "-I", os.path.join(common.REPO, "sbeppc/src/sbepp/sbeppc"), FUZZ_SRC, bi, "-o", out + ".tmp", "-lpugixml"]
        r = common.run(cmd)
        if r.returncode != 0:
            raise common.BuildError("fuzz target: " + r.stdout.decode(errors="replace")[-4000:])
        os.rename(out + ".tmp", out)
    return out


def classify(out):
    """Stable signature of a failing run (defect class + site, not the input)."""
    m = re.search(r"C09-VIOLATION signature=(\S+)", out)
    if m:
        return m.group(1)
    m = re.search(r"Assertion `(.*?)' failed", out)
    if m:
        loc = re.search(r"(\w+\.[hc]pp):(\d+):", out)
        return "assert:%s:%s" % (loc.group(1) if loc else "?", re.sub(r"\s+", " ", m.group(1))[:70])
    m = re.search(r"(\S+):(\d+): .*Assertion '(.*?)' failed", out)
    if m:
        fr = re.findall(r"#\d+ 0x[0-9a-f]+ in .*? (/\S*sbeppc/\S+?):(\d+)", out)
        site = ("%s:%s" % (os.path.basename(fr[0][0]), fr[0][1])) if fr else os.path.basename(m.group(1))
        return "libstdcxx-assert:%s:%s" % (site, m.group(3)[:50])
    m = re.search(r"(\S+):(\d+):(\d+): runtime error: (.*)", out)
    if m:
        return "ubsan:%s:%s:%s" % (os.path.basename(m.group(1)), m.group(2), m.group(4)[:50])
    m = re.search(r"ERROR: AddressSanitizer: (\S+)", out)
    if m:
        fr = re.findall(r"#\d+ 0x[0-9a-f]+ in .*? (/\S*sbeppc/\S+?):(\d+)", out)
        return "asan:%s:%s" % (m.group(1), ("%s:%s" % (os.path.basename(fr[0][0]), fr[0][1])) if fr else "?")
    m = re.search(r"terminate called after throwing an instance of '(.*?)'", out)
    if m:
        return "terminate:" + m.group(1)
    if "deadly signal" in out or "ERROR: libFuzzer" in out:
        fr = re.findall(r"#\d+ 0x[0-9a-f]+ in .*? (/\S*sbeppc/\S+?):(\d+)", out)
        return "signal:" + (("%s:%s" % (os.path.basename(fr[0][0]), fr[0][1])) if fr else "?")
    return None


def make_corpus(dst):
    os.makedirs(dst, exist_ok=True)
    n = 0
    srcs = sorted(glob.glob(os.path.join(common.REPO, "test/schemas/*.xml")))
    srcs += sorted(glob.glob(os.path.join(common.REPO, "test/naming_test/*.xml")))
    srcs += sorted(glob.glob(os.path.join(common.REPO, "test/sbeppc_errors/*/*.xml")))
    srcs += sorted(glob.glob(os.path.join(SEED_CORPUS, "*")))
    for s in srcs:
        with open(s, "rb") as f:
            data = f.read()
        if len(data) > 40000:
            continue
        with open(os.path.join(dst, "s%04d" % n), "wb") as f:
            # raw file + two selector bytes (plain command line)
            f.write(data + (b"" if s.startswith(SEED_CORPUS) else b"\0\0"))
        n += 1
    try:
        from vlib import schemagen
        for i, (xml, _m) in enumerate(schemagen.sample_schemas(24, common.seed() * 1000 + 9, allow_include=False, allow_options=False)):
            if len(xml) < 40000:
                with open(os.path.join(dst, "g%04d" % i), "wb") as f:
                    f.write(xml.encode() + b"\0\0")
                n += 1
    except ImportError:
        pass
    return n


def run_artifact(fuzzer, path, env, timeout=120):
    try:
        r = subprocess.run([fuzzer, "-rss_limit_mb=4000", path], stdout=subprocess.PIPE, stderr=subprocess.STDOUT,
                           timeout=timeout, env=env)
        out = r.stdout.decode(errors="replace")
        return r.returncode, out
    except subprocess.TimeoutExpired:
        return -999, "TIMEOUT"


def fuzz_env(work, known):
    env = dict(os.environ)
    env.update({"FUZZ_WORKDIR": "/dev/shm" if os.path.isdir("/dev/shm") else work,
                "FUZZ_STATS": os.path.join(work, "stats"),
                "FUZZ_KNOWN": ";".join(known),
                "ASAN_OPTIONS": "detect_leaks=0:abort_on_error=0:allocator_may_return_null=1",
                "UBSAN_OPTIONS": "print_stacktrace=1"})
    return env


def argv_cases(res, hardened, work, n_cases):
    """Hypothesis-generated command lines against the hardened binary."""
    from hypothesis import given, settings, seed as hseed, strategies as st, HealthCheck
    good = os.path.join(work, "argv_good.xml")
    shutil.copy(os.path.join(common.REPO, "test/schemas/test_schema2.xml"), good)
    bad = os.path.join(work, "argv_bad.xml")
    with open(bad, "w") as f:
        f.write("<a><b></a>")
    afile = os.path.join(work, "argv_file")
    open(afile, "w").write("x")
    toks = ["--schema-name", "--output-dir", "--inject-include", "--version", "--help", "--", "-x", "--unknown",
            "", good, bad, os.path.join(work, "nonexistent.xml"), work, afile, "a b", "{}", "{0:d}", "%s", "n" * 300,
            "name_1", "int", "std", "9x", "outdir", "outdir/deep/er", "../x", "-", "--output-dir=out"]
    stats = {"n": 0, "exit0": 0, "rejected": 0}
    failures = []

    @hseed(common.seed())
    @settings(max_examples=n_cases, database=None, deadline=None, suppress_health_check=list(HealthCheck), derandomize=False)
    @given(st.lists(st.sampled_from(toks), min_size=0, max_size=6))
    def prop(args):
        cwd = os.path.join(work, "argv_cwd")
        shutil.rmtree(cwd, ignore_errors=True)
        os.makedirs(cwd)
        rc, out = None, ""
        for attempt in range(3):
            try:
                r = subprocess.run([hardened] + args, cwd=cwd, stdout=subprocess.PIPE, stderr=subprocess.STDOUT, timeout=60,
                                   env={"PATH": "/usr/bin:/bin", "ASAN_OPTIONS": "detect_leaks=0"})
                rc, out = r.returncode, common.strip_ansi(r.stdout.decode(errors="replace"))
                break
            except subprocess.TimeoutExpired:
                rc, out = -999, "TIMEOUT"
        stats["n"] += 1
        res.count()
        key = json.dumps(args)
        if len(args) >= 2:
            res.nontriv("argv:" + key)
        if stats["n"] % 37 == 1 and len(res.samples) < 10:
            res.sample({"argv": args, "exit": rc, "stdout": out[:160]})
        sig = None
        if rc == -999:
            sig = "argv:hang"
        elif rc < 0 or rc >= 128:
            sig = "argv:" + (classify(out) or "signal%d" % rc)
        elif classify(out):
            sig = "argv:" + classify(out)
        elif rc != 0 and "Error" not in out:
            sig = "argv:no-diagnostic"
        elif rc != 0:
            io_fail = "can't open file" in out or "can't write file" in out or "can't create directory" in out
            left = [p for p in common._iter_files(cwd)]
            if left and not io_fail:
                sig = "argv:files-left-after-rejection"
        if rc == 0:
            stats["exit0"] += 1
        else:
            stats["rejected"] += 1
        if sig:
            failures.append((sig, args, rc, out))
            assert False, sig

    try:
        prop()
    except AssertionError:
        pass
    # Hypothesis shrinks: the last recorded failure is the minimal one
    if failures:
        sig, args, rc, out = failures[-1]
        res.violation(sig, {"kind": "argv", "argv": args}, "argv %r: exit %s, output: %s" % (args, rc, out[-600:]))
    res.extra["argv"] = stats


def catalog_cases(res, hardened, work, n_cases):
    """Semantically targeted invalid (and valid) schemas: a generated valid schema plus at most one rule-breaking edit from
    the C08 catalog, run against the hardened binary.  The oracle here is C09's: exit 0, or non-zero with a diagnostic,
    no sanitizer report / abort / hang, and nothing left in the output directory after a rejection."""
    from hypothesis import given, settings, seed as hseed, strategies as st, HealthCheck, Phase
    from vlib import schemagen
    from vlib.checks import c08
    failures = []
    stats = {"n": 0, "accepted": 0, "rejected": 0}

    @hseed(common.seed() + 909)
    @settings(max_examples=n_cases, database=None, deadline=None, suppress_health_check=list(HealthCheck),
              report_multiple_bugs=False, phases=[Phase.generate, Phase.shrink])
    @given(st.data())
    def prop(data):
        sch = data.draw(schemagen.schemas(max_messages=2), label="schema")
        s2 = json.loads(json.dumps(sch))
        rule = None
        if data.draw(st.integers(0, 7)) != 0:
            cands = c08.candidates(s2, data.draw)
            if cands:
                # first the rule (uniformly among those applicable), then a position: rules with few positions are not starved
                rules_ = sorted({c_[0] for c_ in cands})
                rule = rules_[data.draw(st.integers(0, len(rules_) - 1), label="rule")]
                sub = [c_ for c_ in cands if c_[0] == rule]
                rule, pos, fn = sub[data.draw(st.integers(0, len(sub) - 1), label="edit")]
                fn(s2)
        d = os.path.join(work, "cat")
        shutil.rmtree(d, ignore_errors=True)
        os.makedirs(d)
        for fn_, content in schemagen.include_files(s2).items():
            with open(os.path.join(d, os.path.basename(fn_)), "w") as f:
                f.write(content)
        xml = schemagen.to_xml(s2)
        sp = os.path.join(d, "s.xml")
        with open(sp, "w") as f:
            f.write(xml)
        out_dir = os.path.join(d, "out")
        rc, out = None, ""
        for attempt in range(3):
            try:
                rc, out = common.run_sbeppc(hardened, sp, out_dir, timeout=60, cwd=d,
                                            env={"PATH": "/usr/bin:/bin", "ASAN_OPTIONS": "detect_leaks=0"})
                break
            except subprocess.TimeoutExpired:
                rc, out = -999, "TIMEOUT"
        stats["n"] += 1
        res.count()
        res.nontriv("cat:" + common.text_hash(xml))
        sig = None
        if rc == -999:
            sig = "catalog:hang"
        elif rc < 0 or rc >= 128:
            sig = "catalog:" + (classify(out) or "signal%d" % rc)
        elif classify(out):
            sig = "catalog:" + classify(out)
        elif rc != 0 and "Error" not in out:
            sig = "catalog:no-diagnostic"
        elif rc != 0:
            left = [p_ for p_ in common._iter_files(out_dir)] if os.path.isdir(out_dir) else []
            io_fail = "can't open file" in out or "can't write file" in out or "can't create directory" in out
            if left and not io_fail:
                sig = "catalog:files-left-after-rejection"
        stats["accepted" if rc == 0 else "rejected"] += 1
        res.cls("catalog_" + (rule or "unedited"))
        if sig:
            failures.append((sig, xml, rule, rc, out, schemagen.include_files(s2)))
            assert False, sig

    try:
        prop()
    except AssertionError:
        pass
    if failures:
        sig, xml, rule, rc, out, incs = failures[-1]
        res.violation(sig, {"kind": "catalog", "schema_xml": xml, "rule": rule, "includes": incs},
                      "schema (edit: %s): exit %s, output: %s" % (rule, rc, out[-600:]))
    res.extra["catalog"] = stats


def run(t, budget=1.0):
    res = common.Result("C09", t)
    res.rule = ("libFuzzer (coverage-guided, byte mutator + structure-aware XML mutator; seeds = repository schemas, its error "
                "schemas, generated valid schemas, include graphs) on sbeppc's real main in process, plus Hypothesis-generated "
                "command lines, plus generated schemas with at most one rule-breaking edit from the C08 catalog against the hardened "
                "binary (same oracle incl. no files left after a rejection); non-trivial = input is well-formed XML and reached schema parsing (distinct by input hash, "
                "union over workers), or a command line with >= 2 arguments (distinct by argv)")
    res.assumptions = ["sanitizer/assert-enabled build behaves like the release build except for the added checks",
                       "--help/--version/no-argument paths (which call exit) are exercised only by the subprocess argv generator",
                       "timeouts: libFuzzer -timeout=25 s per input; a timeout artifact counts only if it reproduces 3 times standalone"]
    quick = (t == "quick")
    fuzzer = build_fuzzer()
    hardened = common.build_sbeppc("hardened")
    work = common.build_dir("c09-work-%d" % os.getpid())
    known = sorted(res.findings.known)
    env = fuzz_env(work, known)
    try:
        seeds = os.path.join(work, "seeds")
        nseeds = make_corpus(seeds)
        secs = int((75 if quick else 1200) * budget)
        workers = common.NCPU
        procs = []
        t0 = time.time()
        for i in range(workers):
            cdir = os.path.join(work, "corp%d" % i)
            adir = os.path.join(work, "art%d" % i) + "/"
            os.makedirs(cdir)
            os.makedirs(adir)
            cmd = [fuzzer, "-seed=%d" % (common.seed() * 1000 + i + 1), "-max_total_time=%d" % secs, "-max_len=30000",
                   "-timeout=25", "-rss_limit_mb=4000", "-dict=" + DICT, "-artifact_prefix=" + adir,
                   "-print_final_stats=1", "-use_value_profile=%d" % (i % 2), cdir, seeds]
            log = open(os.path.join(work, "log%d" % i), "wb")
            procs.append((subprocess.Popen(cmd, stdout=log, stderr=subprocess.STDOUT, env=env, cwd=work), log, i))
        # argv generator runs meanwhile
        argv_cases(res, hardened, work, int((150 if quick else 2000) * budget))
        catalog_cases(res, hardened, work, int((600 if quick else 8000) * budget))
        for p, log, i in procs:
            try:
                p.wait(timeout=secs + 600)
            except subprocess.TimeoutExpired:
                p.kill()
            log.close()
        # statistics
        tot = {"n": 0, "ok": 0, "rejected": 0, "rejected_xml": 0, "io_failure": 0, "known": 0}
        hashes = set()
        samples = []
        for sp in glob.glob(os.path.join(work, "stats.*")):
            if sp.endswith(".hashes"):
                data = open(sp, "rb").read()
                hashes.update(struct.unpack("<%dQ" % (len(data) // 8), data[:len(data) // 8 * 8]))
                continue
            for line in open(sp, errors="replace"):
                k, _, v = line.rstrip("\n").partition(" ")
                if k in tot:
                    tot[k] += int(v)
                elif k == "sample":
                    samples.append(v)
        cov = []
        for i in range(workers):
            txt = open(os.path.join(work, "log%d" % i), errors="replace").read()
            m = re.findall(r"cov: (\d+) ft: (\d+)", txt)
            if m:
                cov.append((int(m[-1][0]), int(m[-1][1])))
        res.count(tot["n"])
        for h in hashes:
            res.nontrivial.add(h)
        for s in samples[:6]:
            res.sample({"fuzz_input": s[:400]})
        res.extra["fuzz"] = dict(tot, workers=workers, seconds_per_worker=secs, seed_inputs=nseeds,
                                 max_cov=max([c[0] for c in cov] or [0]), max_features=max([c[1] for c in cov] or [0]))
        res.cls("accepted", tot["ok"])
        res.cls("rejected_schema_level", tot["rejected"] - tot["rejected_xml"])
        res.cls("rejected_xml", tot["rejected_xml"])
        if tot["known"]:
            res.findings.hit["(in-process escapes)"] = tot["known"]
        # artifacts
        arts = sorted(glob.glob(os.path.join(work, "art*", "*")))
        by_sig = {}
        for a in arts:
            base = os.path.basename(a)
            kind = base.split("-")[0]
            if kind in ("oom", "slow"):
                continue
            if kind == "timeout":
                ok = 0
                for _ in range(3):
                    rc, out = run_artifact(fuzzer, a, env, timeout=60)
                    if rc != -999:
                        ok += 1
                        break
                if ok:
                    continue
                sig, out = "hang", "input does not terminate within 60 s (3 attempts)"
            else:
                rc, out = run_artifact(fuzzer, a, env)
                sig = classify(out)
                if sig is None:
                    continue  # does not reproduce standalone: not reported
            by_sig.setdefault(sig, []).append((os.path.getsize(a), a, out))
        for sig, lst in sorted(by_sig.items()):
            lst.sort()
            size, a, out = lst[0]
            data = open(a, "rb").read()
            res.violation(sig, {"kind": "fuzz", "input_hex": data.hex(), "reproductions": len(lst)},
                          "%s (smallest of %d inputs, %d bytes): %s" % (sig, len(lst), size, out[-1500:]))
    finally:
        shutil.rmtree(work, ignore_errors=True)
    return res.finish()


def replay(path):
    case = json.load(open(path))["case"]
    work = common.build_dir("c09-replay-%d" % os.getpid())
    try:
        if case["kind"] == "argv":
            hardened = common.build_sbeppc("hardened")
            r = subprocess.run([hardened] + case["argv"], cwd=work, stdout=subprocess.PIPE, stderr=subprocess.STDOUT, timeout=120)
            out = common.strip_ansi(r.stdout.decode(errors="replace"))
            print("exit", r.returncode, out[-2000:])
            bad = r.returncode < 0 or r.returncode >= 128 or classify(out) or (r.returncode != 0 and "Error" not in out)
            return 1 if bad else 0
        if case["kind"] == "catalog":
            hardened = common.build_sbeppc("hardened")
            for fn_, content in (case.get("includes") or {}).items():
                with open(os.path.join(work, os.path.basename(fn_)), "w") as f:
                    f.write(content)
            sp = os.path.join(work, "s.xml")
            with open(sp, "w") as f:
                f.write(case["schema_xml"])
            out_dir = os.path.join(work, "out")
            rc, out = common.run_sbeppc(hardened, sp, out_dir, timeout=120, cwd=work, env={"PATH": "/usr/bin:/bin", "ASAN_OPTIONS": "detect_leaks=0"})
            left = [p_ for p_ in common._iter_files(out_dir)] if os.path.isdir(out_dir) else []
            print("exit", rc, out[-1500:], "files left:", len(left))
            bad = rc < 0 or rc >= 128 or classify(out) or (rc != 0 and ("Error" not in out or left))
            return 1 if bad else 0
        fuzzer = build_fuzzer()
        p = os.path.join(work, "input")
        open(p, "wb").write(bytes.fromhex(case["input_hex"]))
        rc, out = run_artifact(fuzzer, p, fuzz_env(work, []))
        print(out[-3000:])
        return 1 if (classify(out) or rc == -999) else 0
    finally:
        shutil.rmtree(work, ignore_errors=True)
