"""C11 — read-only views cannot mutate the buffer.

Compile-time half (vlib/probegen.py generates the probes of every pooled schema):
  L1  detection idiom: one TU per (schema, config) instantiates a detector of every probe for the four
      (view byte, cursor byte) constness variants and prints the booleans;
  L2  batched expected-failure compile: per (schema, config, reject variant) one TU with every probe on its own line,
      compiled with an unlimited error count: every line must carry a diagnostic (lines without one are body-level
      rejections reported once per instantiation; they are re-checked individually by L3);
  L3  individual expected-failure compiles of `probes.cpp -DPROBE=k -DVCONST=v -DCCONST=c` (-fsyntax-only):
      Hypothesis-sampled in the quick tier, exhaustive over the core probe set in the thorough tier;
  controls: control.cpp holds every probe under all-mutable byte types (must compile: positive control) and the access
      path + argument values of every probe under each reject variant (must compile: a probe cannot be rejected only
      because its path is broken).
Run-time half: reference-encoded images in a PROT_READ mapping; the pool drivers' dump ra|cur|tag|vis, sizes, events and
checked commands (they place the image read-only and use make_const_view) plus a generated extra program (RoGen) for the
calls the driver lacks (cursor wrappers, by-tag with cursor, iterator arithmetic/comparisons, strlen/strlen_r,
begin/end/rbegin/raw, value comparisons, visit without cursor).  A write faults and is reported as SEGV.
"""
import concurrent.futures as cf
import json
import os
import re
import shutil
import subprocess
import time

from hypothesis import HealthCheck, Phase, given, seed as hseed, settings, strategies as st

from vlib import common, model as modelmod, pool as poolmod, poolcheck, probegen, values

VARIANT_NAMES = {(0, 0): "V-mutable/C-mutable", (0, 1): "V-mutable/C-const", (1, 0): "V-const/C-mutable", (1, 1): "V-const/C-const"}
REJECT_ORDER = [(0, 1), (1, 0), (1, 1)]


# ---------------------------------------------------------------------------
# helpers

def schema_id(entry):
    return os.path.basename(entry.dir)


def byte_options(cfg):
    return ["char", "unsigned char"] + (["std::byte"] if int(cfg[1]) >= 17 else [])


def cfg_of(name):
    return [c for c in poolmod.CONFIGS if poolmod.cfg_name(c) == name][0]


def is_clang(cfg):
    return cfg[0].startswith("clang")


def expected_body_rejected(kind, variant):
    """declarations that are unconstrained in the library: the call is rejected inside a function body, so a detection
    idiom sees the expression as well-formed"""
    if kind in probegen.BODY_REJECTED_KINDS:
        return True
    # a const cursor on a mutable group: cursor_range() is enabled, dereferencing its iterator is not (entry_base ctor)
    if kind.startswith("entry-via.") and kind.endswith(".mixed") and variant == (0, 1):
        return True
    return False


def violation_signature(kind, accepted_what):
    """accepted_what: 'accepted' (real compile), 'sfinae' (detector)"""
    if kind.startswith("conversion."):
        what = kind.split(":", 1)[1]
        return "const-to-mutable-conversion-allowed:%s" % what if accepted_what == "accepted" else "const-to-mutable-conversion-detected:%s" % what
    if kind.startswith("cursor-getter."):
        return "const-to-mutable-conversion-allowed:cursor-getter" if accepted_what == "accepted" else "const-to-mutable-conversion-detected:cursor-getter"
    if accepted_what == "accepted":
        return "const-view-mutator-accepted:%s" % kind
    return "const-view-mutator-not-sfinae-guarded:%s" % kind


class Unit:
    """one (schema, config, byte) compilation context"""

    def __init__(self, sch, cfg, byte):
        self.sch, self.cfg, self.byte = sch, cfg, byte
        self.cfgname = poolmod.cfg_name(cfg)
        self.control_ok = None
        self.bad_accept = set()
        self.bad_prefix = set()
        self.sfinae = None      # {k: "b00 b01 b10 b11"}
        self.batch_missing = {}  # variant -> set(k)
        self.batch_diagnosed = {}  # variant -> set(k)
        self.tnames = {}         # (k, variant) -> mangled type of the object a body-rejected call is made on

    def flags(self, pch=True):
        fl = ["-w", "-I", self.sch.wdir, "-DBYTE=" + self.byte]
        if is_clang(self.cfg) and pch:
            fl += ["-include-pch", self.sch.pch(self.cfgname)]
        else:
            fl += ["-include", os.path.join(self.sch.wdir, "prelude.hpp")]
        return fl

    def cmd(self, src, extra=(), exe=None, pch=True):
        return poolmod.compile_cmd(self.cfg, os.path.join(self.sch.entry.dir, "out"), src, exe=exe, syntax_only=exe is None, extra=self.flags(pch) + list(extra))


class Schema:
    def __init__(self, index, entry, work, tier_):
        self.index = index
        self.entry = entry
        self.id = schema_id(entry)
        self.wdir = os.path.join(work, self.id)
        os.makedirs(self.wdir, exist_ok=True)
        self.gen = probegen.ProbeGen(entry.model)
        self.probes = self.gen.probes
        cfgs = [cfg_of(c) for c in entry.status["configs"]]
        if len(cfgs) > 3:
            cfgs = [cfgs[(index + 3 * j) % len(cfgs)] for j in range(3)]
        self.units = []
        for j, cfg in enumerate(cfgs):
            opts = byte_options(cfg)
            self.units.append(Unit(self, cfg, opts[(index + j) % len(opts)]))
        self.ro_exe = None
        self.ro_cfg = None

    def pch(self, cfgname):
        return os.path.join(self.wdir, "prelude-%s.pch" % cfgname)

    def write_sources(self):
        def wr(name, text):
            with open(os.path.join(self.wdir, name), "w") as f:
                f.write(text)
        wr("prelude.hpp", self.gen.prelude())
        wr("probes.cpp", self.gen.probes_tu(include_prelude=False))
        src, self.control_lines = self.gen.control_tu(include_prelude=False)
        wr("control.cpp", src)
        wr("sfinae.cpp", self.gen.sfinae_tu(include_prelude=False))
        self.reject_lines = {}
        for v, c in REJECT_ORDER:
            src, lines = self.gen.reject_tu(v, c, include_prelude=False)
            self.reject_lines[(v, c)] = lines
            wr("reject%d%d.cpp" % (v, c), src)
        if self.entry.model.messages:
            wr("ro.cpp", probegen.RoGen(self.entry.model).generate())

    def unit_for(self, k):
        return self.units[k % len(self.units)]


def run_cmd(cmd, timeout=900):
    try:
        p = subprocess.Popen(cmd, stdout=subprocess.PIPE, stderr=subprocess.STDOUT)
        out, _ = p.communicate(timeout=timeout)
    except subprocess.TimeoutExpired:
        p.kill()
        p.communicate()
        return -99, "TIMEOUT"
    return p.returncode, out.decode(errors="replace")


def run_digest(cmd, fname):
    """run a compile whose output can be tens of MB; keep only what is needed: (rc, digest) where the digest holds the
    error lines' head, the set of `fname` line numbers mentioned by diagnostics and the flags that matter"""
    rc, out = run_cmd(cmd)
    errs = [l[:400] for l in out.splitlines() if "error" in l or "Error" in l][:12]
    return rc, {"hit": diag_lines(out, fname), "errors": errs or [out[-600:]], "fatal": "fatal error" in out, "tail": out[-1500:]}


def run_single(cmd):
    """individual expected-failure compile: (rc, proper rejection?, first error line, tail)"""
    rc, out = run_cmd(cmd)
    first = ""
    for l in out.splitlines():
        if "error" in l:
            first = l[:300]
            break
    return rc, (proper_rejection(rc, out), first, out[-800:])


def diag_lines(out, fname):
    return set(int(m) for m in re.findall(re.escape(fname) + r":(\d+):", out))


def proper_rejection(rc, out):
    """a compile error, not a missing file / crash / timeout"""
    return rc == 1 and "error" in out and "fatal error" not in out and "internal compiler error" not in out and "PLEASE submit a bug report" not in out


# ---------------------------------------------------------------------------
# the check

class C11:
    def __init__(self, t, budget):
        self.t = t
        self.budget = budget
        self.pc = poolcheck.PoolCheck("C11", t, budget)
        self.res = self.pc.res
        self.work = common.build_dir("c11-%d" % os.getpid())
        self.sigs = {}          # signature -> count
        self.counts = {"l1_detector_evaluations": 0, "l2_batched_reject_functions": 0, "l3_expected_failure_compiles": 0,
                       "control_functions": 0, "control_tus": 0, "runtime_calls": 0, "l3_forced_by_l2": 0}
        self.kind_pop = {}
        self.kind_l3 = {}
        self.body_rejected_seen = {}
        self.harness_notes = []
        self.forced_kinds = {}
        self.sample_families = set()
        self.pending = {}

    # ---------------------------------------------------------- violations
    def violate(self, sig, sch, case, text):
        """remember the smallest failing (schema, probe, config) per signature; reported by flush_violations()"""
        self.sigs[sig] = self.sigs.get(sig, 0) + 1
        key = (sch.index, case.get("probe", {}).get("k", -1), case.get("config", ""), tuple(case.get("variant", ())))
        cur = self.pending.get(sig)
        if cur is None or key < cur[0]:
            self.pending[sig] = (key, sch, case, text)

    def flush_violations(self):
        for sig in sorted(self.pending):
            key, sch, case, text = self.pending[sig]
            full = {"schema_xml": sch.entry.xml, "model": sch.entry.sch, "prelude": sch.gen.prelude()}
            full.update(case)
            self.res.violation(sig, full, text)
        self.pending = {}

    def probe_case(self, sch, unit, p, variant, expect, expr=None):
        return {"schema": sch.id, "config": unit.cfgname, "byte": unit.byte, "probe": p.describe(), "variant": list(variant), "expect": expect,
                "source": sch.gen.single_probe_tu(p, variant[0], variant[1], unit.byte, expr=expr)}

    # ------------------------------------------------------------- stage A
    def stage_a(self, schemas):
        res = self.res
        with cf.ThreadPoolExecutor(max_workers=common.NCPU) as ex:
            # wave 0: clang precompiled preludes
            futs = {}
            for sch in schemas:
                for u in sch.units:
                    if is_clang(u.cfg):
                        cmd = poolmod.compile_cmd(u.cfg, os.path.join(sch.entry.dir, "out"), os.path.join(sch.wdir, "prelude.hpp"), exe=sch.pch(u.cfgname),
                                                  extra=["-w", "-I", sch.wdir, "-x", "c++-header"])
                        futs[ex.submit(run_cmd, cmd)] = (sch, u)
            for f in cf.as_completed(futs):
                rc, out = f.result()
                if rc != 0:
                    sch, u = futs[f]
                    raise RuntimeError("C11 harness: prelude PCH failed for %s %s: %s" % (sch.id, u.cfgname, out[-1500:]))
            # wave 1: control, sfinae (build + run), batched rejects, ro-extra build
            futs = {}
            for sch in schemas:
                for ui, u in enumerate(sch.units):
                    futs[ex.submit(run_digest, u.cmd(os.path.join(sch.wdir, "control.cpp")), "control.cpp")] = ("control", sch, u, None)
                    exe = os.path.join(sch.wdir, "sfinae-" + u.cfgname)
                    futs[ex.submit(self._build_and_run, u.cmd(os.path.join(sch.wdir, "sfinae.cpp"), exe=exe), exe)] = ("sfinae", sch, u, None)
                    for vc in REJECT_ORDER:
                        if sch.reject_lines[vc]:
                            lim = ["-ferror-limit=0"] if is_clang(u.cfg) else ["-fmax-errors=0"]
                            futs[ex.submit(run_digest, u.cmd(os.path.join(sch.wdir, "reject%d%d.cpp" % vc), extra=lim), "reject%d%d.cpp" % vc)] = ("reject", sch, u, vc)
                if sch.entry.model.messages:
                    nro = 1 if self.t == "quick" else 2
                    sch.ro = []
                    for u in sch.units[:nro]:
                        exe = os.path.join(sch.wdir, "ro-" + u.cfgname)
                        cmd = poolmod.compile_cmd(u.cfg, os.path.join(sch.entry.dir, "out"), os.path.join(sch.wdir, "ro.cpp"), exe=exe, extra=["-w"])
                        futs[ex.submit(run_cmd, cmd)] = ("ro", sch, u, exe)
            for f in cf.as_completed(futs):
                what, sch, u, arg = futs[f]
                rc, out = f.result()
                if what == "control":
                    self.on_control(sch, u, rc, out)
                elif what == "sfinae":
                    self.on_sfinae(sch, u, rc, out)
                elif what == "reject":
                    self.on_reject_batch(sch, u, arg, rc, out)
                elif what == "ro":
                    if rc != 0:
                        raise RuntimeError("C11 harness: read-only extra driver does not build for %s %s:\n%s" % (
                            sch.id, u.cfgname, "\n".join(poolmod.first_errors(out, 5))))
                    sch.ro.append((u.cfgname, arg))

    @staticmethod
    def _build_and_run(cmd, exe):
        rc, out = run_cmd(cmd)
        if rc != 0:
            return rc, out
        rc2, out2 = run_cmd([exe], timeout=120)
        if rc2 != 0:
            return 1000 + rc2, out2
        return 0, out2

    def on_control(self, sch, u, rc, out):
        self.counts["control_tus"] += 1
        self.counts["control_functions"] += len(sch.control_lines)
        self.res.count(len(sch.control_lines))
        u.control_ok = rc == 0
        if rc == 0:
            return
        hit = out["hit"]
        for ln in sorted(hit):
            tag = sch.control_lines.get(ln)
            if not tag:
                continue
            k, what = tag
            p = sch.probes[k]
            if what == "accept" and k not in u.bad_accept:
                u.bad_accept.add(k)
                self.violate("mutable-view-mutator-rejected:%s" % p.kind, sch, self.probe_case(sch, u, p, (0, 0), "accept"),
                             "[%s %s BYTE=%s] positive control: probe `%s` (%s) does not compile for mutable byte types: %s" % (
                                 sch.id, u.cfgname, u.byte, p.kind, p.site, "; ".join(out["errors"][:2])))
            elif what == "prefix" and k not in u.bad_prefix:
                u.bad_prefix.add(k)
                vc0 = p.reject[0]
                self.violate("const-path-rejected:%s" % p.kind, sch,
                             self.probe_case(sch, u, p, vc0, "accept", expr=(p.prefix10 if vc0 == (1, 0) else p.prefix)),
                             "[%s %s BYTE=%s] path control: the access path of probe `%s` (%s) does not compile under a const variant: %s" % (
                                 sch.id, u.cfgname, u.byte, p.kind, p.site, "; ".join(out["errors"][:2])))
        if not u.bad_accept and not u.bad_prefix:
            raise RuntimeError("C11 harness: control TU failed without an attributable probe line (%s %s):\n%s" % (sch.id, u.cfgname, out["tail"]))

    def on_sfinae(self, sch, u, rc, out):
        if rc != 0:
            self.violate("sfinae-tu-does-not-build", sch, {"schema": sch.id, "config": u.cfgname, "byte": u.byte, "source_file": "sfinae.cpp",
                                                            "source": sch.gen.sfinae_tu(), "expect": "accept"},
                         "[%s %s] the detection-idiom TU does not build/run (a mutator fails outside the immediate context while being "
                         "detected, or harness error): rc=%d %s" % (sch.id, u.cfgname, rc, "; ".join(poolmod.first_errors(out, 3))))
            return
        got = {}
        for line in out.splitlines():
            parts = line.split()
            if len(parts) == 2 and parts[0].isdigit():
                got[int(parts[0])] = parts[1]
            elif len(parts) == 4 and parts[0] == "T":
                u.tnames[(int(parts[1]), (int(parts[2][0]), int(parts[2][1])))] = parts[3]
        if len(got) != len(sch.probes):
            raise RuntimeError("C11 harness: detection output incomplete for %s %s" % (sch.id, u.cfgname))
        u.sfinae = got
        order = [(0, 0), (0, 1), (1, 0), (1, 1)]
        for p in sch.probes:
            bits = got[p.k]
            for i, vc in enumerate(order):
                b = bits[i] == "1"
                if vc == (0, 0):
                    self.counts["l1_detector_evaluations"] += 1
                    if not b and p.k not in u.bad_accept:
                        u.bad_accept.add(p.k)
                        self.violate("mutable-view-mutator-rejected:%s" % p.kind, sch, self.probe_case(sch, u, p, (0, 0), "accept"),
                                     "[%s %s BYTE=%s] positive control (detection idiom): `%s` (%s) is not callable for mutable byte types" % (
                                         sch.id, u.cfgname, u.byte, p.kind, p.site))
                elif vc in p.reject:
                    self.counts["l1_detector_evaluations"] += 1
                    if b:
                        if expected_body_rejected(p.kind, vc):
                            key = "%s V%dC%d" % ((p.kind,) + vc)
                            self.body_rejected_seen[key] = self.body_rejected_seen.get(key, 0) + 1
                        else:
                            self.violate(violation_signature(p.kind, "sfinae"), sch, dict(self.probe_case(sch, u, p, vc, "reject"), layer="detection-idiom"),
                                         "[%s %s BYTE=%s] detection idiom reports `%s` (%s) as well-formed under %s: %s" % (
                                             sch.id, u.cfgname, u.byte, p.kind, p.site, VARIANT_NAMES[vc],
                                             "a conversion towards a less-const byte type is offered (doc: available only if Byte2* converts to Byte*)"
                                             if p.kind.startswith(("conversion.", "cursor-getter.")) else
                                             "the constness guard of the declaration is missing or wrong (doc: setters are 'not available' for const "
                                             "byte types / more-const cursors)"))
        self.res.count(sum(1 + len(p.reject) for p in sch.probes))

    def on_reject_batch(self, sch, u, vc, rc, out):
        lines = sch.reject_lines[vc]
        self.counts["l2_batched_reject_functions"] += len(lines)
        self.res.count(len(lines))
        if rc == 0 or out["fatal"]:
            if rc != 0:
                raise RuntimeError("C11 harness: batched reject TU fatal error (%s %s): %s" % (sch.id, u.cfgname, out["tail"]))
            u.batch_missing[vc] = set(lines.values())
            u.batch_diagnosed[vc] = set()
            return
        hit = out["hit"]
        u.batch_missing[vc] = set(k for ln, k in lines.items() if ln not in hit)
        u.batch_diagnosed[vc] = set(lines.values()) - u.batch_missing[vc]

    @staticmethod
    def class_key(sch, u, k, vc):
        """body-level rejections: `obj.f(args)` is ill-formed for every obj of the same static type once it is for one"""
        kind = sch.probes[k].kind
        if not expected_body_rejected(kind, vc):
            return None
        tn = u.tnames.get((k, vc))
        if tn is None:
            return None
        return ("entry-deref.mixed" if kind.endswith(".mixed") else kind, tn)

    def reduce_by_type(self, sch, u):
        for vc, ks in u.batch_missing.items():
            if not ks:
                continue
            have = set()
            for k in u.batch_diagnosed.get(vc, ()):
                ck = self.class_key(sch, u, k, vc)
                if ck:
                    have.add(ck)
            left = set()
            for k in ks:
                ck = self.class_key(sch, u, k, vc)
                if ck and ck in have:
                    self.counts["l2_resolved_by_same_static_type"] = self.counts.get("l2_resolved_by_same_static_type", 0) + 1
                else:
                    left.add(k)
            u.batch_missing[vc] = left

    def resolve_missing(self, schemas, rounds=2):
        """a body-level rejection is diagnosed once per instantiation and TU: lines of a batched reject TU without a
        diagnostic are re-batched on their own until nothing changes; what remains goes to individual compiles"""
        for rnd in range(rounds + 1):
            for sch in schemas:
                for u in sch.units:
                    self.reduce_by_type(sch, u)
            if rnd == rounds:
                return
            todo = []
            for sch in schemas:
                for u in sch.units:
                    for vc, ks in u.batch_missing.items():
                        if ks:
                            todo.append((sch, u, vc, set(ks)))
            if not todo:
                return
            progress = False
            with cf.ThreadPoolExecutor(max_workers=common.NCPU) as ex:
                futs = {}
                for sch, u, vc, ks in todo:
                    src, lines = sch.gen.reject_tu(vc[0], vc[1], include_prelude=False, only=ks)
                    fn = os.path.join(sch.wdir, "reject%d%d-%s-r%d.cpp" % (vc[0], vc[1], u.cfgname, rnd))
                    with open(fn, "w") as f:
                        f.write(src)
                    lim = ["-ferror-limit=0"] if is_clang(u.cfg) else ["-fmax-errors=0"]
                    futs[ex.submit(run_digest, u.cmd(fn, extra=lim), os.path.basename(fn))] = (sch, u, vc, lines, os.path.basename(fn))
                for f in cf.as_completed(futs):
                    sch, u, vc, lines, base = futs[f]
                    rc, out = f.result()
                    self.counts["l2_batched_reject_functions"] += len(lines)
                    self.res.count(len(lines))
                    if rc == 0:
                        continue
                    if out["fatal"]:
                        raise RuntimeError("C11 harness: batched reject TU fatal error (%s %s): %s" % (sch.id, u.cfgname, out["tail"]))
                    hit = out["hit"]
                    left = set(k for ln, k in lines.items() if ln not in hit)
                    if len(left) < len(u.batch_missing[vc]):
                        progress = True
                    u.batch_diagnosed[vc] |= set(lines.values()) - left
                    u.batch_missing[vc] = left
            if not progress:
                return

    # ------------------------------------------------------------- stage B
    def l3_jobs_quick(self, schemas, target):
        """Hypothesis draws (schema, probe) pairs, stratified by probe kind"""
        bykind = {}
        for si, sch in enumerate(schemas):
            for p in sch.probes:
                bykind.setdefault(p.kind, []).append((si, p.k))
        kinds = sorted(bykind)
        chosen = []
        seen = set()
        state = {"n": 0}

        @hseed(common.seed())
        @settings(max_examples=max(50, target * 3), database=None, deadline=None, suppress_health_check=list(HealthCheck), phases=[Phase.generate])
        @given(st.data())
        def draw(data):
            # (drawing must not depend on what was collected so far)
            if data.draw(st.integers(0, 3), label="stratified") > 0:
                kind = data.draw(st.sampled_from(kinds), label="kind")
                si, k = data.draw(st.sampled_from(bykind[kind]), label="probe")
            else:
                si = data.draw(st.integers(0, len(schemas) - 1), label="schema")
                k = data.draw(st.integers(0, len(schemas[si].probes) - 1), label="probe")
            if state["n"] >= target or (si, k) in seen:
                return
            seen.add((si, k))
            chosen.append((si, k))
            state["n"] += len(schemas[si].probes[k].reject)
        draw()
        # every kind at least once (deterministic completion of the stratification)
        have = {schemas[si].probes[k].kind for si, k in chosen}
        for kind in kinds:
            if kind not in have:
                si, k = bykind[kind][common.seed() % len(bykind[kind])]
                chosen.append((si, k))
                seen.add((si, k))
        return chosen

    def l3_jobs_thorough(self, schemas, ext_target):
        chosen = [(si, p.k) for si, sch in enumerate(schemas) for p in sch.probes if p.core]
        ext = [(si, p.k) for si, sch in enumerate(schemas) for p in sch.probes if not p.core]
        picked = []
        if ext:
            seen = set()

            @hseed(common.seed())
            @settings(max_examples=ext_target, database=None, deadline=None, suppress_health_check=list(HealthCheck), phases=[Phase.generate])
            @given(st.integers(0, len(ext) - 1))
            def draw(i):
                if i not in seen:
                    seen.add(i)
                    picked.append(ext[i])
            draw()
        return chosen + picked

    def stage_b(self, schemas, pairs):
        res = self.res
        jobs = []
        done = set()
        for si, k in pairs:
            sch = schemas[si]
            p = sch.probes[k]
            u = sch.unit_for(k)
            for vc in p.reject:
                jobs.append((si, k, vc, u, False))
                done.add((si, k, vc, u.cfgname))
            # the same -DPROBE=k compile with mutable byte types must succeed (individual positive control; the control TU
            # holds the same function for every probe): all sampled probes in quick, one in eight in thorough
            if self.t == "quick" or (si + k) % 8 == 0:
                jobs.append((si, k, (0, 0), u, False))
        # probes whose line carried no diagnostic in a batched reject TU
        unexpected = {}
        for si, sch in enumerate(schemas):
            for u in sch.units:
                for vc, ks in u.batch_missing.items():
                    classes = set()
                    for k in sorted(ks):
                        ck = self.class_key(sch, u, k, vc)
                        if ck is not None:
                            if ck in classes:
                                continue   # same call on the same static type as a representative that is compiled individually
                            classes.add(ck)
                        else:
                            # a line without diagnostic that is not one of the known body-level rejections: only expected on a
                            # defective tree (the detection idiom reports it as well); a few individual compiles per kind decide
                            ckey = (sch.probes[k].kind, vc)
                            unexpected[ckey] = unexpected.get(ckey, 0) + 1
                            if unexpected[ckey] > 6:
                                self.counts["l2_undiagnosed_not_recompiled"] = self.counts.get("l2_undiagnosed_not_recompiled", 0) + 1
                                continue
                        if (si, k, vc, u.cfgname) not in done:
                            jobs.append((si, k, vc, u, True))
                            done.add((si, k, vc, u.cfgname))
        results = []
        with cf.ThreadPoolExecutor(max_workers=common.NCPU) as ex:
            futs = {}
            for job in jobs:
                si, k, vc, u, forced = job
                sch = schemas[si]
                cmd = u.cmd(os.path.join(sch.wdir, "probes.cpp"), extra=["-DPROBE=%d" % k, "-DVCONST=%d" % vc[0], "-DCCONST=%d" % vc[1]])
                futs[ex.submit(run_single, cmd)] = job
            for f in cf.as_completed(futs):
                results.append((futs[f], f.result()))
            futs = None
        results.sort(key=lambda r: (r[0][0], r[0][1], r[0][2], r[0][3].cfgname))
        for (si, k, vc, u, forced), (rc, out) in results:
            sch = schemas[si]
            p = sch.probes[k]
            if vc == (0, 0):
                self.counts["l3_individual_accept_compiles"] = self.counts.get("l3_individual_accept_compiles", 0) + 1
                res.count()
                if rc != 0 and k not in u.bad_accept:
                    u.bad_accept.add(k)
                    self.violate("mutable-view-mutator-rejected:%s" % p.kind, sch, self.probe_case(sch, u, p, (0, 0), "accept"),
                                 "[%s %s BYTE=%s] positive control: `-DPROBE=%d` of `%s` (%s) does not compile for mutable byte types: %s" % (
                                     sch.id, u.cfgname, u.byte, k, p.kind, p.site, out[1]))
                continue
            self.counts["l3_expected_failure_compiles"] += 1
            if forced:
                self.counts["l3_forced_by_l2"] += 1
                fk = "%s V%dC%d" % ((p.kind,) + vc)
                self.forced_kinds[fk] = self.forced_kinds.get(fk, 0) + 1
            res.count()
            if k in u.bad_accept or k in u.bad_prefix:
                continue   # no valid control: already reported, not counted as a pass
            if rc == 0:
                # accepted: confirm with a self-contained source and no precompiled header
                src = os.path.join(sch.wdir, "confirm-%d-%d%d-%s.cpp" % (k, vc[0], vc[1], u.cfgname))
                with open(src, "w") as f:
                    f.write(sch.gen.single_probe_tu(p, vc[0], vc[1], u.byte))
                rc2, out2 = run_cmd(poolmod.compile_cmd(u.cfg, os.path.join(sch.entry.dir, "out"), src, syntax_only=True, extra=["-w", "-I", sch.wdir]))
                if rc2 != 0:
                    raise RuntimeError("C11 harness: inconsistent verdicts for %s probe %d (%s): accepted in probes.cpp, rejected stand-alone:\n%s" % (
                        sch.id, k, p.kind, out2[-1500:]))
                self.violate(violation_signature(p.kind, "accepted"), sch, self.probe_case(sch, u, p, vc, "reject"),
                             "[%s %s BYTE=%s] `%s` (%s) compiles under %s: %s" % (sch.id, u.cfgname, u.byte, p.kind, p.site, VARIANT_NAMES[vc], p.expr[:300]))
                continue
            if not out[0]:
                raise RuntimeError("C11 harness: expected-failure compile ended abnormally (rc=%d) for %s probe %d: %s" % (rc, sch.id, k, out[2]))
            res.nontriv("%s:%d" % (sch.id, k))
            self.kind_l3[p.kind] = self.kind_l3.get(p.kind, 0) + 1
            fam = probegen.kind_class(p.kind)
            if len(res.samples) < 9 and fam not in self.sample_families and len(p.expr) < 500:
                self.sample_families.add(fam)
                res.sample({"schema": sch.id, "config": u.cfgname, "byte": u.byte, "kind": p.kind, "site": p.site, "variant": VARIANT_NAMES[vc],
                            "source": sch.gen.single_probe_tu(p, vc[0], vc[1], u.byte)[:1200], "first_error": out[1]})

    # ------------------------------------------------------------- stage C
    def stage_c(self, schemas, n_cases):
        pc = self.pc
        res = self.res
        by_dir = {sch.entry.dir: sch for sch in schemas}
        ro_drivers = {}
        notes = {"assert_responses": 0}

        def check(resp, cmdname, entry, cfg, line, L):
            self.counts["runtime_calls"] += 1
            res.count()
            if resp.startswith("OK"):
                return
            head = resp.split(" ")[0]
            if head == "ASSERT":
                notes["assert_responses"] += 1
                if len(self.harness_notes) < 5:
                    self.harness_notes.append("assertion on a valid read-only image (not a C11 matter): %s %s: %s" % (schema_id(entry), cmdname, resp[:160]))
                return
            if head == "SEGV":
                try:
                    off = int(resp.split(" ")[1])
                except (IndexError, ValueError):
                    off = -1
                sig = ("readonly-write:%s" if off < 0 else "readonly-fault-past-image:%s") % cmdname
            elif head == "DIED":
                sig = "readonly-crash:%s" % cmdname
            else:
                raise RuntimeError("C11 harness: unexpected driver response %r to %r" % (resp[:200], line[:80]))
            pc.fail(sig, entry, {"config": cfg, "cmd": line, "cmdname": cmdname, "actual": resp[:300], "message": L.name},
                    "[%s %s] message %s: `%s` on an image in a PROT_READ mapping -> %s" % (schema_id(entry), cfg, L.name, cmdname, resp[:200]))

        def body(data):
            entry, mi, L = pc.draw_target(data)
            sch = by_dir.get(entry.dir)
            inflate = data.draw(st.booleans(), label="inflate")
            vals = data.draw(values.level_values(L, max_entries=3, inflate=inflate), label="values")
            bg = data.draw(st.sampled_from([0x00, 0xFF, 0xCD, 0x5A]), label="background")
            img, size = entry.model.encode_message(L, vals, background=bg)
            hx = img.hex() or "-"
            k = data.draw(st.integers(0, 40), label="stop")
            res.cls("images")
            if values.count_entries(vals):
                res.cls("images_with_entries")
            for cfg in entry.status["configs"]:
                for mode in ("ra", "cur", "tag", "vis"):
                    line = "dump %d %s %s" % (mi, mode, hx)
                    check(pc.call(entry, cfg, line), "dump-" + mode, entry, cfg, line, L)
                for cmdname, line in (("sizes", "sizes %d %s" % (mi, hx)), ("events", "events %d %d %s" % (mi, k, hx)),
                                      ("checked", "checked %d 0 %s" % (mi, hx))):
                    check(pc.call(entry, cfg, line), cmdname, entry, cfg, line, L)
            if sch is not None:
                for cfgname, exe in getattr(sch, "ro", []):
                    d = ro_drivers.get(exe)
                    if d is None:
                        d = ro_drivers[exe] = poolmod.Driver(exe)
                    line = "ro %d %s" % (mi, hx)
                    check(d.call(line), "ro-extra", entry, cfgname, line, L)

        try:
            pc.run_hypothesis(body, n_cases)
        finally:
            for d in ro_drivers.values():
                d.close()
        res.extra["runtime_assert_responses"] = notes["assert_responses"]

    # ----------------------------------------------------------------- run
    def run(self):
        t, res = self.t, self.res
        res.rule = ("compile time: for every pooled schema the generated probe list (every field/composite-member/header setter in plain, by-tag, "
                    "cursor, cursor-by-tag and cursor-wrapper form; fill_message_header/fill_group_header; group resize/clear; every static-array and "
                    "dynamic-array mutator incl. writes through []/begin()/data()/front()/back()/rbegin()/raw(); entries obtained through every group "
                    "accessor; views reached through random-access, by-tag and cursor paths; conversions of every view/entry/array-ref class and of "
                    "cursors) x constness variants of (view byte, cursor byte); a probe must be rejected under each of its const variants and "
                    "accepted with mutable bytes (control TU), its access path must compile under the const variants (path control); checked by a "
                    "detection idiom (all probes), batched expected-failure TUs (all probes) and individual -fsyntax-only -DPROBE=k compiles "
                    "(Hypothesis-sampled (schema, probe) pairs stratified by kind in quick, every core probe in thorough); byte type rotates over "
                    "char/unsigned char/std::byte, configs rotate over the pool entry's compilers/standards. run time: Hypothesis value trees "
                    "(optionally with inflated block lengths) reference-encoded, mapped PROT_READ, every non-mutating operation through "
                    "make_const_view must not fault. distinct non-trivial = distinct (schema, probe) pairs whose individual expected-failure "
                    "compile(s) were run and properly rejected")
        res.assumptions = ["g++ 12 / clang 14 with libstdc++ 12 stand for gcc/clang", "run-time half uses valid images only (arbitrary bytes would make getters over-read, which is not a write)",
                           "run-time half reuses the pool's per-schema driver binaries (commands dump ra|cur|tag|vis, sizes, events, checked place the image read-only) "
                           "plus a generated extra program per schema for the operations the driver does not call",
                           "group resize()/clear() and dereferencing a cursor_range(const cursor) of a mutable group are rejected inside a function body, not by a "
                           "constraint: for these the detection idiom is expected to report 'callable' and only the real compiles decide",
                           "clang probe compiles use a precompiled prelude (identical sources); an accepted probe is re-compiled stand-alone without it before it is reported"]
        seen = set()
        uniq = []
        for e in self.pc.pool.entries:
            if schema_id(e) not in seen:
                seen.add(schema_id(e))
                uniq.append(e)
        schemas = []
        for i, e in enumerate(uniq):
            sch = Schema(i, e, self.work, t)
            sch.write_sources()
            schemas.append(sch)
            for p in sch.probes:
                self.kind_pop[p.kind] = self.kind_pop.get(p.kind, 0) + 1
        res.extra["distinct_schemas"] = len(schemas)
        t0 = time.time()
        self.stage_a(schemas)
        self.resolve_missing(schemas)
        res.extra["stage_a_wall_s"] = round(time.time() - t0, 1)
        t0 = time.time()
        if t == "quick":
            pairs = self.l3_jobs_quick(schemas, int(380 * self.budget))
            res.exhaustive = False
        else:
            pairs = self.l3_jobs_thorough(schemas, int(3000 * self.budget))
            res.exhaustive = True
        self.stage_b(schemas, pairs)
        self.flush_violations()
        res.extra["stage_b_wall_s"] = round(time.time() - t0, 1)
        t0 = time.time()
        if self.pc.entries:
            self.stage_c(schemas, 350 if t == "quick" else 6000)
        res.extra["stage_c_wall_s"] = round(time.time() - t0, 1)
        fam = {}
        for k, n in self.kind_pop.items():
            f = probegen.kind_class(k)
            fam[f] = fam.get(f, 0) + n
        res.extra["probe_counts_per_kind"] = dict(sorted(self.kind_pop.items()))
        res.extra["probe_counts_per_family"] = fam
        res.extra["l3_compiled_probe_variants_per_kind"] = dict(sorted(self.kind_l3.items()))
        res.extra["layers"] = self.counts
        res.extra["l3_forced_by_l2_kinds"] = dict(sorted(self.forced_kinds.items()))
        res.extra["exhaustive_scope"] = ("thorough: individual expected-failure compiles of every core probe x reject variant of every distinct pool schema; "
                                         "both tiers: detection idiom and batched reject TU over every probe x variant") if t != "quick" else \
            "quick: detection idiom and batched reject TU over every probe x variant; individual compiles are sampled"
        res.extra["body_rejected_not_sfinae_visible"] = dict(sorted(self.body_rejected_seen.items()))
        for sig, _p, _t in res.violations:
            self.sigs.setdefault(sig, 1)
        res.extra["violation_counts_per_signature"] = dict(sorted(self.sigs.items()))
        res.extra["bytes_used"] = sorted({u.byte for s in schemas for u in s.units})
        res.extra["probe_configs_used"] = sorted({u.cfgname for s in schemas for u in s.units})
        if self.harness_notes:
            res.extra["notes"] = self.harness_notes
        return self.pc.finish()


def run(t, budget=1.0):
    chk = C11(t, budget)
    try:
        return chk.run()
    finally:
        chk.pc.drivers.close()
        shutil.rmtree(chk.work, ignore_errors=True)


# ---------------------------------------------------------------------------
# replay

def replay(path):
    rec = json.load(open(path))
    case = rec["case"]
    if "cmd" in case and "model" in case:
        # run-time half: rebuild the pool driver for that schema
        entry = poolcheck.replay_entry(case, [case["config"]])
        if entry is None:
            return 1
        try:
            if case.get("cmdname") == "ro-extra":
                src = os.path.join(entry.dir, "ro.cpp")
                with open(src, "w") as f:
                    f.write(probegen.RoGen(entry.model).generate())
                exe = os.path.join(entry.dir, "ro-extra")
                cfg = cfg_of(case["config"])
                rc, out = run_cmd(poolmod.compile_cmd(cfg, os.path.join(entry.dir, "out"), src, exe=exe, extra=["-w"]))
                if rc != 0:
                    print(out[-1500:])
                    return 1
                d = poolmod.Driver(exe)
            else:
                d = poolmod.Driver(entry.driver(case["config"]))
            resp = d.call(case["cmd"])
            d.close()
            print("before:", case.get("actual"))
            print("now:   ", resp[:300])
            ok = resp.startswith("OK")
            print("replay:", "holds now" if ok else "STILL FAILS")
            return 0 if ok else 1
        finally:
            shutil.rmtree(entry.dir, ignore_errors=True)
    work = common.build_dir("c11-replay-%d" % os.getpid())
    try:
        sp = os.path.join(work, "schema.xml")
        if case.get("model"):
            from vlib import schemagen
            sp = schemagen.write_schema(case["model"], work)   # (re-creates included fragments next to the schema)
        else:
            with open(sp, "w") as f:
                f.write(case["schema_xml"])
        out_dir = os.path.join(work, "out")
        rc, out = common.run_sbeppc(common.build_sbeppc("plain"), sp, out_dir)
        if rc != 0:
            print("schema rejected by sbeppc now:", out[-400:])
            return 1
        # the prelude is regenerated from the schema when possible (alias list), else taken from the file
        with open(os.path.join(work, "prelude.hpp"), "w") as f:
            f.write(case["prelude"])
        src = os.path.join(work, "probe.cpp")
        with open(src, "w") as f:
            f.write(case["source"])
        cfg = cfg_of(case["config"])
        extra = ["-w", "-I", work]
        exe = None
        if case.get("source_file") == "sfinae.cpp":
            extra += ["-include", os.path.join(work, "prelude.hpp"), "-DBYTE=" + case.get("byte", "char")]
            exe = os.path.join(work, "sfinae")
        rc, out = run_cmd(poolmod.compile_cmd(cfg, out_dir, src, exe=exe, syntax_only=exe is None, extra=extra))
        expect = case.get("expect", "reject")
        print("probe:", json.dumps(case.get("probe", {}), indent=1)[:1500])
        print("config: %s  BYTE=%s  variant=%s  expectation: %s" % (case["config"], case.get("byte"), case.get("variant"), expect))
        if case.get("layer") == "detection-idiom":
            # re-evaluate the detector of this one probe
            p = case["probe"]
            v, c = case["variant"]
            det = ('#include "prelude.hpp"\n#include <cstdio>\ntemplate<typename VB, typename CB, typename = void> struct D : std::false_type {};\n'
                   'template<typename VB, typename CB> struct D<VB, CB, typename %s::voider<decltype(%s)>::type> : std::true_type {};\n'
                   'int main() { std::printf("%%d\\n", int(D<%s%s, %s%s>::value)); return 0; }\n') % (
                probegen.NS, p["expr"], "const " if v else "", case["byte"], "const " if c else "", case["byte"])
            with open(src, "w") as f:
                f.write(det)
            exe = os.path.join(work, "det")
            rc, out = run_cmd(poolmod.compile_cmd(cfg, out_dir, src, exe=exe, extra=["-w", "-I", work]))
            if rc != 0:
                print(out[-1500:])
                print("replay: detector does not build: STILL FAILS")
                return 1
            rc, out = run_cmd([exe])
            detected = out.strip() == "1"
            print("detector says well-formed:", detected)
            print("replay:", "STILL FAILS" if detected else "holds now")
            return 1 if detected else 0
        if expect == "reject":
            ok = proper_rejection(rc, out)
            print("compiler verdict: %s" % ("rejected" if rc != 0 else "ACCEPTED"))
        else:
            ok = rc == 0
            print("compiler verdict: %s" % ("accepted" if rc == 0 else "REJECTED"))
            if rc != 0:
                print("\n".join(poolmod.first_errors(out, 4)))
        print("replay:", "holds now" if ok else "STILL FAILS")
        return 0 if ok else 1
    finally:
        shutil.rmtree(work, ignore_errors=True)
