"""C10 — checked builds never touch memory outside the view silently.

Every accessor family of the generated views (random-access getters, cursor
traversal, visit, by-tag access, size queries, size_bytes_checked, and encode
scripts with every setter / header filler / group resize / array and data
mutator) is run on a view bound to [p, p+n) for EVERY n from 0 to the full
image size, with byte n on a PROT_NONE page and a canary region in front of p.
Direction 1: the outcome is `completed` or `assertion handler invoked`, never
a fault at or beyond p+n, never a damaged canary, never a dead process.
Direction 2: at n == exact full size, with all documented preconditions
satisfied, the handler must not fire.  Header contents steering dynamic
offsets are varied by corrupting blockLength / numInGroup / length fields.
"""
import json
import shutil

from hypothesis import strategies as st

from vlib import common, poolcheck, values
from vlib.checks import c01, c04


READ_CMDS = ["dump ra", "dump cur", "dump vis", "dump tag", "sizes", "events0", "checked"]


def read_line(cmd, mi, hx):
    if cmd.startswith("dump"):
        return "dump %d %s %s" % (mi, cmd.split()[1], hx)
    if cmd == "sizes":
        return "sizes %d %s" % (mi, hx)
    if cmd == "events0":
        return "events %d 0 %s" % (mi, hx)
    return "checked %d 0 %s" % (mi, hx)


def run(t, budget=1.0):
    pc = poolcheck.PoolCheck("C10", t, budget)
    res = pc.res
    res.rule = ("pool image x accessor family {random-access dump, cursor dump, visit dump, by-tag dump, size queries, event visitor, "
                "size_bytes_checked, encode scripts (all setters, fillers, resize, array/data mutators)} x EVERY buffer length n in "
                "[0, full] (view bound to exactly n bytes, PROT_NONE page at byte n, canary before the buffer), plus images with one "
                "corrupted blockLength/numInGroup/length field; outcome must be completed or handler, never fault/canary/death; at "
                "n == full with valid contents the handler must not fire; non-trivial = (family, n) pairs whose outcome is `handler` "
                "plus all exact-fit pairs; distinct by (image hash, family, n)")
    res.assumptions = ["direction 2 (no spurious assertion) is asserted only at exact full fit, because the documentation does not fix the "
                       "granularity of checks for partially available data", "hostile numInGroup values are capped at 300 to keep traversals finite",
                       "size_bytes_checked on short buffers is C06's subject; here only faults count for it"]
    if not pc.entries:
        return pc.finish()

    def outcome(resp):
        oc = resp.split(" ", 1)[0]
        if oc == "SEGV":
            # "SEGV <fault address - end of buffer>": a fault far BELOW the start of the buffer comes from a pointer that wrapped
            # around (hostile 64-bit blockLength / length added to a pointer).  Whether such an access faults depends on what
            # happens to be mapped there, so it is not a reproducible verdict, and the property speaks of bytes at or beyond
            # p+n: counted as inconclusive, never reported (DESIGN 9.7)
            try:
                off = int(resp.split(" ")[1])
            except (IndexError, ValueError):
                off = 0
            if off < -(1 << 20):
                res.cls("inconclusive_fault_far_below_the_buffer")
                return "BELOW"
        return oc

    def body(data):
        entry, mi, L = pc.draw_target(data)
        M = entry.model
        cfgs = entry.status["configs"]
        family = data.draw(st.sampled_from(["read", "read", "write", "hostile", "cursor", "cursor", "exactfit", "exactfit"]))
        res.cls("family_" + family)
        if family == "exactfit":
            # direction 2 only, many images per case (no truncation sweep): well-formed images incl. inflated block lengths (small and
            # near 2^8 / 2^16), bound to exactly their size; no accessor family may trip the handler or fault
            for _ in range(12):
                v2 = data.draw(values.level_values(L, max_entries=3, inflate=data.draw(st.sampled_from([True, True, False])), model=M))
                img2, _sz = M.encode_message(L, v2, background=data.draw(st.sampled_from([0, 0xFF, 0x5A])))
                for c2 in [x for x in READ_CMDS if x != "checked"]:
                    cfg = cfgs[data.draw(st.integers(0, len(cfgs) - 1))]
                    line = read_line(c2, mi, img2.hex() or "-")
                    resp = pc.call(entry, cfg, line)
                    res.count()
                    res.nontriv(common.text_hash(entry.dir, c2, img2, "full"))
                    if outcome(resp) == "OUTLIMIT":
                        res.cls("inconclusive_output_limit")
                        continue
                    if outcome(resp) != "OK":
                        pc.fail("spurious-assertion:%s" % c2.replace(" ", "-") if outcome(resp) == "ASSERT" else "silent-out-of-bounds:%s:exact-fit" % c2.replace(" ", "-"), entry,
                                {"cmd": line, "config": cfg, "n": len(img2), "full": len(img2), "expect": "OK", "actual": resp[:300]},
                                "[%s] %s on a well-formed, exactly fitting image of message %s: %s" % (cfg, c2, L.name, resp[:200]))
            return
        if family in ("read", "hostile"):
            vals = data.draw(values.level_values(L, max_entries=3, inflate=data.draw(st.booleans())))
            img, size = M.encode_message(L, vals, background=data.draw(st.sampled_from([0, 0xFF, 0x42])))
            cmds = READ_CMDS
            c = None
            if family == "hostile":
                fits, sz, ctrl = M.walk_message(L, img)
                ctrl = [c for c in ctrl if c[0] != "group"]
                if not ctrl:
                    return
                c = data.draw(st.sampled_from(ctrl))
                _, pos, width, _nm = c
                top = 2 ** (8 * width) - 1
                if c[0] == "numInGroup":
                    v = data.draw(st.integers(0, min(top, 300)))
                else:
                    orig = M.unpack(img[pos:pos + width])
                    v = data.draw(st.one_of(st.sampled_from(sorted({0, 1, max(orig - 1, 0), min(orig + 1, top), top, top - 1, max(top - width, 0), max(top - width + 1, 0), top // 2 + 1, len(img)})), st.integers(0, top)))
                b = bytearray(img)
                b[pos:pos + width] = M.pack(v, width)
                img = bytes(b)
                res.cls("hostile_" + c[0])
                # size_bytes_checked on hostile counts is C06's subject (known unbounded-work finding): not run here
                cmds = [x for x in READ_CMDS if x != "checked"]
            full = len(img)
            ns = list(range(0, full + 1)) if full <= 300 else sorted(set([0, 1, full - 1, full] + data.draw(st.lists(st.integers(0, full), min_size=60, max_size=60))))
            cmd = data.draw(st.sampled_from(cmds))
            res.cls("cmd_" + cmd.replace(" ", "_"))
            if family == "read":
                # direction 2 for every accessor family: exact fit, valid contents => no handler
                for c2 in cmds:
                    for cfg in cfgs:
                        line = read_line(c2, mi, img.hex() or "-")
                        resp = pc.call(entry, cfg, line)
                        res.count()
                        res.nontriv(common.text_hash(entry.dir, c2, img, "full"))
                        if outcome(resp) != "OK":
                            pc.fail("spurious-assertion:%s" % c2.replace(" ", "-") if outcome(resp) == "ASSERT" else "silent-out-of-bounds:%s:exact-fit" % c2.replace(" ", "-"), entry,
                                    {"cmd": line, "config": cfg, "n": full, "full": full, "expect": "OK", "actual": resp[:300]},
                                    "[%s] %s on a well-formed, exactly fitting image of message %s: %s" % (cfg, c2, L.name, resp[:200]))
            if family == "read":
                # more exact-fit images (cheap): cursor/visit traversals of extended images must not trip the handler
                for _ in range(8):
                    v2 = data.draw(values.level_values(L, max_entries=3, inflate=True))
                    img2, _sz = M.encode_message(L, v2, background=0x99)
                    for c2 in ("dump cur", "dump vis", "sizes"):
                        cfg = cfgs[data.draw(st.integers(0, len(cfgs) - 1))]
                        line = read_line(c2, mi, img2.hex() or "-")
                        resp = pc.call(entry, cfg, line)
                        res.count()
                        res.nontriv(common.text_hash(entry.dir, c2, img2, "full"))
                        if outcome(resp) != "OK":
                            pc.fail("spurious-assertion:%s" % c2.replace(" ", "-") if outcome(resp) == "ASSERT" else "silent-out-of-bounds:%s:exact-fit" % c2.replace(" ", "-"), entry,
                                    {"cmd": line, "config": cfg, "n": len(img2), "full": len(img2), "expect": "OK", "actual": resp[:300]},
                                    "[%s] %s on a well-formed, exactly fitting image of message %s: %s" % (cfg, c2, L.name, resp[:200]))
            for n in ns:
                cfg = cfgs[n % len(cfgs)]
                hx = img[:n].hex() or "-"
                line = read_line(cmd, mi, hx)
                resp = pc.call(entry, cfg, line)
                res.count()
                oc = outcome(resp)
                key = common.text_hash(entry.dir, cmd, img, str(n))
                if oc == "ASSERT" or n == full:
                    res.nontriv(key)
                if oc == "OUTLIMIT":
                    res.cls("inconclusive_output_limit")
                    continue
                if oc == "BELOW":
                    if family == "hostile":
                        continue
                    oc = "SEGV"   # without hostile header values no pointer can wrap: an ordinary verdict
                if oc == "SEGV" and family == "hostile":
                    # same for a wrapped pointer that lands just below the buffer (in the leading guard page): below p, not
                    # "at or beyond p+n"
                    try:
                        if int(resp.split(" ")[1]) < -n:
                            res.cls("inconclusive_fault_below_the_buffer")
                            continue
                    except (IndexError, ValueError):
                        pass
                if oc == "OK" and "view extends past the buffer" in resp:
                    pc.fail("unchecked-view-extent:%s" % cmd.replace(" ", "-"), entry,
                            {"cmd": line, "config": cfg, "n": n, "full": full, "expect": "OK-or-ASSERT", "actual": resp[:300]},
                            "[%s] %s on message %s bound to %d of %d bytes returned a data/array view reaching past the buffer without an assertion" % (cfg, cmd, L.name, n, full))
                if oc in ("SEGV", "DIED", "BUDGET") or oc not in ("OK", "ASSERT", "SEGV", "DIED"):
                    pc.fail("silent-out-of-bounds:%s:%s" % (cmd.replace(" ", "-"), "hostile-" + c[0] if family == "hostile" else "truncated"), entry,
                            {"cmd": line, "config": cfg, "n": n, "full": full, "expect": "OK-or-ASSERT", "actual": resp[:300]},
                            "[%s] %s on message %s bound to %d of %d bytes: %s" % (cfg, cmd, L.name, n, full, resp[:200]))
                if family == "read" and n == full and oc != "OK":
                    pc.fail("spurious-assertion:%s" % cmd.replace(" ", "-"), entry,
                            {"cmd": line, "config": cfg, "n": n, "full": full, "expect": "OK", "actual": resp[:300]},
                            "[%s] %s on a well-formed, exactly fitting image of message %s: %s" % (cfg, cmd, L.name, resp[:200]))
            if len(res.samples) < 5 and (len(res.samples) < 2 or res.evaluations % 1999 < 300):
                res.sample({"schema": entry.dir.split("/")[-1], "message": L.name, "family": family, "command": cmd, "full_size": full, "lengths_tried": len(ns)})
            return
        if family == "cursor":
            # a legal cursor call sequence (all wrappers, reads and writes; see C04) on the image truncated at every n
            vals = data.draw(values.level_values(L, max_entries=2, inflate=data.draw(st.booleans())))
            img, size = M.encode_message(L, vals, background=0x33)
            lay = c04.layout_level(M, L, vals, M.header.size, vals.get("extra", 0))
            sq = c04.Seq(M, img)
            if data.draw(st.booleans()):
                # setter-heavy variant: most members written, one wrapper preferred (exercises each wrapper's setters, incl. last fields)
                sq.write_weight = 3
                sq.prefer = data.draw(st.sampled_from(["p", "i", "d", "j"]))
                res.cls("cursor_setter_heavy_" + sq.prefer)
            sq.tok.append("I")
            sq.cur = M.header.size
            sq.c()
            c04.root_walk(data, sq, L, vals, lay)
            toks = " ".join(sq.tok)
            full = len(img)
            ns = list(range(0, full + 1)) if full <= 200 else sorted(set([0, 1, full - 1, full] + data.draw(st.lists(st.integers(0, full), min_size=40, max_size=40))))
            for n in ns:
                cfg = cfgs[n % len(cfgs)]
                line = "cursor %d %s %s" % (mi, img[:n].hex() or "-", toks)
                resp = pc.call(entry, cfg, line)
                res.count()
                oc = outcome(resp)
                if oc == "ASSERT" or n == full:
                    res.nontriv(common.text_hash(entry.dir, "cursor", toks, str(n)))
                bad = None
                if oc in ("SEGV", "DIED") or oc not in ("OK", "ASSERT"):
                    bad = "silent-out-of-bounds:cursor:truncated"
                elif "XERR(write before the buffer)" in resp:
                    bad = "canary-damaged:cursor"
                elif n == full and oc != "OK":
                    bad = "spurious-assertion:cursor"
                if bad:
                    pc.fail(bad, entry, {"cmd": line, "config": cfg, "n": n, "full": full, "expect": "OK-or-ASSERT" if n < full else "OK", "actual": resp[:300]},
                            "[%s] cursor sequence `%s` on message %s bound to %d of %d bytes: %s" % (cfg, toks[:120], L.name, n, full, resp[:200]))
            res.cls("cmd_cursor")
            return
        # ---- write family: encode script valid for the full image, buffer truncated at every n
        pat = data.draw(st.sampled_from([0x00, 0xFF, 0xA5]))
        # first run the script on a generous buffer to learn the exact size it needs
        big = min(M.header.size + c01.max_image_size(M, L) + 16, 60000)
        sc = c01.Script(M, bytes([pat]) * big)
        sc.tok.append("F")
        M.write_header(sc.buf, 0, M.header, M.header_values(L))
        sc.rets.append("hdr=0")
        end = c01.draw_level(data, sc, L, M.header.size, L.block_length, 0)
        full = end
        toks = " ".join(sc.tok)
        ns = list(range(0, full + 1)) if full <= 200 else sorted(set([0, 1, full - 1, full] + data.draw(st.lists(st.integers(0, full), min_size=40, max_size=40))))
        for n in ns:
            cfg = cfgs[n % len(cfgs)]
            bg = bytes([pat]) * n
            line = "encode %d %s %s" % (mi, bg.hex() or "-", toks)
            resp = pc.call(entry, cfg, line)
            res.count()
            oc = outcome(resp)
            key = common.text_hash(entry.dir, "encode", toks, str(n))
            if oc == "ASSERT" or n == full:
                res.nontriv(key)
            bad = None
            if oc in ("SEGV", "DIED") or oc not in ("OK", "ASSERT"):
                bad = "silent-out-of-bounds:encode:truncated"
            elif "XERR(write before the buffer)" in resp:
                bad = "canary-damaged:encode"
            elif n == full and oc != "OK":
                bad = "spurious-assertion:encode"
            elif n == full and resp[resp.rfind("BUF ") + 4:].strip() != bytes(sc.buf[:full]).hex():
                bad = "exact-fit-buffer-mismatch:encode"
            if bad:
                pc.fail(bad, entry, {"cmd": line, "config": cfg, "n": n, "full": full, "expect": "OK-or-ASSERT" if n < full else "OK", "actual": resp[:300]},
                        "[%s] encode script on message %s bound to %d of %d bytes: %s" % (cfg, L.name, n, full, resp[:200]))
        res.cls("cmd_encode")

    pc.run_hypothesis(body, 400 if t == "quick" else 6000)
    return pc.finish()


def replay(path):
    case = json.load(open(path))["case"]
    entry = poolcheck.replay_entry(case, [case["config"]])
    if entry is None:
        return 1
    try:
        d = poolcheck.poolmod.Driver(entry.driver(case["config"]))
        resp = d.call(case["cmd"])
        d.close()
        print("actual:", resp[:400])
        oc = resp.split(" ", 1)[0]
        ok = oc == "OK" or (oc == "ASSERT" and case["expect"] == "OK-or-ASSERT")
        if "XERR(write before the buffer)" in resp or "view extends past the buffer" in resp:
            ok = False
        print("replay:", "holds now" if ok else "STILL FAILS")
        return 0 if ok else 1
    finally:
        shutil.rmtree(entry.dir, ignore_errors=True)
