"""C17 — header fillers write exactly the schema's identifying values.

fill_message_header on every pooled message and fill_group_header on every
group level (entered through reference-filled ancestors) with numInGroup in
{0, 1, type max, random}, on a generated background buffer: header member bytes
must equal the reference (schemaId, templateId, version, explicit-or-computed
blockLength, numGroups / numVarDataFields when declared; blockLength, numInGroup
for groups), every other byte of the buffer — padding and extra header members
included — must be unchanged, and the returned view must be the header view.
"""
import json
import shutil

from hypothesis import strategies as st

from vlib import common, poolcheck
from vlib.checks import c01
from vlib.schemagen import prim_range


def all_group_paths(L, prefix=()):
    res = []
    for i, g in enumerate(L.groups):
        res.append(prefix + (i,))
        res += all_group_paths(g, prefix + (i,))
    return res


def run(t, budget=1.0):
    pc = poolcheck.PoolCheck("C17", t, budget)
    res = pc.res
    res.rule = ("pool schema (header composites with members in any order, custom offsets, extra members, ref-typed members, any integer "
                "types, optional numGroups/numVarDataFields) x message x target level (message header or any group at any depth) x "
                "numInGroup in {0, 1, type max, random} x background pattern; whole-buffer equality with the reference overlay and "
                "returned header address; non-trivial = header composite is non-conventional (order/offsets/extras/refs) or target is a "
                "nested group; distinct by (schema, message, target path, n, background)")
    res.assumptions = ["reference model defines header member offsets and the values to write"]
    if not pc.entries:
        return pc.finish()

    def body(data):
        entry, mi, L = pc.draw_target(data)
        M = entry.model
        paths = [()] + all_group_paths(L)
        path = data.draw(st.sampled_from(paths))
        size = min(M.header.size + c01.max_image_size(M, L) + 16, 60000)
        pat = data.draw(st.sampled_from(["00", "ff", "5a", "rand"]))
        bg = data.draw(st.binary(min_size=size, max_size=size)) if pat == "rand" else bytes([int(pat, 16)]) * size
        sc = c01.Script(M, bg)
        sc.tok.append("F")
        M.write_header(sc.buf, 0, M.header, M.header_values(L))
        sc.rets.append("hdr=0")
        pos = M.header.size
        lvl = L
        nval = None
        depth = 0
        while True:
            sc.tok.append("e")          # no field writes on this level
            pos += lvl.block_length
            if depth == len(path):
                # no target below: fill remaining groups empty and write empty data so that the script is complete
                for g in lvl.groups:
                    sc.tok += ["F", "0"]
                    M.write_header(sc.buf, pos, g.dimension, M.header_values(g, num_in_group=0))
                    sc.rets.append("hdr=%d" % pos)
                    pos += g.dimension.size
                break
            gi = path[depth]
            for g in lvl.groups[:gi]:
                sc.tok += ["F", "0"]
                M.write_header(sc.buf, pos, g.dimension, M.header_values(g, num_in_group=0))
                sc.rets.append("hdr=%d" % pos)
                pos += g.dimension.size
            g = lvl.groups[gi]
            if depth + 1 == len(path):
                nmax = prim_range(M.member(g.dimension, "numInGroup").prim)[1]
                nval = data.draw(st.one_of(st.sampled_from([0, 1, nmax, nmax - 1, nmax // 2 + 1]), st.integers(0, nmax)))
                sc.tok += ["Z", "0", "%x" % nval]
                M.write_header(sc.buf, pos, g.dimension, M.header_values(g, num_in_group=nval))
                sc.rets.append("hdr=%d" % pos)
                break
            sc.tok += ["F", "1"]
            M.write_header(sc.buf, pos, g.dimension, M.header_values(g, num_in_group=1))
            sc.rets.append("hdr=%d" % pos)
            pos += g.dimension.size
            lvl = g
            depth += 1
        complete = (len(path) == 0)
        if complete:
            # message-header-only case: data members of the root level need a (zero-length) write to finish the script
            for d in L.data:
                sc.tok += ["r", "-"]
                lm = M.member(d.encoding, "length")
                sc.buf[pos + lm.offset: pos + lm.offset + lm.size] = M.pack(0, lm.size)
                pos += d.header_size
        exp_buf = bytes(sc.buf).hex()
        line = "encode %d %s %s" % (mi, bg.hex(), " ".join(sc.tok))
        feats = set(entry.status.get("features", []))
        if "nonconventional_header" in feats or len(path) >= 2:
            res.nontriv(common.text_hash(entry.dir, str(mi), str(path), str(nval), pat, bg[:16]))
        res.cls("target_depth_%d" % len(path))
        if len(res.samples) < 5 and (len(res.samples) < 2 or res.evaluations % 301 < 7):
            res.sample({"schema": entry.dir.split("/")[-1], "message": L.name, "target_group_path": list(path), "numInGroup": nval, "script": " ".join(sc.tok)})
        for cfg in entry.value_configs():
            resp = pc.call(entry, cfg, line)
            res.count()
            i = resp.rfind("BUF ")
            ok = resp.startswith("OK ") and resp[i + 4:].strip() == exp_buf and resp[3:i].split() == sc.rets
            if not ok:
                what = resp[:200]
                sig = "filler-" + resp.split(" ")[0].lower()
                if resp.startswith("OK "):
                    got = resp[i + 4:].strip()
                    diffs = [j // 2 for j in range(0, len(exp_buf), 2) if exp_buf[j:j + 2] != got[j:j + 2]]
                    if diffs:
                        sig = "filler-bytes-mismatch:%s" % ("message" if not path else "group")
                        what = "buffer differs at offsets %s: expected %s got %s" % (diffs[:8], exp_buf[2 * diffs[0]:2 * diffs[0] + 16], got[2 * diffs[0]:2 * diffs[0] + 16])
                    else:
                        sig = "filler-return-mismatch"
                        what = "returned header addresses: expected %s got %s" % (sc.rets, resp[3:i].split())
                pc.fail(sig, entry, {"cmd": line, "config": cfg, "expected_buffer": exp_buf, "expected_rets": sc.rets, "actual": resp},
                        "[%s] message %s target path %s numInGroup=%s: %s" % (cfg, L.name, list(path), nval, what))

    pc.claim_build_failures(["fill_group_header", "fill_message_header"], "filler-call-does-not-compile")
    pc.run_hypothesis(body, 5000 if t == "quick" else 60000)
    return pc.finish()


def replay(path):
    case = json.load(open(path))["case"]
    if case.get("build_failure"):
        entry = poolcheck.replay_entry(case, [])
        if entry is None:
            print("replay: STILL FAILS (driver does not build)")
            return 1
        shutil.rmtree(entry.dir, ignore_errors=True)
        print("replay: holds now")
        return 0
    return c01.replay(path)
