"""Shared body of C02 (decode == reference encoder input) and C03 (same with
inflated wire block lengths, via random access, cursor and visit)."""
import json
import shutil

from hypothesis import strategies as st

from vlib import common, poolcheck, values


def expected_dumps(M, L, vals, size):
    ra = M.dump_message(L, vals, with_consts=True, null_flags=True)
    tag = M.dump_message(L, vals, with_consts=True, tag_extras=True)
    cur = M.dump_message(L, vals, with_consts=False, comp_consts=True)
    vis = M.dump_message(L, vals, with_consts=False, comp_consts=False, vis_extras=True)
    tail = "cursor_end=%d" % size
    return {"ra": ra, "tag": tag, "cur": (cur + " " + tail + " cursor_size=%d" % size).strip(), "vis": (vis + " " + tail).strip()}


def first_diff(a, b):
    ta, tb = a.split(" "), b.split(" ")
    for i, (x, y) in enumerate(zip(ta, tb)):
        if x != y:
            return "token %d: expected `%s` got `%s` (context: %s)" % (i, " ".join(ta[max(0, i - 3):i + 2]), " ".join(tb[max(0, i - 3):i + 2]), " ".join(ta[max(0, i - 8):i]))
    return "length differs: expected %d tokens, got %d; tail expected `%s` got `%s`" % (len(ta), len(tb), " ".join(ta[len(tb):][:6]), " ".join(tb[len(ta):][:6]))


def cursor_end_checkable(L):
    """'cursor at end after a full traversal' is asserted only when some accessor can move the cursor to the
    block end (DESIGN A.4): the level has a non-constant field, a group or data."""
    return any(not m.is_const for m in L.fields) or L.groups or L.data


def strip_cursor_end(s):
    return " ".join(t for t in s.split(" ") if not t.startswith("cursor_end=") and not t.startswith("cursor_size="))


def check_dump(pc, entry, mi, L, vals, img, size, modes, inflated):
    M = entry.model
    exp = expected_dumps(M, L, vals, size)
    hx = img.hex() or "-"
    for cfg in entry.value_configs():
        for mode in modes:
            resp = pc.call(entry, cfg, "dump %d %s %s" % (mi, mode, hx))
            pc.res.count()
            e = exp[mode]
            ok = resp == "OK " + e or (resp == "OK" and e == "")
            if not ok and mode in ("cur", "vis") and not cursor_end_checkable(L) and resp.startswith("OK"):
                ok = strip_cursor_end(resp[3:]) == strip_cursor_end(e)
            if not ok:
                if resp.startswith("OK"):
                    what = first_diff(e, resp[3:])
                    sig = "decode-mismatch:%s" % mode
                else:
                    what = resp[:300]
                    sig = "decode-%s:%s" % (resp.split(" ")[0].lower(), mode)
                if inflated:
                    sig += ":inflated"
                pc.fail(sig, entry, {"cmd": "dump", "config": cfg, "message": mi, "mode": mode, "values": values.tree_hash_key(vals),
                                     "image_hex": hx, "expected": e, "actual": resp},
                        "[%s %s] message %s: %s" % (cfg, mode, L.name, what))


def has_multibyte(L):
    for m in L.fields:
        if m.kind in ("scalar", "enum", "set") and m.size > 1:
            return True
        if m.kind == "composite":
            stack = [m]
            while stack:
                c = stack.pop()
                for e in c.elements:
                    if e.kind in ("scalar", "enum", "set") and e.size > 1:
                        return True
                    if e.kind == "composite":
                        stack.append(e)
    return any(has_multibyte(g) for g in L.groups) or bool(L.data)


def run(prop, t, budget, inflate, extra_part=None):
    pc = poolcheck.PoolCheck(prop, t, budget)
    res = pc.res
    modes = ["ra", "cur", "vis"] if inflate else ["ra", "cur", "vis"]
    if inflate:
        res.rule = ("pool schema x message x value tree x independent per-group-instance blockLength inflation (root +e0, every group "
                    "instance +ei, filler = background byte), reference-encoded; the random-access, cursor and visit dumps must equal the "
                    "value tree and the cursor must end at the wire size, in every config of the pool entry; non-trivial = at least "
                    "one inflated level that is followed by another member (distinct by image hash)")
    else:
        res.rule = ("pool schema x message x value tree (boundary-biased raw bit patterns incl. NaN payloads, optional nulls, data with "
                    "NULs) reference-encoded by the Python model; every named getter's value (random access, cursor traversal, "
                    "visit) must equal the tree bit-exactly in every config (compiler x standard) of the pool entry; non-trivial = "
                    "image has a multi-byte field or data and, for schemas with groups, >= 1 entry (distinct by image hash)")
    res.assumptions = ["reference model (vlib/model.py) is the trusted SBE encoder", "g++ 12 / clang 14 with libstdc++ 12 only",
                       "images <= a few KiB, <= 3 entries per group instance"]
    if not pc.entries:
        res.extra["note"] = "pool has no schema with messages"
        return pc.finish()

    def body(data):
        entry, mi, L = pc.draw_target(data)
        M = entry.model
        vals = data.draw(values.level_values(L, max_entries=3, inflate=inflate, model=M), label="values")
        bg = data.draw(st.sampled_from([0x00, 0xFF, 0xCD, 0x5A]), label="background")
        img, size = M.encode_message(L, vals, background=bg)
        nontrivial = False
        if inflate:
            nontrivial = values.has_inflation(vals) and (L.groups or L.data or values.count_entries(vals) > 0)
        else:
            nontrivial = has_multibyte(L) and (values.count_entries(vals) > 0 or not any(True for _ in L.groups))
        if nontrivial:
            res.nontriv(common.text_hash(entry.dir, img))
        res.cls("images")
        if values.count_entries(vals) > 0:
            res.cls("images_with_entries")
        if inflate and values.has_inflation(vals):
            res.cls("images_inflated")
        if len(res.samples) < 6 and nontrivial and (len(res.samples) < 2 or res.evaluations % 97 < 9):
            res.sample({"schema": entry.dir.split("/")[-1], "message": L.name, "values": values.tree_hash_key(vals), "image_hex": img.hex()[:200]})
        if size > 20000:
            res.cls("images_with_block_length_near_or_above_2^16")
        check_dump(pc, entry, mi, L, vals, img, size, modes, inflate)
        if inflate:
            # size_bytes reports the wire size (message, groups, entries, data) for extended images too
            from vlib.checks import c05
            exp = c05.expected_sizes(M, L, vals, size)
            if not cursor_end_checkable(L):
                exp = [x for x in exp if not x.startswith("cursor_size=")]
            for cfg in entry.value_configs():
                resp = pc.call(entry, cfg, "sizes %d %s" % (mi, img.hex()))
                res.count()
                got = resp[3:].split() if resp.startswith("OK ") else None
                if got is not None and not cursor_end_checkable(L):
                    got = [x for x in got if not x.startswith("cursor_size=")]
                if got != exp:
                    bad = resp[:200]
                    if got is not None:
                        bad = next(("expected %s got %s" % (a, b) for a, b in zip(exp, got) if a != b), "expected %d values got %d" % (len(exp), len(got)))
                    pc.fail("size-mismatch:inflated" if got is not None else "size-%s:inflated" % resp.split(" ")[0].lower(), entry,
                            {"cmd": "sizes", "config": cfg, "message": mi, "mode": "sizes", "values": values.tree_hash_key(vals), "image_hex": img.hex(),
                             "expected": " ".join(exp), "actual": resp[:2000]},
                            "[%s sizes] message %s: %s" % (cfg, L.name, bad))

    pc.run_hypothesis(body, 3200 if t == "quick" else 40000)
    if extra_part is not None:
        extra_part(res, t)
    return pc.finish()


def replay(path):
    rec = json.load(open(path))
    case = rec["case"]
    entry = poolcheck.replay_entry(case, [case["config"]])
    if entry is None:
        return 1
    try:
        d = poolcheck.poolmod.Driver(entry.driver(case["config"]))
        if case.get("mode") == "sizes":
            resp = d.call("sizes %d %s" % (case["message"], case["image_hex"]))
            d.close()
            print("expected:", case["expected"][:800])
            print("actual:  ", resp[:800])
            ok = resp == "OK " + case["expected"]
            print("replay:", "holds now" if ok else "STILL FAILS")
            return 0 if ok else 1
        resp = d.call("dump %d %s %s" % (case["message"], case["mode"], case["image_hex"]))
        d.close()
        print("expected:", case["expected"][:1500])
        print("actual:  ", resp[:1500])
        ok = resp == "OK " + case["expected"] or (resp == "OK" and case["expected"] == "")
        print("replay:", "holds now" if ok else "STILL FAILS")
        return 0 if ok else 1
    finally:
        shutil.rmtree(entry.dir, ignore_errors=True)
