"""C06 — size_bytes_checked is safe and exact on untrusted buffers.

Buffers derived from reference images (every truncation point; overwrites of
every blockLength / numInGroup / length field; random bytes), for message views
and group views, end exactly at a PROT_NONE page.  Oracle: an independent
structure walker over the same bytes gives (fits, size); the library must
return valid == fits (and the exact size when valid), must not fault on the
guard page, must not trip an assertion (checked build bound to exactly n
bytes), and must stay within a function-entry budget linear in n (effort
counter build, -finstrument-functions).
"""
import json
import os
import shutil

from hypothesis import strategies as st

from vlib import common, poolcheck, values
from vlib import pool as poolmod

BUDGET_A = 4000
BUDGET_B = 400000


def count_driver(entry):
    """effort-counter build of the entry's driver (g++ -O0 -finstrument-functions), built on demand"""
    exe = os.path.join(entry.dir, "driver-count")
    with common.flock(exe + ".lock"):
        if not os.path.exists(exe):
            cfg = ("g++", "17")
            cmd = poolmod.compile_cmd(cfg, os.path.join(entry.dir, "out"), os.path.join(entry.dir, "driver.cpp"), exe + ".tmp",
                                      extra=["-finstrument-functions", "-DRT_COUNT_CALLS",
                                             "-finstrument-functions-exclude-file-list=driver_rt.hpp,/usr/include,/usr/lib"])
            r = common.run(cmd)
            if r.returncode != 0:
                raise common.BuildError("count driver: " + r.stdout.decode(errors="replace")[-2000:])
            os.rename(exe + ".tmp", exe)
    return exe


def preorder_index(L, path):
    """1-based pre-order index of the group with the given path inside message level L"""
    idx = [0]
    found = [None]

    def walk(x):
        for g in x.groups:
            idx[0] += 1
            if g.path == path:
                found[0] = idx[0]
            walk(g)
    walk(L)
    return found[0]


def find_group(L, path):
    for g in L.groups:
        if g.path == path:
            return g
        r = find_group(g, path)
        if r is not None:
            return r
    return None


def run(t, budget=1.0):
    pc = poolcheck.PoolCheck("C06", t, budget)
    res = pc.res
    res.rule = ("pool image (with/without inflated block lengths) x view (message or any group instance) x {every truncation length "
                "(all when <= 400 bytes, else structure boundaries +-2 and a sample), overwrite of one blockLength/numInGroup/length "
                "field with 0, 1, orig+-1, type max, 2^k, random (evaluated at full length and truncated), random bytes}; the view is "
                "bound to exactly n bytes ending at a PROT_NONE page; valid/size must equal the independent structure walker, no "
                "fault, no assertion, function-entry count <= %d*n+%d; non-trivial = truncation strictly inside the structure or a "
                "corrupted field; distinct by buffer hash" % (BUDGET_A, BUDGET_B))
    res.assumptions = ["the structure a buffer describes is defined by wire header values only (reference walker in vlib/model.py)",
                       "function entries of an -O0 build are the proxy for work",
                       "signed or non-integer dimension members are outside the property (generator uses unsigned ones)"]
    if not pc.entries:
        return pc.finish()
    drivers = {}

    def cdrv(entry):
        if entry.dir not in drivers:
            drivers[entry.dir] = poolmod.Driver(count_driver(entry))
        return drivers[entry.dir]

    maxratio = [0.0]

    def evaluate(entry, mi, L, which, gl, buf, kind, vals_key):
        M = entry.model
        if which == 0:
            fits, size, _ = M.walk_message(L, buf)
        else:
            fits, size, _ = M.walk_group_view(gl, buf)
        n = len(buf)
        where = M.walk_fail or "fits"
        hx = buf.hex() or "-"
        exp = "valid=%d size=%d" % (1 if fits else 0, size if fits else 0)
        outs = []
        # effort-counter build first: an input that exceeds the work budget would never return in the plain build
        cfg = entry.status["configs"][0]
        cresp = cdrv(entry).call("checked %d %d %s %d" % (mi, which, hx, BUDGET_A * n + BUDGET_B))
        outs.append(("count", cresp))
        if not cresp.startswith("BUDGET"):
            # checked build (assertions -> handler) in the entry's first config
            outs.append((cfg, pc.call(entry, cfg, "checked %d %d %s" % (mi, which, hx))))
            # unchecked release-like build: nothing masks an over-read, the guard page reports it
            for nc in entry.status.get("nc_configs", [])[:1]:
                outs.append((nc, pc.call(entry, nc, "checked %d %d %s" % (mi, which, hx))))
        for cname, resp in outs:
            res.count()
            head = resp.split(" ")[0]
            sig = None
            if head == "OK":
                got = " ".join(x for x in resp[3:].split() if not x.startswith("calls="))
                if got != exp:
                    sig = "checked-wrong-result:%s" % ("accepts-unfit" if (not fits and "valid=1" in got) else "rejects-fit" if fits and "valid=0" in got else "wrong-size")
                if cname == "count" and n:
                    for x in resp.split():
                        if x.startswith("calls="):
                            maxratio[0] = max(maxratio[0], int(x[6:]) / (n + 100.0))
            elif head == "ASSERT":
                sig = "checked-assert:wire-blockLength-below-compiled-block" if M.walk_short_block else "checked-assert:structure-ends-at-%s" % where
            elif head == "SEGV":
                sig = "checked-overread:wire-blockLength-below-compiled-block" if M.walk_short_block else "checked-overread:structure-ends-at-%s" % where
            elif head == "BUDGET":
                sig = "checked-unbounded-work:%s" % ("zero-length-flat-entries" if M.walk_zero_flat else where)
            else:
                sig = "checked-%s" % head.lower()
            if sig:
                pc.fail(sig, entry, {"cmd": "checked %d %d %s" % (mi, which, hx), "config": cname if cname != "count" else cfg, "count_build": cname == "count",
                                     "expected": exp, "actual": resp, "kind": kind, "values": vals_key},
                        "[%s] %s view of message %s, n=%d (%s): expected %s, got %s" % (cname, "message" if which == 0 else "group", L.name, n, kind, exp, resp[:160]))

    def body(data):
        entry, mi, L = pc.draw_target(data)
        M = entry.model
        vals = data.draw(values.level_values(L, max_entries=3, inflate=data.draw(st.booleans()), model=M))
        img, size = M.encode_message(L, vals, background=data.draw(st.sampled_from([0, 0xFF, 0x11])))
        fits, sz, ctrl = M.walk_message(L, img)
        assert fits and sz == len(img), "reference walker disagrees with reference encoder"
        vk = values.tree_hash_key(vals)
        groups = [c for c in ctrl if c[0] == "group"]
        which, gl, base = 0, None, 0
        if groups and data.draw(st.integers(0, 2)) == 0:
            gsel = data.draw(st.sampled_from(groups))
            base = gsel[1]
            gl = find_group(L, gsel[3])
            which = preorder_index(L, gsel[3])
        sub = img[base:]
        if which:
            # a group view's structure ends where the group ends; the rest of the message is trailing bytes
            f2, s2, subctrl = M.walk_group_view(gl, sub)
        else:
            f2, s2, subctrl = fits, sz, ctrl
        # (blockLength, numInGroup) control pairs of flat groups: candidates for products that wrap in a narrow intermediate type
        pairs = []
        for i, c in enumerate(subctrl):
            if c[0] == "group" and i + 2 < len(subctrl) and subctrl[i + 1][0] == "blockLength" and subctrl[i + 2][0] == "numInGroup":
                gg = find_group(L, c[3])
                if gg is not None and not gg.groups and not gg.data:
                    pairs.append((subctrl[i + 1], subctrl[i + 2]))
        subctrl = [c for c in subctrl if c[0] != "group"]
        mode = data.draw(st.sampled_from(["trunc", "trunc", "overwrite", "overwrite", "random"] + (["wrap", "wrap"] if pairs else [])))
        res.cls("mode_" + mode)
        res.cls("view_message" if which == 0 else "view_group")
        if mode == "trunc":
            full = len(sub) if which == 0 else s2
            if full <= 400:
                ns = list(range(0, full + 1))
            else:
                marks = sorted({0, full} | {max(0, min(full, c[1] + d)) for c in subctrl for d in (-2, -1, 0, 1, 2, c[2])})
                ns = sorted(set(marks + data.draw(st.lists(st.integers(0, full), min_size=20, max_size=20))))
            for n in ns:
                b = sub[:n]
                if 0 < n < full:
                    res.nontriv(common.text_hash(entry.dir, str(which), b))
                evaluate(entry, mi, L, which, gl, b, "truncated", vk)
        elif mode == "overwrite" and subctrl:
            c = data.draw(st.sampled_from(subctrl))
            _, pos, width, _nm = c
            orig = M.unpack(sub[pos:pos + width])
            top = 2 ** (8 * width) - 1
            cand = sorted({0, 1, max(0, orig - 1), min(top, orig + 1), top, top - 1, 1 << (4 * width), len(sub), max(0, len(sub) - pos)} )
            v = data.draw(st.one_of(st.sampled_from(cand), st.integers(0, top)))
            b = bytearray(sub)
            b[pos:pos + width] = M.pack(v, width)
            b = bytes(b)
            kind = "corrupt-" + c[0]
            res.cls(kind)
            cuts = [len(b)] + data.draw(st.lists(st.integers(0, len(b)), min_size=0, max_size=3))
            for n in cuts:
                res.nontriv(common.text_hash(entry.dir, str(which), b[:n], "o"))
                evaluate(entry, mi, L, which, gl, b[:n], kind, vk)
        elif mode == "wrap":
            # both header fields of one flat group overwritten so that numInGroup * blockLength is a multiple of (or just above)
            # 2^32 / 2^64: the group claims gigabytes, a product computed in a narrower type claims (almost) nothing
            blc, nic = data.draw(st.sampled_from(pairs))
            blw, niw = blc[2], nic[2]
            W = data.draw(st.sampled_from([32, 32, 64]))
            a_lo = max(0, W - 8 * niw + 1)
            a_hi = min(8 * blw - 1, W)   # numInGroup = 2^(W-a) needs a <= W
            if a_lo > a_hi:
                res.cls("wrap_not_expressible")
                return
            a = data.draw(st.integers(a_lo, a_hi))
            odd = data.draw(st.sampled_from([1, 1, 3, 5]))
            blv = (odd << a) if (odd << a) < 2 ** (8 * blw) else (1 << a)
            niv = 1 << (W - a)
            if data.draw(st.booleans()) and niv + 1 < 2 ** (8 * niw):
                niv += data.draw(st.sampled_from([0, 1]))
            if niv >= 2 ** (8 * niw) or blv >= 2 ** (8 * blw):
                res.cls("wrap_not_expressible")
                return
            b = bytearray(sub)
            b[blc[1]:blc[1] + blw] = M.pack(blv, blw)
            b[nic[1]:nic[1] + niw] = M.pack(niv, niw)
            b = bytes(b)
            kind = "wrap-product-2^%d" % W
            res.cls(kind)
            for n in [len(b)] + data.draw(st.lists(st.integers(0, len(b)), min_size=0, max_size=2)):
                res.nontriv(common.text_hash(entry.dir, str(which), b[:n], "w"))
                evaluate(entry, mi, L, which, gl, b[:n], kind, vk)
        else:
            n = data.draw(st.integers(0, 48))
            b = data.draw(st.binary(min_size=n, max_size=n))
            res.nontriv(common.text_hash(entry.dir, str(which), b, "r"))
            evaluate(entry, mi, L, which, gl, b, "random-bytes", vk)
        if len(res.samples) < 5 and (len(res.samples) < 2 or res.evaluations % 977 < 40):
            res.sample({"schema": entry.dir.split("/")[-1], "message": L.name, "view": "message" if which == 0 else "group %s" % (gl.path,),
                        "mode": mode, "image_len": len(sub)})

    try:
        pc.run_hypothesis(body, 250 if t == "quick" else 6000)
        res.extra["max_calls_per_byte_observed"] = round(maxratio[0], 1)
        res.extra["budget"] = "%d*n+%d function entries" % (BUDGET_A, BUDGET_B)
    finally:
        for d in drivers.values():
            d.close()
    return pc.finish()


def replay(path):
    case = json.load(open(path))["case"]
    entry = poolcheck.replay_entry(case, [case["config"]])
    if entry is None:
        return 1
    try:
        if case.get("count_build"):
            d = poolmod.Driver(count_driver(entry))
            n = len(case["cmd"].split()[-1]) // 2
            resp = d.call(case["cmd"] + " %d" % (BUDGET_A * n + BUDGET_B))
        else:
            d = poolmod.Driver(entry.driver(case["config"]))
            resp = d.call(case["cmd"])
        d.close()
        got = " ".join(x for x in resp[3:].split() if not x.startswith("calls=")) if resp.startswith("OK ") else resp
        print("expected:", case["expected"])
        print("actual:  ", resp[:300])
        ok = got == case["expected"]
        print("replay:", "holds now" if ok else "STILL FAILS")
        return 0 if ok else 1
    finally:
        shutil.rmtree(entry.dir, ignore_errors=True)
