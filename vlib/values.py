"""Hypothesis strategies for value trees of a message (see model.py for the
representation) — boundary-biased raw bit patterns."""
import copy
import struct

from hypothesis import strategies as st

from vlib.schemagen import PRIMS


def _f32(x):
    return struct.unpack("<I", struct.pack("<f", x))[0]


def _f64(x):
    return struct.unpack("<Q", struct.pack("<d", x))[0]


F32_SPECIAL = [0, 0x80000000, _f32(1.0), _f32(-1.5), 0x7F800000, 0xFF800000, 0x7FC00000, 0x7FC00001, 0x7FA00000, 0xFFC12345,
               0x00000001, 0x007FFFFF, 0x00800000, 0x7F7FFFFF, 0x3DCCCCCD]
F64_SPECIAL = [0, 0x8000000000000000, _f64(1.0), _f64(-2.5), 0x7FF0000000000000, 0xFFF0000000000000, 0x7FF8000000000000,
               0x7FF8000000000001, 0x7FF4000000000000, 0xFFF8DEADBEEF0001, 1, 0x000FFFFFFFFFFFFF, 0x0010000000000000,
               0x7FEFFFFFFFFFFFFF]


def scalar_bits(prim):
    size, kind = PRIMS[prim]
    w = 8 * size
    full = 2 ** w - 1
    if kind == "f":
        sp = F32_SPECIAL if size == 4 else F64_SPECIAL
        return st.one_of(st.sampled_from(sp), st.integers(0, full))
    special = sorted({0, 1, 2, full, full - 1, 2 ** (w - 1), 2 ** (w - 1) - 1, 2 ** (w - 1) + 1, 0x20, 0x7E, 0x7F, 0x80 & full, 0xA5 & full,
                      int("0102030405060708"[:2 * size], 16)})
    return st.one_of(st.sampled_from(special), st.integers(0, full))


def member_value(m):
    if m.kind == "set" and m.target["choices"]:
        bits = [1 << c["index"] for c in m.target["choices"]]
        subset = st.lists(st.sampled_from(bits), max_size=len(bits)).map(lambda xs: sum(set(xs)))
        return st.one_of(subset, subset.map(lambda v: v ^ (2 ** (8 * m.size) - 1)), scalar_bits(m.prim))
    if m.kind in ("scalar", "enum", "set"):
        if m.kind == "enum" and m.target["values"]:
            known = []
            for v in m.target["values"]:
                num = ord(v["value"]) if m.prim == "char" else int(v["value"])
                known.append(num & (2 ** (8 * m.size) - 1))
            return st.one_of(st.sampled_from(known), scalar_bits(m.prim))
        return scalar_bits(m.prim)
    if m.kind == "set" and False:
        pass
    if m.kind == "array":
        n = m.size
        return st.one_of(st.binary(min_size=n, max_size=n),
                         st.builds(lambda s: (s + b"\0" * n)[:n], st.binary(min_size=0, max_size=n)),
                         st.sampled_from([b"\0" * n, b"\xff" * n, (b"abcdefghij" * 8)[:n]]))
    if m.kind == "composite":
        return st.fixed_dictionaries({e.name: member_value(e) for e in m.elements if not e.is_const})
    raise ValueError(m.kind)


def data_payload(max_len=24):
    return st.one_of(st.binary(min_size=0, max_size=max_len), st.sampled_from([b"", b"\0", b"hello", b"\xff\x00\x80"]))


def big_extras(L, bl_member):
    """inflation amounts that put the wire blockLength near 2^16 / the type maximum (where the type allows)"""
    top = 2 ** (8 * bl_member.size) - 1
    out = []
    for target in (255, 256, 257, 300, 65528, 65531, 65535, 65536, 65537, 70000):
        e = target - L.block_length
        if e > 0 and target <= top:
            out.append(e)
    return out


def group_values(g, max_entries, inflate, depth, model=None):
    flat = not g.groups and not g.data
    big = []
    if inflate and model is not None and (flat or depth == 0):
        big = big_extras(g, model.member(g.dimension, "blockLength"))
    if big:
        # a flat group with huge entries: at most 2 entries
        def build(extra):
            cap = (2 if flat else 1) if extra > 1000 else (max_entries if depth < 2 else min(2, max_entries))
            return st.integers(0, cap).flatmap(lambda k: st.fixed_dictionaries({
                "entries": st.lists(level_values(g, max_entries, inflate, depth + 1, model), min_size=k, max_size=k), "extra": st.just(extra)}))
        return st.sampled_from([0, 0, 1, 2, 5, 8] * 3 + big).flatmap(build)
    n = st.integers(0, max_entries if depth < 2 else min(2, max_entries))
    d = {"entries": n.flatmap(lambda k: st.lists(level_values(g, max_entries, inflate, depth + 1, model), min_size=k, max_size=k))}
    if inflate:
        d["extra"] = st.sampled_from([0, 0, 1, 2, 5, 8])
    base = st.fixed_dictionaries(d)
    if model is not None and flat and g.block_length <= 24 and max_entries >= 3:
        # now and then a flat group with many (identical) entries: counts in the upper half of a narrow numInGroup type
        top = 2 ** (8 * model.member(g.dimension, "numInGroup").size) - 1
        counts = [c for c in (127, 128, 129, 200, 255, 256, 300) if c <= top]
        many = st.fixed_dictionaries({"one": level_values(g, max_entries, False, depth + 1, model), "n": st.sampled_from(counts),
                                      "extra": st.sampled_from([0, 0, 1]) if inflate else st.just(0)}).map(
            lambda x: {"entries": [copy.deepcopy(x["one"]) for _ in range(x["n"])], "extra": x["extra"]})
        return st.one_of(*([base] * 15 + [many]))
    return base


def level_values(L, max_entries=3, inflate=False, depth=0, model=None):
    d = {
        "fields": st.fixed_dictionaries({m.name: member_value(m) for m in L.fields if not m.is_const}),
        "groups": st.fixed_dictionaries({g.name: group_values(g, max_entries, inflate, depth, model) for g in L.groups}),
        "data": st.fixed_dictionaries({x.name: data_payload() for x in L.data}),
    }
    if inflate and depth == 0:
        big = big_extras(L, model.member(model.header, "blockLength")) if model is not None else []
        d["extra"] = st.sampled_from([0, 1, 3, 8] * 4 + big)
    return st.fixed_dictionaries(d)


def tree_hash_key(vals):
    """stable, JSON-like rendering (bytes as hex) used for hashing and replay files"""
    if isinstance(vals, dict):
        return {k: tree_hash_key(v) for k, v in vals.items()}
    if isinstance(vals, (list, tuple)):
        return [tree_hash_key(v) for v in vals]
    if isinstance(vals, (bytes, bytearray)):
        return "hex:" + bytes(vals).hex()
    return vals


def tree_from_key(k):
    if isinstance(k, dict):
        return {a: tree_from_key(b) for a, b in k.items()}
    if isinstance(k, list):
        return [tree_from_key(v) for v in k]
    if isinstance(k, str) and k.startswith("hex:"):
        return bytes.fromhex(k[4:])
    return k


def count_entries(vals):
    n = 0
    for g in vals.get("groups", {}).values():
        n += len(g["entries"])
        for e in g["entries"]:
            n += count_entries(e)
    return n


def has_inflation(vals, root=True):
    if root and vals.get("extra", 0) > 0:
        return True
    for g in vals.get("groups", {}).values():
        if g.get("extra", 0) > 0 and g["entries"]:
            return True
        for e in g["entries"]:
            if has_inflation(e, False):
                return True
    return False
