"""Shared infrastructure: tree key, builds, evidence, violations, known findings.

Everything a check runs is built from /repo's *current working tree* into
/verif/build/<treekey>/ (git-ignored).  Nothing lives under /tmp.
"""
import contextlib
import fcntl
import hashlib
import json
import os
import re
import shutil
import subprocess
import sys
import time

VERIF = os.path.dirname(os.path.dirname(os.path.abspath(__file__)))
REPO = os.environ.get("VERIF_REPO", "/repo")
BUILD_ROOT = os.path.join(VERIF, "build")
EVIDENCE_DIR = os.path.join(VERIF, "evidence")
REPLAY_DIR = os.path.join(VERIF, "replays")
FMT_INC = "/root/miniconda/include"
NCPU = os.cpu_count() or 4

GXX = "g++"
CLANGXX = "clang++"


def seed():
    try:
        s = int(os.environ.get("VERIF_SEED", "1"))
    except ValueError:
        s = 1
    if s == 0:
        s = 1
    return s & 0x7FFFFFFF or 1


def tier(argv_tier=None):
    t = argv_tier or os.environ.get("VERIF_TIER") or "quick"
    return "thorough" if t.startswith("t") else "quick"


# --------------------------------------------------------------------------
# tree key

def _iter_files(root):
    for d, dirs, files in os.walk(root):
        dirs.sort()
        for f in sorted(files):
            yield os.path.join(d, f)


_TREE_KEY = None


def tree_key():
    """SHA-256 over the sources every build product depends on."""
    global _TREE_KEY
    if _TREE_KEY:
        return _TREE_KEY
    h = hashlib.sha256()
    roots = [os.path.join(REPO, "sbepp", "src"), os.path.join(REPO, "sbeppc", "src")]
    for r in roots:
        for p in _iter_files(r):
            h.update(os.path.relpath(p, REPO).encode())
            h.update(b"\0")
            with open(p, "rb") as f:
                h.update(f.read())
            h.update(b"\0")
    with open(os.path.join(REPO, "CMakeLists.txt"), "rb") as f:
        h.update(f.read())
    _TREE_KEY = h.hexdigest()[:16]
    return _TREE_KEY


def build_dir(*parts):
    d = os.path.join(BUILD_ROOT, tree_key(), *parts)
    os.makedirs(d, exist_ok=True)
    return d


def shared_dir(*parts):
    """Build products that do not depend on /repo (fault injector etc.)."""
    d = os.path.join(BUILD_ROOT, "_shared", *parts)
    os.makedirs(d, exist_ok=True)
    return d


def prune_builds(keep=4, min_age_s=6 * 3600):
    """Bound disk use: drop build dirs of other tree keys that have not been used
    for `min_age_s` (several checks / scratch trees may be in flight), keeping the
    `keep` most recently used ones in any case."""
    try:
        ents = [e for e in os.listdir(BUILD_ROOT) if not e.startswith("_")]
    except FileNotFoundError:
        return
    cur = tree_key()
    os.makedirs(os.path.join(BUILD_ROOT, cur), exist_ok=True)
    stamp = os.path.join(BUILD_ROOT, cur, ".stamp")
    with open(stamp, "w") as f:
        f.write(str(time.time()))
    full = []
    for e in ents:
        if e == cur:
            continue
        sp = os.path.join(BUILD_ROOT, e, ".stamp")
        try:
            m = os.path.getmtime(sp)
        except OSError:
            m = os.path.getmtime(os.path.join(BUILD_ROOT, e))
        full.append((m, e))
    full.sort(reverse=True)
    now = time.time()
    for m, e in full[keep - 1:]:
        if now - m > min_age_s:
            shutil.rmtree(os.path.join(BUILD_ROOT, e), ignore_errors=True)


@contextlib.contextmanager
def flock(path):
    os.makedirs(os.path.dirname(path), exist_ok=True)
    with open(path, "w") as f:
        fcntl.flock(f, fcntl.LOCK_EX)
        try:
            yield
        finally:
            fcntl.flock(f, fcntl.LOCK_UN)


def file_hash(*paths):
    h = hashlib.sha256()
    for p in paths:
        with open(p, "rb") as f:
            h.update(f.read())
    return h.hexdigest()[:12]


def text_hash(*texts):
    h = hashlib.sha256()
    for t in texts:
        h.update(t.encode() if isinstance(t, str) else t)
        h.update(b"\0")
    return h.hexdigest()[:12]


def run(cmd, **kw):
    kw.setdefault("stdout", subprocess.PIPE)
    kw.setdefault("stderr", subprocess.STDOUT)
    return subprocess.run(cmd, **kw)


class BuildError(Exception):
    pass


def touch(path):
    try:
        os.utime(path, None)
    except OSError:
        pass


# --------------------------------------------------------------------------
# sbeppc builds

def sbepp_version():
    txt = open(os.path.join(REPO, "CMakeLists.txt")).read()
    m = re.search(r"project\(\s*sbepp\s+VERSION\s+([0-9.]+)", txt)
    return m.group(1) if m else "0.0.0"


def _build_info(dst_dir):
    src = open(os.path.join(REPO, "sbeppc/src/sbepp/sbeppc/build_info.cpp.in")).read()
    p = os.path.join(dst_dir, "build_info.cpp")
    with open(p, "w") as f:
        f.write(src.replace("@sbepp_VERSION@", sbepp_version()))
    return p


SBEPPC_INC = ["-I", os.path.join(REPO, "sbeppc/src"), "-I", os.path.join(REPO, "sbepp/src"),
              "-isystem", FMT_INC, "-DFMT_HEADER_ONLY"]
HARDEN_FLAGS = ["-std=gnu++17", "-g", "-O1", "-fsanitize=address,undefined",
                "-fno-sanitize-recover=undefined", "-D_GLIBCXX_ASSERTIONS"]


def build_sbeppc(kind="plain"):
    """kind: plain (g++ -O1, used for exit status / generated output),
    hardened (clang ASan+UBSan+asserts)."""
    d = build_dir("sbeppc")
    out = os.path.join(d, "sbeppc-" + kind)
    with flock(os.path.join(d, kind + ".lock")):
        if os.path.exists(out):
            return out
        bi = _build_info(d)
        main = os.path.join(REPO, "sbeppc/src/sbepp/sbeppc/main.cpp")
        if kind == "plain":
            cmd = [GXX, "-std=gnu++17", "-O1", "-g0"] + SBEPPC_INC + [main, bi, "-o", out + ".tmp", "-lpugixml"]
        elif kind == "hardened":
            cmd = [CLANGXX] + HARDEN_FLAGS + SBEPPC_INC + [main, bi, "-o", out + ".tmp", "-lpugixml"]
        else:
            raise ValueError(kind)
        r = run(cmd)
        if r.returncode != 0:
            raise BuildError("building sbeppc (%s) failed:\n%s" % (kind, r.stdout.decode(errors="replace")[-4000:]))
        os.rename(out + ".tmp", out)
    return out


ANSI = re.compile(r"\x1b\[[0-9;]*m")


def strip_ansi(s):
    return ANSI.sub("", s)


def run_sbeppc(binary, schema_path, out_dir, extra=(), timeout=600, env=None, cwd=None):
    cmd = [binary] + list(extra) + ["--output-dir", out_dir, schema_path]
    r = subprocess.run(cmd, stdout=subprocess.PIPE, stderr=subprocess.STDOUT, timeout=timeout, env=env, cwd=cwd)
    return r.returncode, strip_ansi(r.stdout.decode(errors="replace"))


# --------------------------------------------------------------------------
# known findings

def load_findings():
    p = os.path.join(VERIF, "known_findings.json")
    try:
        with open(p) as f:
            return json.load(f)
    except FileNotFoundError:
        return {"known": [], "fixed": []}


class Findings:
    """Known findings are matched by (property, signature).  A signature is a
    short stable string the check derives from the failing case (call site /
    input class), never free text."""

    def __init__(self, prop):
        self.prop = prop
        data = load_findings()
        self.known = {k["signature"]: k for k in data.get("known", []) if k["property"] == prop}
        self.hit = {}

    def is_known(self, signature):
        if signature in self.known:
            self.hit[signature] = self.hit.get(signature, 0) + 1
            return True
        return False

    def report(self):
        for sig, n in sorted(self.hit.items()):
            k = self.known[sig]
            print("KNOWN-FINDING: property=%s %s [signature=%s, %d case(s) this run]" % (self.prop, k["what"], sig, n))


# --------------------------------------------------------------------------
# evidence / result

class Result:
    def __init__(self, prop, tier_, level="exploration"):
        self.prop = prop
        self.tier = tier_
        self.level = level
        self.t0 = time.time()
        self.evaluations = 0
        self.nontrivial = set()
        self.rule = ""
        self.samples = []
        self.classes = {}
        self.extra = {}
        self.assumptions = []
        self.violations = []   # list of (signature, replay_path, text)
        self.findings = Findings(prop)
        self.exhaustive = None
        self.max_samples = 12

    def count(self, n=1):
        self.evaluations += n

    def nontriv(self, key):
        if not isinstance(key, (str, bytes, int, tuple)):
            key = json.dumps(key, sort_keys=True)
        self.nontrivial.add(hash(key) if not isinstance(key, int) else key)

    def cls(self, name, n=1):
        self.classes[name] = self.classes.get(name, 0) + n

    def sample(self, s):
        if len(self.samples) < self.max_samples:
            self.samples.append(s)

    def violation(self, signature, case, text):
        """Record a violation unless it matches a known finding. `case` is a
        JSON-able replay description."""
        if self.findings.is_known(signature):
            return False
        d = os.path.join(REPLAY_DIR, self.prop)
        os.makedirs(d, exist_ok=True)
        name = "%s-%s.json" % (re.sub(r"[^A-Za-z0-9_.-]+", "_", signature)[:60], text_hash(json.dumps(case, sort_keys=True, default=str)))
        p = os.path.join(d, name)
        with open(p, "w") as f:
            json.dump({"property": self.prop, "signature": signature, "what": text, "case": case},
                      f, indent=1, sort_keys=True, default=str)
        self.violations.append((signature, p, text))
        return True

    def finish(self, nontrivial_count=None):
        ev = {
            "property_id": self.prop,
            "tier": self.tier,
            "seed": seed(),
            "level": self.level,
            "coverage": {
                "evaluations": int(self.evaluations),
                "distinct_nontrivial": int(len(self.nontrivial) if nontrivial_count is None else nontrivial_count),
                "rule": self.rule,
                "samples": self.samples,
                "classes": self.classes,
                "excluded_known": dict(self.findings.hit),
            },
            "assumptions": self.assumptions,
            "wall_s": round(time.time() - self.t0, 2),
            "violations": len(self.violations),
        }
        if self.exhaustive is not None:
            ev["coverage"]["exhaustive"] = bool(self.exhaustive)
        ev["coverage"].update(self.extra)
        ev["coverage"]["tree_key"] = tree_key()
        if not ev["coverage"]["samples"]:
            ev["coverage"]["samples"] = [{"note": "no case was recorded as a sample in this run",
                                          "first_violation": self.violations[0][2][:300] if self.violations else None}]
        os.makedirs(EVIDENCE_DIR, exist_ok=True)
        p = os.path.join(EVIDENCE_DIR, self.prop + ".json")
        with open(p + ".tmp", "w") as f:
            json.dump(ev, f, indent=1, sort_keys=True, default=str)
        os.rename(p + ".tmp", p)
        self.findings.report()
        seen = set()
        for sig, path, text in self.violations:
            if sig in seen:
                continue
            seen.add(sig)
            print("VIOLATION property=%s replay=%s" % (self.prop, path))
            print("  what: %s" % text[:2000])
        print("%s %s seed=%d: evaluations=%d distinct_nontrivial=%d violations=%d wall=%.1fs" % (
            self.prop, self.tier, seed(), ev["coverage"]["evaluations"], ev["coverage"]["distinct_nontrivial"],
            len(self.violations), ev["wall_s"]))
        sys.stdout.flush()
        try:
            _validate_evidence(p)
        except Exception as ex:  # evidence problems never hide a verdict
            print("EVIDENCE-INVALID: %s" % str(ex).splitlines()[0])
        return 1 if self.violations else 0


def _validate_evidence(path):
    try:
        import jsonschema
    except ImportError:
        return
    sp = "/root/.vp/EVIDENCE.schema.json"
    lp = os.path.join(VERIF, "schemas", "EVIDENCE.schema.json")
    for s in (lp, sp):
        if os.path.exists(s):
            with open(s) as f:
                schema = json.load(f)
            with open(path) as f:
                jsonschema.validate(json.load(f), schema)
            return
