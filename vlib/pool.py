"""Level A of the two-level generation (DESIGN 3.5): a pool of generated
schemas, compiled by the tree's sbeppc, with drivers built in several
compiler/standard configs.  Building the pool *is* the C07 check and the
acceptance half of C08."""
import concurrent.futures as cf
import json
import os
import shutil
import subprocess
import time

from hypothesis import HealthCheck, given, seed as hseed, settings

from vlib import common, drivergen, model, schemagen

CONFIGS = [(c, s) for c in ("g++", "clang++") for s in ("11", "14", "17", "20", "23")]
HARNESS_DIR = os.path.join(common.VERIF, "harness")


def std_flag(comp, std):
    if comp.startswith("clang") and std == "23":
        return "-std=c++2b"
    return "-std=c++" + std


def cfg_name(cfg):
    return "%s-%s" % (cfg[0].replace("+", "x"), cfg[1])


def gen_hash():
    return common.file_hash(os.path.join(common.VERIF, "vlib", "schemagen.py"), os.path.join(common.VERIF, "vlib", "drivergen.py"),
                            os.path.join(common.VERIF, "vlib", "model.py"), os.path.join(HARNESS_DIR, "driver_rt.hpp"),
                            os.path.join(common.VERIF, "vlib", "pool.py"))


def byte_flags(cfg, nc=False):
    """byte type of the driver's views: a function of the config alone (so a replay rebuilds the same thing): `char`
    (signed) for the C++14 / C++20 drivers and for the release-like one, `unsigned char` elsewhere"""
    return ["-DRT_BYTE=char"] if (nc or cfg[1] in ("14", "20")) else []


def compile_cmd(cfg, out_dir, src, exe=None, syntax_only=False, opt="-O0", extra=()):
    cmd = [cfg[0], std_flag(*cfg), opt, "-I", os.path.join(common.REPO, "sbepp/src"), "-I", HARNESS_DIR, "-isystem", out_dir]
    cmd += list(extra)
    if syntax_only:
        cmd += ["-fsyntax-only", src]
    else:
        cmd += [src, "-o", exe]
    return cmd


def run_compile(cmd, attempts=3):
    """run a compiler; a failure is believed only if it repeats (compiler crashes / I/O hiccups under heavy load are
    environmental and must not become verdicts)"""
    r = None
    for _ in range(attempts):
        r = common.run(cmd)
        if r.returncode == 0:
            return r
    return r


def first_errors(out, n=6):
    lines = [l for l in out.splitlines() if "error" in l or "Error" in l]
    return [l[:400] for l in lines[:n]] or [out[-600:]]


def build_entry(sch, edir, configs, header_configs, sbeppc):
    """sbeppc + drivers for one schema. Returns a status dict (also written to edir/entry.json)."""
    os.makedirs(edir, exist_ok=True)
    schemagen.write_schema(sch, edir)
    xml = schemagen.to_xml(sch)
    with open(os.path.join(edir, "model.json"), "w") as f:
        json.dump(sch, f)
    st = {"ok": False, "stage": "sbeppc", "errors": [], "configs": [], "headers_checked": 0, "header_configs": []}
    out_dir = os.path.join(edir, "out")
    shutil.rmtree(out_dir, ignore_errors=True)
    rc, out = common.run_sbeppc(sbeppc, os.path.join(edir, "schema.xml"), out_dir)
    st["sbeppc_rc"] = rc
    if rc != 0:
        st["errors"] = first_errors(out, 3)
        st["signature"] = "valid-schema-rejected"
        _save(edir, st)
        return st
    M = model.Model(sch)
    src = os.path.join(edir, "driver.cpp")
    with open(src, "w") as f:
        f.write(drivergen.Gen(M, checked=True).generate())
    # every generated header on its own
    st["stage"] = "header"
    headers = [p for p in common._iter_files(out_dir) if p.endswith(".hpp")]
    for cfg in header_configs:
        for h in headers:
            tu = os.path.join(edir, "hdr_tu.cpp")
            with open(tu, "w") as f:
                f.write('#include "%s"\nint main() { return 0; }\n' % h)
            r = run_compile(compile_cmd(cfg, out_dir, tu, syntax_only=True))
            st["headers_checked"] += 1
            if r.returncode != 0:
                st["errors"] = first_errors(r.stdout.decode(errors="replace"))
                st["signature"] = "header-does-not-compile"
                st["failed_config"] = cfg_name(cfg)
                st["failed_header"] = os.path.relpath(h, out_dir)
                _save(edir, st)
                return st
        st["header_configs"].append(cfg_name(cfg))
    st["stage"] = "driver"
    for cfg in configs:
        exe = os.path.join(edir, "driver-" + cfg_name(cfg))
        r = run_compile(compile_cmd(cfg, out_dir, src, exe, extra=byte_flags(cfg)))
        if r.returncode != 0:
            st["errors"] = first_errors(r.stdout.decode(errors="replace"))
            st["signature"] = "touch-everything-tu-does-not-compile"
            st["failed_config"] = cfg_name(cfg)
            _save(edir, st)
            return st
        st["configs"].append(cfg_name(cfg))
    # an unchecked (release-like: SBEPP_DISABLE_ASSERTS, -O2 -DNDEBUG) driver in the first config: value-level checks also run
    # against the code paths that exist only when size checks are compiled out
    if configs:
        cfg = configs[0]
        src_nc = os.path.join(edir, "driver_nc.cpp")
        with open(src_nc, "w") as f:
            f.write(drivergen.Gen(M, checked=False).generate())
        exe = os.path.join(edir, "driver-" + cfg_name(cfg) + "-nc")
        r = run_compile(compile_cmd(cfg, out_dir, src_nc, exe, opt="-O2", extra=["-DNDEBUG"] + byte_flags(cfg, nc=True)))
        if r.returncode != 0:
            st["errors"] = first_errors(r.stdout.decode(errors="replace"))
            st["signature"] = "touch-everything-tu-does-not-compile"
            st["failed_config"] = cfg_name(cfg) + "-nc"
            _save(edir, st)
            return st
        st["nc_configs"] = [cfg_name(cfg) + "-nc"]
    st["ok"] = True
    st["stage"] = "done"
    st["features"] = sorted(M.features())
    st["xml_size"] = len(xml)
    _save(edir, st)
    return st


def _save(edir, st):
    with open(os.path.join(edir, "entry.json"), "w") as f:
        json.dump(st, f, indent=1)


def _worker(args):
    """one Hypothesis run producing (and building) n schemas; a failing build is shrunk by Hypothesis"""
    k, n, seed_value, pdir, tier_, gen_kw = args
    sbeppc = common.build_sbeppc("plain")
    wdir = os.path.join(pdir, "w%d" % k)
    os.makedirs(wdir, exist_ok=True)
    state = {"i": 0, "last_fail": None, "built": 0}

    def cfgs(i):
        if tier_ == "thorough":
            return CONFIGS, CONFIGS
        # quick: 3 driver configs per schema, rotating so that the union covers all 10; headers in 1 rotating config
        j = (k * 7 + i)
        return [CONFIGS[(j) % 10], CONFIGS[(j + 3) % 10], CONFIGS[(j + 6) % 10]], [CONFIGS[(j + 5) % 10]]

    def make_prop(raise_on_failure):
        @hseed(seed_value * 1000 + k)
        @settings(max_examples=n, database=None, deadline=None, suppress_health_check=list(HealthCheck))
        @given(schemagen.schemas(**gen_kw))
        def prop(sch):
            xml = schemagen.to_xml(sch)
            h = common.text_hash(xml)
            edir = os.path.join(wdir, "e_" + h)
            if os.path.exists(os.path.join(edir, "entry.json")):
                st = json.load(open(os.path.join(edir, "entry.json")))
            else:
                c, hc = cfgs(state["i"])
                state["i"] += 1
                st = build_entry(json.loads(json.dumps(sch)), edir, c, hc, sbeppc)
                state["built"] += 1
            if not st["ok"]:
                state["last_fail"] = edir
                state["nfail"] = state.get("nfail", 0) + 1
                if raise_on_failure:
                    raise AssertionError(st.get("signature"))
        return prop

    t0 = time.time()
    failed = None
    try:
        # pass 1 builds all n schemas whatever happens, so that a tree with a shallow defect still yields a full pool for the
        # value-level checks (failing schemas are simply not part of it); pass 2 (same seed, cached entries) exists only to let
        # Hypothesis shrink the first failing schema
        make_prop(False)()
        if state.get("nfail"):
            try:
                make_prop(True)()
            except AssertionError:
                failed = state["last_fail"]   # Hypothesis re-runs the minimal example last
    except Exception as ex:  # generator problems must not masquerade as violations
        return {"worker": k, "error": repr(ex), "built": state["built"]}
    return {"worker": k, "failed": failed, "built": state["built"], "failing_schemas": state.get("nfail", 0), "wall": time.time() - t0}


class Entry:
    def __init__(self, edir):
        self.dir = edir
        self.status = json.load(open(os.path.join(edir, "entry.json")))
        self.xml_path = os.path.join(edir, "schema.xml")
        self._sch = None
        self._model = None

    @property
    def sch(self):
        if self._sch is None:
            self._sch = json.load(open(os.path.join(self.dir, "model.json")))
        return self._sch

    @property
    def model(self):
        if self._model is None:
            self._model = model.Model(self.sch)
        return self._model

    @property
    def xml(self):
        return open(self.xml_path).read()

    def driver(self, cfgname):
        return os.path.join(self.dir, "driver-" + cfgname)

    def value_configs(self):
        """configs for value-level checks: the checked drivers plus the unchecked (release-like) one"""
        return list(self.status["configs"]) + list(self.status.get("nc_configs", []))


class Pool:
    def __init__(self, pdir):
        self.dir = pdir
        self.meta = json.load(open(os.path.join(pdir, "pool.json")))
        self.entries = []
        self.failures = []
        for w in sorted(os.listdir(pdir)):
            wd = os.path.join(pdir, w)
            if not (w.startswith("w") and os.path.isdir(wd)):
                continue
            for e in sorted(os.listdir(wd)):
                ed = os.path.join(wd, e)
                if os.path.exists(os.path.join(ed, "entry.json")):
                    en = Entry(ed)
                    if en.status["ok"]:
                        self.entries.append(en)
        self.entries.sort(key=lambda e: (e.status.get("xml_size", 0), e.dir))
        for f in self.meta.get("minimal_failures", []):
            if f and os.path.exists(os.path.join(f, "entry.json")):
                self.failures.append(Entry(f))


def pool_size(tier_):
    if os.environ.get("VERIF_POOL_N"):      # testing aid: a small pool to exercise a tier's code paths quickly
        return int(os.environ["VERIF_POOL_N"])
    return 48 if tier_ == "quick" else 240


def build_pool(tier_, n=None, gen_kw=None, tag="main"):
    """Build (or load the cached) pool for (tree, seed, tier). Safe to call from several checks concurrently."""
    gen_kw = gen_kw or {}
    n = n or pool_size(tier_)
    key = "%s-%s-s%d-n%d-%s-%s" % (tag, tier_, common.seed(), n, gen_hash(), common.text_hash(json.dumps(gen_kw, sort_keys=True)))
    pdir = common.build_dir("pool", key)
    marker = os.path.join(pdir, "pool.json")
    with common.flock(os.path.join(common.build_dir("pool"), key + ".lock")):
        if os.path.exists(marker):
            return Pool(pdir)
        common.build_sbeppc("plain")
        W = min(common.NCPU, n)
        per = [n // W + (1 if i < n % W else 0) for i in range(W)]
        t0 = time.time()
        with cf.ProcessPoolExecutor(max_workers=W) as ex:
            results = list(ex.map(_worker, [(k, per[k], common.seed(), pdir, tier_, gen_kw) for k in range(W)]))
        meta = {"tier": tier_, "seed": common.seed(), "n": n, "wall_s": round(time.time() - t0, 1),
                "workers": results, "minimal_failures": [r.get("failed") for r in results if r.get("failed")],
                "errors": [r["error"] for r in results if r.get("error")]}
        with open(marker + ".tmp", "w") as f:
            json.dump(meta, f, indent=1)
        os.rename(marker + ".tmp", marker)
    return Pool(pdir)


# ---------------------------------------------------------------------------
# persistent driver process

class Driver:
    def __init__(self, exe):
        self.exe = exe
        self.p = None
        self.restarts = 0

    def start(self):
        self.p = subprocess.Popen([self.exe], stdin=subprocess.PIPE, stdout=subprocess.PIPE, stderr=subprocess.DEVNULL, bufsize=0)

    def call(self, line):
        """send one case, return the response line ('DIED <rc>' if the process ended)"""
        if self.p is None or self.p.poll() is not None:
            self.start()
        try:
            self.p.stdin.write((line + "\n").encode())
            self.p.stdin.flush()
            resp = self.p.stdout.readline()
        except (BrokenPipeError, OSError):
            resp = b""
        if not resp:
            rc = self.p.wait()
            self.p = None
            self.restarts += 1
            return "DIED %d" % rc
        return resp.decode(errors="replace").rstrip("\n")

    def close(self):
        if self.p is not None and self.p.poll() is None:
            try:
                self.p.stdin.close()
                self.p.wait(timeout=5)
            except Exception:
                self.p.kill()
        self.p = None


class DriverSet:
    """lazily started drivers keyed by (entry dir, config)"""

    def __init__(self, limit=64):
        self.d = {}
        self.limit = limit

    def get(self, entry, cfgname):
        k = (entry.dir, cfgname)
        if k not in self.d:
            if len(self.d) >= self.limit:
                kk, dd = next(iter(self.d.items()))
                dd.close()
                del self.d[kk]
            self.d[k] = Driver(entry.driver(cfgname))
        return self.d[k]

    def close(self):
        for d in self.d.values():
            d.close()
        self.d = {}
