"""C02, constant-evaluation half: for a pool schema and a few reference images a
C++20 TU is generated that decodes each image inside a `constexpr` function
(every scalar / enum / set getter incl. composite members, array elements, group
geometry and entries via iteration, data sizes and bytes) into a constexpr
array; `main` prints the arrays.  Python compares them with the value tree.
If the TU does not compile the decode was not a constant expression (or the
generated code is ill-formed in C++20/23): reported with the compiler message.
"""
from vlib.drivergen import CPP_PRIM, cstr
from vlib.schemagen import PRIMS


class CxGen:
    def __init__(self, model):
        self.m = model
        self.pkg = model.sch.get("schema_name") or model.sch["package"]
        self.lines = []
        self.uid = 0

    def w(self, s):
        self.lines.append(s)

    def fresh(self, p):
        self.uid += 1
        return "%s%d" % (p, self.uid)

    def bits(self, m, expr):
        if m.kind == "scalar":
            if PRIMS[m.prim][1] == "f":
                return "static_cast<std::uint64_t>(std::bit_cast<%s>(%s.value()))" % ("std::uint32_t" if m.size == 4 else "std::uint64_t", expr)
            return "ubits(%s.value())" % expr
        if m.kind == "enum":
            return "ubits(sbepp::to_underlying(%s))" % expr
        return "ubits(*%s)" % expr

    def member(self, m, getter, ind, exp, value):
        pad = "    " * ind
        mask = lambda v, sz: v & (2 ** (8 * sz) - 1)
        if m.kind in ("scalar", "enum", "set"):
            self.w("%sr.push(%s);" % (pad, self.bits(m, getter)))
            exp.append(mask(value, m.size))
        elif m.kind == "array":
            a = self.fresh("a")
            self.w("%s{ auto %s = %s; r.push(%s.size()); for(std::size_t i_ = 0; i_ < %s.size(); i_++) r.push(ubits(%s[i_])); }" % (pad, a, getter, a, a, a))
            exp.append(len(value))
            exp.extend(value)
        elif m.kind == "composite":
            c = self.fresh("c")
            self.w("%s{ auto %s = %s;" % (pad, c, getter))
            for e in m.elements:
                if not e.is_const:
                    self.member(e, "%s.%s()" % (c, e.name), ind + 1, exp, value[e.name])
            self.w("%s}" % pad)

    def level(self, L, v, ind, exp_fn):
        """emit code for level L on view variable v. exp_fn(values) -> appends expected numbers (called per instance)"""
        pad = "    " * ind
        for m in L.fields:
            if m.is_const:
                continue
            self.member_code(m, "%s.%s()" % (v, m.name), ind)
        for g in L.groups:
            gv, ev = self.fresh("g"), self.fresh("e")
            self.w("%s{ auto %s = %s.%s(); r.push(%s.size()); r.push(sbepp::get_header(%s).blockLength().value());" % (pad, gv, v, g.name, gv, gv))
            self.w("%s  for(auto %s : %s) {" % (pad, ev, gv))
            self.level(g, ev, ind + 1, None)
            self.w("%s  } }" % pad)
        for d in L.data:
            dv = self.fresh("d")
            if d.elem_prim == "char":
                self.w("%s{ auto %s = %s.%s(); r.push(%s.size()); for(std::size_t i_ = 0; i_ < %s.size(); i_++) r.push(ubits(%s[i_])); }" % (pad, dv, v, d.name, dv, dv, dv))
            else:
                self.w("%s{ auto %s = %s.%s(); r.push(%s.size()); }" % (pad, dv, v, d.name, dv))

    def member_code(self, m, getter, ind):
        pad = "    " * ind
        if m.kind in ("scalar", "enum", "set"):
            self.w("%sr.push(%s);" % (pad, self.bits(m, getter)))
        elif m.kind == "array":
            a = self.fresh("a")
            if m.prim == "char":
                self.w("%s{ auto %s = %s; r.push(%s.size()); for(std::size_t i_ = 0; i_ < %s.size(); i_++) r.push(ubits(%s[i_])); }" % (pad, a, getter, a, a, a))
            else:
                # element access needs a non-identity pointer cast for Value != Byte: documented as not constant-evaluable
                self.w("%s{ auto %s = %s; r.push(%s.size()); }" % (pad, a, getter, a))
        elif m.kind == "composite":
            c = self.fresh("c")
            self.w("%s{ auto %s = %s;" % (pad, c, getter))
            for e in m.elements:
                if not e.is_const:
                    self.member_code(e, "%s.%s()" % (c, e.name), ind + 1)
            self.w("%s}" % pad)

    # expected numbers, mirrors level()/member_code()
    def expected_member(self, m, value, out):
        if m.kind in ("scalar", "enum", "set"):
            out.append(value & (2 ** (8 * m.size) - 1))
        elif m.kind == "array":
            out.append(len(value))
            if m.prim == "char":
                out.extend(value)
        elif m.kind == "composite":
            for e in m.elements:
                if not e.is_const:
                    self.expected_member(e, value[e.name], out)

    def expected_level(self, L, vals, out):
        for m in L.fields:
            if not m.is_const:
                self.expected_member(m, vals["fields"][m.name], out)
        for g in L.groups:
            gv = vals["groups"][g.name]
            out.append(len(gv["entries"]))
            out.append(g.block_length + gv.get("extra", 0))
            for e in gv["entries"]:
                self.expected_level(g, e, out)
        for d in L.data:
            p = vals["data"][d.name]
            out.append(len(p))
            if d.elem_prim == "char":
                out.extend(p)

    def generate(self, cases):
        """cases: list of (message index, Level, image bytes, values). returns (source, [expected lists])"""
        w = self.w
        w("#include <sbepp/sbepp.hpp>")
        w("#include <%s/%s.hpp>" % (self.pkg, self.pkg))
        w("#include <array>")
        w("#include <bit>")
        w("#include <cstdint>")
        w("#include <cstdio>")
        w("#include <type_traits>")
        w("template<typename T> constexpr std::uint64_t ubits(T v) { return static_cast<std::uint64_t>(static_cast<std::make_unsigned_t<T>>(v)); }")
        w("template<std::size_t K> struct Res { std::array<std::uint64_t, K + 1> a{}; std::size_t n = 0; constexpr void push(std::uint64_t v) { if(n < K) a[n] = v; n++; } };")
        expected = []
        for ci, (mi, L, img, vals) in enumerate(cases):
            exp = []
            self.expected_level(L, vals, exp)
            expected.append(exp)
            n = len(img)
            exp.append(n)
            K = len(exp)
            w("constexpr std::array<char, %d> img%d = {%s};" % (max(n, 1), ci, ", ".join("static_cast<char>(%d)" % b for b in img) or "0"))
            w("constexpr Res<%d> decode%d() {" % (K, ci))
            w("    Res<%d> r;" % K)
            w("    auto v0 = sbepp::make_const_view<%s::messages::%s>(img%d.data(), %d);" % (self.pkg, L.name, ci, n))
            self.level(L, "v0", 1, None)
            w("    r.push(sbepp::size_bytes(v0));")
            w("    return r;")
            w("}")
            w("constexpr auto R%d = decode%d();" % (ci, ci))
        w("int main() {")
        for ci, exp in enumerate(expected):
            w("    std::printf(\"CASE %d n=%%zu\", R%d.n); for(std::size_t i = 0; i < R%d.n && i < R%d.a.size(); i++) std::printf(\" %%llx\", static_cast<unsigned long long>(R%d.a[i])); std::printf(\"\\n\");" % (ci, ci, ci, ci, ci))
        w("    return 0; }")
        # Res<K> has K+1 slots, the size_bytes push makes n = K+1: widen declared K
        src = "\n".join(self.lines) + "\n"
        return src, expected
