// Support code for the generated constant-evaluation grid of C15 (see vlib/checks/c15.py).
// The grid itself (one static_assert per line) is generated next to the matrix schema.
#pragma once
#include <sbepp/sbepp.hpp>
#include <c15m/c15m.hpp>

// The property promises constexpr setters / visiting "from C++14"; judged on the language
// standard in use, not on sbepp's own feature macro.
#if __cplusplus >= 201402L
#    define C15_CXX14 1
#else
#    define C15_CXX14 0
#endif

namespace c15grid
{
struct acc_t
{
    unsigned long long bits;
    int n;
};
constexpr bool operator==(const acc_t a, const acc_t b)
{
    return a.bits == b.bits && a.n == b.n;
}

// operator*() const (a temporary would select the non-const overload, which is constexpr from C++14 only)
template<typename S>
constexpr auto deref(const S& s) -> decltype(*s)
{
    return *s;
}

#if C15_CXX14
// k-th reported choice contributes its value at bit k
struct acc_visitor
{
    unsigned long long bits = 0;
    int n = 0;
    template<typename Tag>
    constexpr void on_set_choice(const bool v, Tag)
    {
        bits |= static_cast<unsigned long long>(v) << n;
        ++n;
    }
};

template<typename S>
constexpr acc_t visit_acc(const S s)
{
    acc_visitor v;
    ::sbepp::visit(s, v);
    return {v.bits, v.n};
}
#endif
} // namespace c15grid
