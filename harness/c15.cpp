// C15 -- Set choices are independent bits for every encoding width (run-time half).
//
// Built per config against the tree's sbepp.hpp and the headers sbeppc generated from the
// matrix schema (vlib/checks/c15.py); c15_model.hpp is the independent model of that schema
// (set -> choices in schema order with their bit indexes).
//
// A case is (set type, choice, underlying value v, bool b).  The oracle is uint64_t
// reference arithmetic:   getter == (v >> i) & 1,   setter(b) -> (v & ~(1<<i)) | (b<<i).
//
// Protocol: see vlib/libharness.py.  Replay: --replay 'set=<name> choice=<name|-> v=0x.. b=<0|1|->'
#include <sbepp/sbepp.hpp>
#include <c15m/c15m.hpp>

#include "c15_model.hpp"
#include "hcommon.hpp"

#include <rapidcheck.h>

#include <cinttypes>
#include <memory>
#include <tuple>
#include <typeinfo>
#include <algorithm>

using u64 = std::uint64_t;

// ---------------------------------------------------------------------------------------
// reference arithmetic (never uses sbepp)
static inline u64 ref_mask(int width) { return width == 64 ? ~u64(0) : ((u64(1) << width) - 1); }
static inline bool ref_get(u64 v, int i) { return (v >> i) & u64(1); }
static inline u64 ref_set(u64 v, int i, bool b) { return (v & ~(u64(1) << i)) | (u64(b ? 1 : 0) << i); }
static inline int popcount(u64 v) { return __builtin_popcountll(v); }

// ---------------------------------------------------------------------------------------
// failure bookkeeping: smallest case per signature by (index, popcount(v), v, b)
struct CaseId
{
    const char* set = "-";
    const char* choice = "-"; // static storage
    int width = 0, index = -1;
    u64 v = 0;
    int b = -1;
    std::string str() const
    {
        char buf[256];
        std::string bs = b < 0 ? "-" : std::to_string(b);
        snprintf(buf, sizeof buf, "set=%s choice=%s v=0x%" PRIx64 " b=%s", set, choice, v, bs.c_str());
        return buf;
    }
    std::tuple<int, int, u64, int> key() const { return std::make_tuple(index, popcount(v), v, b); }
};

static hc::Report rep;
static CaseId g_cur;            // case in flight (for UBSan attribution)
static const char* g_op = "-";  // library operation in flight
static long g_unknown_fails = 0;
static std::map<std::string, CaseId> g_best;

// index class relative to the value bits / sign bit / width of `int`
static const char* idx_class(int i)
{
    if(i < 0) return "na";
    return i < 31 ? "lt31" : (i == 31 ? "eq31" : "ge32");
}

static std::string make_sig(const char* op, const CaseId& c, const char* kind)
{
    return std::string(op) + ":u" + std::to_string(c.width) + ":" + idx_class(c.index) + ":" + kind;
}

static void record_fail(const std::string& sig, const CaseId& c, const std::string& what)
{
    if(rep.opt && rep.opt->known.count(sig))
    {
        rep.knownhits[sig]++;
        return;
    }
    g_unknown_fails++;
    auto it = g_best.find(sig);
    if(it == g_best.end() || c.key() < it->second.key())
    {
        g_best[sig] = c;
        rep.fails[sig] = {c.str(), what};
    }
}

static const char* bit_name(int k)
{
    static std::vector<std::string> names;
    if(names.empty())
        for(int i = 0; i < 64; i++) names.push_back("bit" + std::to_string(i));
    return names[k & 63].c_str();
}

static std::string hex(u64 v)
{
    char buf[32];
    snprintf(buf, sizeof buf, "0x%" PRIx64, v);
    return buf;
}

// ---------------------------------------------------------------------------------------
// UBSan reports (the binary is built with -fsanitize-recover=shift so that the search goes on)
extern "C" void __ubsan_get_current_report_data(
    const char** kind, const char** msg, const char** file, unsigned* line, unsigned* col, char** addr) __attribute__((weak));

extern "C" void __ubsan_on_report(void)
{
    const char *kind = "?", *msg = "?", *file = "?";
    unsigned line = 0, col = 0;
    char* addr = nullptr;
    if(__ubsan_get_current_report_data) __ubsan_get_current_report_data(&kind, &msg, &file, &line, &col, &addr);
    std::string f = file ? file : "?";
    auto p = f.rfind('/');
    if(p != std::string::npos) f = f.substr(p + 1);
    std::string sig = "ubsan:" + std::string(kind) + ":" + make_sig(g_op, g_cur, "ub");
    record_fail(sig, g_cur, "UBSan: " + std::string(msg) + " at " + f + ":" + std::to_string(line) + " during " + g_op);
}

// ---------------------------------------------------------------------------------------
// per-set glue generated from the model.  Everything that touches sbepp is a tiny type-erased
// function (over uint64_t values or a void* to a set object created by SetOps::construct) so that
// the string-heavy checking code below is compiled once, not once per set type.
struct VisitRec
{
    std::vector<std::pair<bool, const std::type_info*>> log;
    __attribute__((noinline)) void add(bool v, const std::type_info* t) { log.emplace_back(v, t); }
    template<typename Tag>
    void on_set_choice(bool v, Tag)
    {
        add(v, &typeid(Tag));
    }
};
using NameLog = std::vector<std::pair<bool, std::string>>;
__attribute__((noinline)) static void add_name(NameLog& log, bool b, const char* n) { log.emplace_back(b, n ? n : "(null)"); }

struct ChoiceOps
{
    const char* name;
    int index;
    // the object behind the pointer is a set of the right type created by SetOps::construct
    bool (*get)(const void* s);          // s.c()
    bool (*get_tag)(const void* s);      // get_by_tag<Tag>(s)
    void* (*set)(void* s, bool b);       // &s.c(b)
    void* (*set_tag)(void* s, bool b);   // &set_by_tag<Tag>(s, b)
    const char* trait_name;
    int trait_index;
    const std::type_info* tag;
};

struct SetOps
{
    const char* name;
    int width;
    int underlying_bits;
    bool underlying_unsigned;
    std::vector<ChoiceOps> ch;
    std::vector<const std::type_info*> trait_tags; // set_traits<Tag>::choice_tags, in order
    bool traits_value_type_ok;
    bool traits_tag_ok;
    void (*construct)(void* mem, u64 v);  // new(mem) S{v}
    u64 (*value)(const void* s);          // *static_cast<const S&>(s)
    bool (*visit_obj)(const void* s, VisitRec& r);
    u64 (*default_value)(int form);       // S s; / S s{};
    u64 (*ctor_deref)(u64 v);             // *static_cast<const S&>(S{v})
    u64 (*assign_deref)(u64 v);           // S s; *s = v; -> *s
    int (*eq)(u64 a, u64 b);              // bit0: S{a}==S{b}, bit1: S{a}!=S{b}
    bool (*visit)(u64 v, VisitRec& r);    // sbepp::visit(s, r); returns whether the result refers to r
    void (*visit_default)(u64 v, VisitRec& r); // r = sbepp::visit<VisitRec>(s)
    void (*visit_set)(u64 v, NameLog& log);
};

template<typename... Tags>
static std::vector<const std::type_info*> tag_list(sbepp::type_list<Tags...>)
{
    return {&typeid(Tags)...};
}

template<typename S>
struct Glue
{
    using T = typename std::remove_cv<typename std::remove_reference<decltype(*std::declval<const S&>())>::type>::type;
    static_assert(sizeof(S) <= 8 && std::is_trivially_destructible<S>::value, "set objects fit the runner's buffer");
    static S mk(u64 v) { return S{static_cast<T>(v)}; }
    static void construct(void* mem, u64 v) { new(mem) S{static_cast<T>(v)}; }
    static u64 value(const void* s) { return val(*static_cast<const S*>(s)); }
    static bool visit_erased(const void* s, VisitRec& r) { return visit_obj(*static_cast<const S*>(s), r); }
    static u64 val(const S& s) { return u64(*s); }
    static u64 default_value(int form)
    {
        if(form == 0) { S s; return val(s); }
        S s{};
        return val(s);
    }
    static u64 ctor_deref(u64 v) { const S s = mk(v); return val(s); }
    static u64 assign_deref(u64 v)
    {
        S s;
        *s = static_cast<T>(v); // T& operator*()
        const u64 a = u64(*s);
        return a == val(s) ? a : ~a;
    }
    static int eq(u64 a, u64 b)
    {
        const S x = mk(a), y = mk(b);
        return (x == y ? 1 : 0) | (x != y ? 2 : 0);
    }
    __attribute__((noinline)) static bool visit_obj(const S& s, VisitRec& r)
    {
        VisitRec& ret = sbepp::visit(s, r);
        return &ret == &r;
    }
    static bool visit(u64 v, VisitRec& r)
    {
        const S s = mk(v);
        return visit_obj(s, r);
    }
    static void visit_default(u64 v, VisitRec& r)
    {
        const S s = mk(v);
        r = sbepp::visit<VisitRec>(s);
    }
    static void visit_set(u64 v, NameLog& log)
    {
        const S s = mk(v);
        auto f = [&log](bool b, const char* n) { add_name(log, b, n); };
        sbepp::visit_set(s, f);
    }
};

#define C15_Y(SN, NAME, IDX)                                                                       \
    ChoiceOps{                                                                                     \
        #NAME,                                                                                     \
        IDX,                                                                                       \
        [](const void* s) -> bool { return static_cast<const SN##_t*>(s)->NAME(); },               \
        [](const void* s) -> bool { return sbepp::get_by_tag<SN##_tag::NAME>(*static_cast<const SN##_t*>(s)); }, \
        [](void* s, bool b) -> void* { return &static_cast<SN##_t*>(s)->NAME(b); },                \
        [](void* s, bool b) -> void* { return &sbepp::set_by_tag<SN##_tag::NAME>(*static_cast<SN##_t*>(s), b); }, \
        sbepp::set_choice_traits<SN##_tag::NAME>::name(),                                          \
        static_cast<int>(sbepp::set_choice_traits<SN##_tag::NAME>::index()),                       \
        &typeid(SN##_tag::NAME)},

#define C15_X(SN, CPP, TAG, W, CHOICES)                                                            \
    using SN##_t = CPP;                                                                            \
    using SN##_tag = TAG;                                                                          \
    static SetOps make_##SN()                                                                      \
    {                                                                                              \
        using G = Glue<SN##_t>;                                                                    \
        SetOps d{};                                                                                \
        d.name = #SN;                                                                              \
        d.width = W;                                                                               \
        d.underlying_bits = int(sizeof(G::T) * 8);                                                 \
        d.underlying_unsigned = std::is_unsigned<G::T>::value;                                     \
        const ChoiceOps tab[] = {CHOICES(C15_Y, SN)};                                              \
        d.ch.assign(tab, tab + sizeof(tab) / sizeof(tab[0]));                                      \
        d.trait_tags = tag_list(sbepp::set_traits<SN##_tag>::choice_tags{});                       \
        d.traits_value_type_ok = std::is_same<sbepp::set_traits<SN##_tag>::value_type, SN##_t>::value; \
        d.traits_tag_ok = std::is_same<sbepp::traits_tag_t<SN##_t>, SN##_tag>::value;              \
        d.construct = &G::construct;                                                               \
        d.value = &G::value;                                                                       \
        d.visit_obj = &G::visit_erased;                                                            \
        d.default_value = &G::default_value;                                                       \
        d.ctor_deref = &G::ctor_deref;                                                             \
        d.assign_deref = &G::assign_deref;                                                         \
        d.eq = &G::eq;                                                                             \
        d.visit = &G::visit;                                                                       \
        d.visit_default = &G::visit_default;                                                       \
        d.visit_set = &G::visit_set;                                                               \
        return d;                                                                                  \
    }
C15_SETS(C15_X)

// ---------------------------------------------------------------------------------------
struct Runner
{
    SetOps d;
    std::vector<u64> seen; // every value run; de-duplicated when counting
    long cases = 0;

    // distinct (choice, v, b) with choice index >= 1 and some bit of v set other than the choice's
    long count_nontrivial()
    {
        std::sort(seen.begin(), seen.end());
        seen.erase(std::unique(seen.begin(), seen.end()), seen.end());
        long n = 0;
        for(u64 v : seen)
            for(int k = 0; k < nchoices(); k++)
            {
                const int i = index_of(k);
                if(i >= 1 && (v & ~(u64(1) << i)) != 0) n += 2;
            }
        return n;
    }

    explicit Runner(SetOps ops) : d(std::move(ops)) {}
    const char* name() const { return d.name; }
    int width() const { return d.width; }
    int nchoices() const { return (int)d.ch.size(); }
    int index_of(int k) const { return d.ch[k].index; }
    const char* choice_name(int k) const { return d.ch[k].name; }

    // value-level + every choice x both b
    void run_value(u64 v, bool post_visit_all)
    {
        v &= ref_mask(width());
        const int n = nchoices();
        seen.push_back(v);
        check_value(v);
        for(int k = 0; k < n; k++)
            for(int b = 0; b < 2; b++)
            {
                const bool pv = post_visit_all || ((unsigned)k == (unsigned)((v ^ (v >> 7) ^ b) % (unsigned)n));
                check_case(k, v, b != 0, pv);
            }
    }

    CaseId cid(int k, u64 v, int b) const
    {
        CaseId c;
        c.set = d.name;
        c.width = d.width;
        c.v = v;
        c.b = b;
        if(k >= 0)
        {
            c.choice = d.ch[k].name;
            c.index = d.ch[k].index;
        }
        return c;
    }
    void fail(const char* op, const char* kind, const CaseId& c, const std::string& what)
    {
        record_fail(make_sig(op, c, kind), c, std::string(op) + " " + c.str() + ": " + what);
    }

    void check_static()
    {
        rep.eval();
        CaseId c = cid(-1, 0, -1);
        g_cur = c;
        g_op = "traits";
        if(d.underlying_bits != d.width || !d.underlying_unsigned)
            fail("traits", "width", c, "underlying type has " + std::to_string(d.underlying_bits) + " bits / is not unsigned");
        if(!d.traits_value_type_ok) fail("traits", "value_type", c, "set_traits<Tag>::value_type is not the set type");
        if(!d.traits_tag_ok) fail("traits", "traits_tag", c, "traits_tag<Set> is not the set tag");
        if(d.trait_tags.size() != d.ch.size())
            fail("traits", "choice_tags-count", c, "choice_tags has " + std::to_string(d.trait_tags.size()) + " entries, schema has " + std::to_string(d.ch.size()));
        for(size_t k = 0; k < d.ch.size(); k++)
        {
            CaseId ck = cid((int)k, 0, -1);
            if(k < d.trait_tags.size() && *d.trait_tags[k] != *d.ch[k].tag) fail("traits", "choice_tags-order", ck, "choice_tags[" + std::to_string(k) + "] is not the tag of the k-th choice in schema order");
            if(std::string(d.ch[k].trait_name) != d.ch[k].name) fail("traits", "choice-name", ck, std::string("set_choice_traits::name() == ") + d.ch[k].trait_name);
            if(d.ch[k].trait_index != d.ch[k].index) fail("traits", "choice-index", ck, "set_choice_traits::index() == " + std::to_string(d.ch[k].trait_index));
        }
        g_op = "ctor";
        for(int form = 0; form < 2; form++)
        {
            const u64 z = d.default_value(form);
            if(z != 0) fail("ctor", "default-not-zero", c, "default-constructed set has value " + hex(z));
        }
        g_op = "-";
    }

    // expected visit sequence vs recorded
    // `judge`: per choice, whether its plain getter was right on this value (a wrong getter is reported as
    // such, its consequences for visiting are not reported again); nullptr = judge all
    void compare_visit(const char* op, const VisitRec& r, u64 v, const CaseId& c, const std::vector<char>* judge)
    {
        if(r.log.size() != d.ch.size())
        {
            fail(op, "count", c, "reported " + std::to_string(r.log.size()) + " choices, schema declares " + std::to_string(d.ch.size()));
            return;
        }
        for(size_t k = 0; k < d.ch.size(); k++)
        {
            if(*r.log[k].second != *d.ch[k].tag)
            {
                CaseId ck = c; ck.choice = d.ch[k].name; ck.index = d.ch[k].index;
                fail(op, "order-or-tag", ck, "callback #" + std::to_string(k) + " does not carry the tag of the k-th choice in schema order (" + d.ch[k].name + ")");
                return;
            }
            if(r.log[k].first != ref_get(v, d.ch[k].index) && (!judge || (*judge)[k]))
            {
                CaseId ck = c; ck.choice = d.ch[k].name; ck.index = d.ch[k].index;
                fail(op, "wrong-bit", ck, std::string("choice ") + d.ch[k].name + " (bit " + std::to_string(d.ch[k].index) + ") reported " + (r.log[k].first ? "true" : "false") + " for underlying " + hex(v));
            }
        }
    }

    VisitRec vr, vr2;
    NameLog nlog;
    alignas(8) unsigned char obj[8];
    std::vector<char> get_ok;

    void check_value(u64 v)
    {
        rep.eval();
        g_cur = cid(-1, v, -1);
        const CaseId c = g_cur;
        const u64 M = ref_mask(d.width);
        // construction from a value, raw access
        g_op = "raw";
        {
            const u64 g = d.ctor_deref(v);
            if(g != v) fail("raw", "ctor-or-deref", c, "*S{v} == " + hex(g));
            const u64 a = d.assign_deref(v);
            if(a != v) fail("raw", "assign-through-deref", c, "after *s = v: *s == " + hex(a) + " (or the two operator* overloads disagree)");
        }
        // equality
        g_op = "eq";
        {
            if(d.eq(v, v) != 1) fail("eq", "equal-values-differ", c, "S{v} == S{v} is false or != is true");
            for(int k = 0; k < d.width; k++)
            {
                const u64 w = (v ^ (u64(1) << k)) & M;
                if(d.eq(v, w) != 2 || d.eq(w, v) != 2)
                {
                    CaseId ck = c; ck.index = k; ck.choice = bit_name(k);
                    fail("eq", "different-values-equal", ck, "S{" + hex(v) + "} and S{" + hex(w) + "} compare equal (or == and != agree)");
                }
            }
        }
        // getters
        get_ok.assign(d.ch.size(), 1);
        for(size_t k = 0; k < d.ch.size(); k++)
        {
            const bool e = ref_get(v, d.ch[k].index);
            g_cur.choice = d.ch[k].name;
            g_cur.index = d.ch[k].index;
            g_op = "get";
            d.construct(obj, v);
            const bool g = d.ch[k].get(obj);
            get_ok[k] = (g == e);
            if(g != e) fail("get", "wrong-result", g_cur, std::string("getter returned ") + (g ? "true" : "false") + ", bit " + std::to_string(d.ch[k].index) + " of " + hex(v) + " is " + (e ? "1" : "0"));
            g_op = "get_by_tag";
            const bool gt = d.ch[k].get_tag(obj);
            if(d.value(obj) != v) fail("get", "getter-modified-set", g_cur, "underlying value changed to " + hex(d.value(obj)) + " by a getter");
            if(gt != e && get_ok[k]) fail("get_by_tag", "wrong-result", g_cur, std::string("get_by_tag returned ") + (gt ? "true" : "false") + ", bit " + std::to_string(d.ch[k].index) + " of " + hex(v) + " is " + (e ? "1" : "0"));
        }
        g_cur = c;
        // visiting
        g_op = "visit";
        {
            vr.log.clear();
            if(!d.visit(v, vr)) fail("visit", "return", c, "visit() did not return the visitor it was given");
            compare_visit("visit", vr, v, c, &get_ok);
            vr2.log.clear();
            d.visit_default(v, vr2);
            if(vr2.log != vr.log) fail("visit", "default-visitor-differs", c, "visit<V>(s) and visit(s, v) reported different sequences");
        }
        g_op = "visit_set";
        {
            nlog.clear();
            d.visit_set(v, nlog);
            if(nlog.size() != d.ch.size()) fail("visit_set", "count", c, "reported " + std::to_string(nlog.size()) + " choices");
            else
                for(size_t k = 0; k < d.ch.size(); k++)
                {
                    CaseId ck = c; ck.choice = d.ch[k].name; ck.index = d.ch[k].index;
                    if(nlog[k].second != d.ch[k].name) { fail("visit_set", "order-or-name", ck, "callback #" + std::to_string(k) + " named '" + nlog[k].second + "', schema order has '" + d.ch[k].name + "'"); break; }
                    if(nlog[k].first != ref_get(v, d.ch[k].index) && get_ok[k]) fail("visit_set", "wrong-bit", ck, std::string("choice ") + d.ch[k].name + " reported " + (nlog[k].first ? "true" : "false") + " for underlying " + hex(v));
                }
        }
        g_op = "-";
    }

    // returns true when the setter produced the expected underlying value
    bool one_setter(const char* op, void* (*setter)(void*, bool), int k, u64 v, bool b, const CaseId& c)
    {
        const int i = d.ch[k].index;
        const u64 e = ref_set(v, i, b);
        g_op = op;
        d.construct(obj, v);
        void* r = setter(obj, b);
        const u64 got = d.value(obj);
        if(got != e)
        {
            const u64 changed = got ^ v, should = e ^ v;
            fail(op, (changed & ~(u64(1) << i)) ? "other-bits-changed" : "target-bit-wrong", c,
                "underlying " + hex(v) + " -> " + hex(got) + ", expected " + hex(e) + " (bits changed " + hex(changed) + ", should change " + hex(should) + ")");
        }
        if(r != static_cast<void*>(obj)) fail(op, "return", c, "setter did not return a reference to the set it was called on");
        return got == e;
    }

    void check_case(int k, u64 v, bool b, bool post_visit)
    {
        rep.eval();
        cases++;
        g_cur = cid(k, v, b ? 1 : 0);
        const CaseId c = g_cur;
        if((cases & 0xffff) == 1) hc::current_always(c.str());
        const int i = d.ch[k].index;
        const u64 e = ref_set(v, i, b);
        // a wrong plain setter is reported as such; what follows from it is not reported again
        if(one_setter("set", d.ch[k].set, k, v, b, c) && one_setter("set_by_tag", d.ch[k].set_tag, k, v, b, c))
        {
            // read back on the modified object: same answer as a fresh S{e}, which must be b
            g_op = "get";
            const bool rb = d.ch[k].get(obj);
            alignas(8) unsigned char fresh[8];
            d.construct(fresh, e);
            const bool fr = d.ch[k].get(fresh);
            if(fr != b) fail("get", "wrong-result", c, std::string("getter on S{") + hex(e) + "} returned " + (fr ? "true" : "false"));
            else if(rb != b) fail("get", "readback", c, "getter after setter(b) does not return b although S{expected} does");
            if(post_visit)
            {
                // after the setter every other choice still reads its bit of v and this one reads b
                get_ok.assign(d.ch.size(), 1);
                for(size_t j = 0; j < d.ch.size(); j++) get_ok[j] = (d.ch[j].get(obj) == ref_get(e, d.ch[j].index));
                g_op = "visit";
                vr.log.clear();
                d.visit_obj(obj, vr);
                compare_visit("visit", vr, e, c, &get_ok);
            }
            // chained on the returned reference: s.c(b).c(!b)
            g_op = "set";
            const u64 e2 = ref_set(v, i, !b);
            d.construct(obj, v);
            void* r2 = d.ch[k].set(d.ch[k].set(obj, b), !b);
            const u64 g2 = d.value(obj);
            if(r2 != static_cast<void*>(obj)) fail("set", "return", c, "chained setter did not return a reference to the set");
            else if(g2 != e2)
            {
                // only a defect of chaining if the single step S{e}.c(!b) is right
                d.construct(fresh, e);
                d.ch[k].set(fresh, !b);
                if(d.value(fresh) == e2) fail("set", "chained", c, "s.c(b).c(!b): underlying " + hex(v) + " -> " + hex(g2) + ", expected " + hex(e2));
                else fail("set", ((d.value(fresh) ^ e) & ~(u64(1) << i)) ? "other-bits-changed" : "target-bit-wrong", cid(k, e, b ? 0 : 1),
                    "underlying " + hex(e) + " -> " + hex(d.value(fresh)) + ", expected " + hex(e2));
            }
        }
        g_op = "-";
    }
};

// ---------------------------------------------------------------------------------------
static std::vector<std::unique_ptr<Runner>> make_runners()
{
    std::vector<std::unique_ptr<Runner>> rs;
#define C15_MK(SN, CPP, TAG, W, CHOICES) rs.emplace_back(new Runner(make_##SN()));
    C15_SETS(C15_MK)
    return rs;
}

static std::vector<u64> pattern_values(int W)
{
    const u64 M = ref_mask(W);
    std::vector<u64> vs;
    vs.push_back(0);
    vs.push_back(M);
    for(int k = 0; k < W; k++) vs.push_back(u64(1) << k);       // walking 1
    for(int k = 0; k < W; k++) vs.push_back(M ^ (u64(1) << k)); // walking 0
    const u64 pats[] = {0xA5A5A5A5A5A5A5A5ull, 0x5555555555555555ull, 0x3333333333333333ull, 0x0F0F0F0F0F0F0F0Full,
        0x00FF00FF00FF00FFull, 0x0000FFFF0000FFFFull, 0x00000000FFFFFFFFull, 0x0123456789ABCDEFull, 0x8000000080000000ull,
        0x7FFFFFFF7FFFFFFFull, 0x000000007FFFFFFFull, 0x0000000080000000ull, 0x0000000100000000ull, 0x00000000FFFF0000ull,
        0x7FFFFFFFFFFFFFFFull, 0x8000000000000001ull, 0x00000001FFFFFFFFull};
    for(u64 p : pats)
    {
        vs.push_back(p & M); // complement pairs
        vs.push_back(~p & M);
    }
    // two bits / all but two bits: for every pair (i, j) a value where only j (resp. everything but j) is visible next to i
    for(int j = 0; j < W; j++)
        for(int k = j + 1; k < W; k++)
        {
            const u64 t = (u64(1) << j) | (u64(1) << k);
            vs.push_back(t);
            vs.push_back(M ^ t);
        }
    // prefixes / suffixes of ones
    for(int k = 1; k < W; k++)
    {
        vs.push_back((u64(1) << k) - 1);
        vs.push_back(M ^ ((u64(1) << k) - 1));
    }
    return vs;
}

static Runner* find_runner(std::vector<std::unique_ptr<Runner>>& rs, const std::string& n)
{
    for(auto& r : rs)
        if(n == r->name()) return r.get();
    return nullptr;
}

static int do_replay(std::vector<std::unique_ptr<Runner>>& rs, const std::string& text)
{
    std::map<std::string, std::string> kv;
    size_t pos = 0;
    while(pos < text.size())
    {
        size_t e = text.find(' ', pos);
        if(e == std::string::npos) e = text.size();
        std::string tok = text.substr(pos, e - pos);
        size_t eq = tok.find('=');
        if(eq != std::string::npos) kv[tok.substr(0, eq)] = tok.substr(eq + 1);
        pos = e + 1;
    }
    Runner* r = find_runner(rs, kv["set"]);
    if(!r)
    {
        printf("FAIL replay:bad-case\t%s\tunknown set\n", text.c_str());
        return 2;
    }
    const u64 v = strtoull(kv["v"].c_str(), nullptr, 0) & ref_mask(r->width());
    r->check_static();
    r->check_value(v);
    int k = -1;
    for(int j = 0; j < r->nchoices(); j++)
        if(kv["choice"] == r->choice_name(j)) k = j;
    if(k >= 0)
    {
        if(kv["b"] == "0" || kv["b"] == "1") r->check_case(k, v, kv["b"] == "1", true);
        else
        {
            r->check_case(k, v, false, true);
            r->check_case(k, v, true, true);
        }
    }
    return rep.finish();
}

int main(int argc, char** argv)
{
    hc::Options opt = hc::parse_args(argc, argv);
    rep.opt = &opt;
    auto rs = make_runners();
    if(!opt.replay.empty()) return do_replay(rs, opt.replay) ? 1 : 0;

    for(auto& r : rs) r->check_static();

    // ---- enumerated part
    for(auto& r : rs)
    {
        const int W = r->width();
        const long before = r->cases;
        if(W <= 16)
        {
            const u64 n = u64(1) << W;
            for(u64 v = 0; v < n; v++) r->run_value(v, W == 8 || r->nchoices() <= 8);
            rep.cls(std::string("exhaustive_u") + std::to_string(W), r->cases - before);
            if(rep.samples.size() < 2)
                rep.sample(std::string("set=") + r->name() + " choice=" + r->choice_name(1) + " v=" + hex(n - 3) + " b=0 -> expected underlying "
                    + hex(ref_set(n - 3, r->index_of(1), false)) + " (every v in [0, " + hex(n - 1) + "] x every choice x both b is run)");
        }
        else
        {
            for(u64 v : pattern_values(W)) r->run_value(v, r->nchoices() <= 8);
            rep.cls(std::string("patterns_u") + std::to_string(W), r->cases - before);
        }
    }
    rep.exhaustive = 1; // the 8/16-bit scope and the stated pattern lists were enumerated completely

    // ---- random part (32/64-bit sets); rapidcheck is configured through RC_PARAMS
    for(auto& r : rs)
    {
        const int W = r->width();
        if(W <= 16) continue;
        Runner* rp = r.get();
        const long before = rp->cases;
        const auto arb = rc::gen::arbitrary<u64>();
        const auto gen = rc::gen::resize(100, rc::gen::apply(
            [](u64 a, u64 b, u64 c, int mode) -> u64 {
                switch(mode)
                {
                case 0: return a;
                case 1: return a & b & c; // sparse
                case 2: return a | b | c; // dense
                case 3: return a & b;
                case 4: return a | b;
                default: return a ^ (a << 1); // runs
                }
            },
            arb, arb, arb, rc::gen::inRange(0, 6)));
        rc::check(std::string("C15 random values ") + rp->name(), [&]() {
            const u64 v = *gen;
            if(rp->cases == before && rep.samples.size() < 6)
            {
                // a real case of the random part: the first value drawn for this set, one of its choices, flipping it
                const u64 mv = v & ref_mask(rp->width());
                const int k = popcount(mv) % rp->nchoices();
                const bool b = !ref_get(mv, rp->index_of(k));
                rep.sample(std::string("set=") + rp->name() + " choice=" + rp->choice_name(k) + " v=" + hex(mv) + " b=" + (b ? "1" : "0")
                    + " -> expected underlying " + hex(ref_set(mv, rp->index_of(k), b)) + " (all " + std::to_string(rp->nchoices()) + " choices x both b are run on this v)");
            }
            const long u0 = g_unknown_fails;
            rp->run_value(v, false);
            if(g_unknown_fails != u0) RC_FAIL("property violated");
        });
        rep.cls(std::string("random_u") + std::to_string(W), rp->cases - before);
    }

    long nontrivial = 0;
    for(auto& r : rs) nontrivial += r->count_nontrivial();
    printf("STAT nontrivial %ld\n", nontrivial);
    return rep.finish();
}
