// C14 - reference model of sbepp::detail::static_array_ref written from the
// doxygen comments in sbepp.hpp (static_array_ref, eos_null) and
// doc/representation.md "Fixed-size arrays".  Shared by c14.cpp (run-time
// search) and c14_cx.cpp (constant-evaluation differential).  C++11.
#pragma once
#include <cstddef>
#include <cstdint>
#include <cstdio>
#include <cstdlib>
#include <string>
#include <vector>

namespace c14
{
typedef unsigned char u8;

// eos modes. M_DEFAULT = second argument omitted (documented default: all)
enum Mode
{
    M_NONE = 0,
    M_SINGLE = 1,
    M_ALL = 2,
    M_DEFAULT = 3,
    M_COUNT = 4
};
inline const char* mode_name(int m)
{
    static const char* n[] = {"none", "single", "all", "default"};
    return (m >= 0 && m < M_COUNT) ? n[m] : "?";
}

// overloads under test
enum Op
{
    OP_OBSERVE = 0, // strlen/strlen_r/accessors on the prior content only
    // assign_string(x, mode)
    S_CSTR,     // const char*
    S_STRING_L, // std::string lvalue
    S_STRING_R, // std::string rvalue
    S_SV,       // std::string_view (C++17)
    S_VEC,      // std::vector<char>
    S_INRANGE,  // user range with single-pass (input) iterators
    S_FWDLIST,  // std::forward_list<char>
    // assign_range(x)
    R_STRING,
    R_SV,
    R_VEC,
    R_INRANGE,
    R_FWDLIST,
    // assign(first, last)
    I_PTR,    // const char*
    I_VECIT,  // std::vector<char>::const_iterator
    I_INPUT,  // single-pass input iterator
    I_FWD,    // std::forward_list<char>::const_iterator
    I_LIST,   // std::list<char>::const_iterator
    A_ILIST,  // assign(std::initializer_list<char>)
    A_COUNT,  // assign(count, v)
    A_FILL,   // fill(v)
    OP_COUNT
};
inline const char* op_name(int op)
{
    static const char* n[] = {
        "observe",
        "assign_string(const char*)",
        "assign_string(std::string&)",
        "assign_string(std::string&&)",
        "assign_string(std::string_view)",
        "assign_string(std::vector<char>)",
        "assign_string(input-range)",
        "assign_string(std::forward_list<char>)",
        "assign_range(std::string)",
        "assign_range(std::string_view)",
        "assign_range(std::vector<char>)",
        "assign_range(input-range)",
        "assign_range(std::forward_list<char>)",
        "assign(const char*,const char*)",
        "assign(vector::const_iterator)",
        "assign(input-iterator)",
        "assign(forward_list::const_iterator)",
        "assign(list::const_iterator)",
        "assign(initializer_list)",
        "assign(count,value)",
        "fill(value)"};
    return (op >= 0 && op < OP_COUNT) ? n[op] : "?";
}
constexpr bool op_has_mode(int op) { return op >= S_CSTR && op <= S_FWDLIST; }
constexpr bool op_has_input(int op) { return op >= S_CSTR && op <= A_ILIST; }
constexpr bool op_is_cstr(int op) { return op == S_CSTR; }

enum ByteKind
{
    B_CHAR = 0,
    B_UCHAR = 1,
    B_STDBYTE = 2
};
inline const char* byte_name(int b)
{
    static const char* n[] = {"char", "uchar", "stdbyte"};
    return (b >= 0 && b < 3) ? n[b] : "?";
}

struct Case
{
    unsigned N;
    int byte;
    std::vector<u8> content; // N prior elements
    u8 gl, gr;               // guard elements left/right of the array
    int op;
    int mode;              // only for assign_string
    std::vector<u8> input; // string / range / iterator / ilist ops
    u8 v;                  // assign(count,v), fill(v)
    unsigned count;        // assign(count,v)
    Case() : N(0), byte(0), gl('G'), gr('H'), op(0), mode(M_NONE), v(0), count(0) {}
};

inline std::string hex(const std::vector<u8>& v)
{
    static const char* d = "0123456789abcdef";
    std::string s;
    for(size_t i = 0; i < v.size(); i++)
    {
        s += d[v[i] >> 4];
        s += d[v[i] & 15];
    }
    return s.empty() ? "-" : s;
}
inline std::vector<u8> unhex(const std::string& s)
{
    std::vector<u8> v;
    if(s == "-") return v;
    for(size_t i = 0; i + 1 < s.size(); i += 2)
        v.push_back((u8)strtoul(s.substr(i, 2).c_str(), nullptr, 16));
    return v;
}

// one-line replay description (no tabs)
inline std::string format(const Case& c)
{
    char b[160];
    snprintf(b, sizeof b, "N=%u byte=%s op=%d mode=%s gl=%02x gr=%02x v=%02x count=%u", c.N, byte_name(c.byte), c.op,
             mode_name(c.mode), c.gl, c.gr, c.v, c.count);
    return std::string(b) + " content=" + hex(c.content) + " input=" + hex(c.input) + " # " + op_name(c.op);
}
inline bool parse(const std::string& s, Case& c)
{
    size_t pos = 0;
    bool any = false;
    while(pos < s.size())
    {
        size_t e = s.find(' ', pos);
        if(e == std::string::npos) e = s.size();
        std::string tok = s.substr(pos, e - pos);
        pos = e + 1;
        if(tok == "#") break;
        size_t eq = tok.find('=');
        if(eq == std::string::npos) continue;
        std::string k = tok.substr(0, eq), v = tok.substr(eq + 1);
        any = true;
        if(k == "N") c.N = (unsigned)atoi(v.c_str());
        else if(k == "byte") c.byte = v == "uchar" ? B_UCHAR : v == "stdbyte" ? B_STDBYTE : B_CHAR;
        else if(k == "op") c.op = atoi(v.c_str());
        else if(k == "mode") c.mode = v == "single" ? M_SINGLE : v == "all" ? M_ALL : v == "default" ? M_DEFAULT : M_NONE;
        else if(k == "gl") c.gl = (u8)strtoul(v.c_str(), nullptr, 16);
        else if(k == "gr") c.gr = (u8)strtoul(v.c_str(), nullptr, 16);
        else if(k == "v") c.v = (u8)strtoul(v.c_str(), nullptr, 16);
        else if(k == "count") c.count = (unsigned)atoi(v.c_str());
        else if(k == "content") c.content = unhex(v);
        else if(k == "input") c.input = unhex(v);
    }
    return any && c.content.size() == c.N && c.op >= 0 && c.op < OP_COUNT;
}

// ---- the documented behaviour -------------------------------------------

// strlen(): "looking for the first null character from left to right. If not
// found, returns size()"
inline size_t ref_strlen(const u8* c, size_t n)
{
    for(size_t i = 0; i < n; i++)
        if(c[i] == 0) return i;
    return n;
}
// strlen_r(): "looking for the first non-null character from right to left.
// If not found, returns 0"
inline size_t ref_strlen_r(const u8* c, size_t n)
{
    for(size_t i = n; i > 0; i--)
        if(c[i - 1] != 0) return i;
    return 0;
}

// number of elements the op takes from its argument (its documented
// precondition is that this is <= N)
inline size_t ref_len(const Case& c)
{
    if(c.op == S_CSTR) return ref_strlen(c.input.data(), c.input.size()); // C string ends at its first NUL
    if(op_has_input(c.op)) return c.input.size();
    if(c.op == A_COUNT) return c.count;
    if(c.op == A_FILL) return c.N;
    return 0;
}
inline bool precondition_holds(const Case& c) { return ref_len(c) <= c.N; }

// Expected array content after the op; `ret` = documented returned iterator as
// an offset from begin() (-1: returns void / not applicable).
inline std::vector<u8> ref_apply(const Case& c, long& ret)
{
    std::vector<u8> r = c.content;
    const size_t n = c.N, len = ref_len(c);
    ret = -1;
    if(c.op == OP_OBSERVE) return r;
    if(c.op == A_FILL)
    {
        for(size_t i = 0; i < n; i++) r[i] = c.v;
        return r;
    }
    if(c.op == A_COUNT)
    {
        for(size_t i = 0; i < len; i++) r[i] = c.v;
        ret = (long)len;
        return r;
    }
    for(size_t i = 0; i < len; i++) r[i] = c.input[i];
    ret = (long)len; // "iterator past the last written string character (without null bytes)" / "past the last written byte"
    if(op_has_mode(c.op))
    {
        const int m = c.mode == M_DEFAULT ? (int)M_ALL : c.mode;
        if(m == M_SINGLE && len < n) r[len] = 0;               // "Single byte after the last string character will be set to null"
        if(m == M_ALL) for(size_t i = len; i < n; i++) r[i] = 0; // "All bytes after the last string character will be set to null"
        // none: "Bytes after the last string character will not be touched"
    }
    return r;
}

// non-triviality rule of the property
inline bool nontrivial(const Case& c)
{
    if(op_has_input(c.op) || c.op == A_COUNT)
        if(ref_len(c) < c.N) return true; // padding / untouched tail is observable
    return ref_strlen(c.content.data(), c.N) == c.N; // content without NUL: strlen boundary
}
inline uint64_t case_key(const Case& c)
{
    // distinct by (N, content, input, mode, overload) (+ v/count for the ops that use them)
    uint64_t h = 1469598103934665603ull;
    auto mix = [&](unsigned x) { h ^= (x & 0xff); h *= 1099511628211ull; };
    mix(c.N);
    mix((unsigned)c.op);
    mix(op_has_mode(c.op) ? (unsigned)c.mode : 9u);
    for(size_t i = 0; i < c.content.size(); i++) mix(c.content[i]);
    mix(0xfe);
    if(op_has_input(c.op)) for(size_t i = 0; i < c.input.size(); i++) mix(c.input[i]);
    mix(0xfd);
    if(c.op == A_COUNT) { mix(c.count); mix(c.v); }
    if(c.op == A_FILL) mix(c.v);
    return h;
}
} // namespace c14
