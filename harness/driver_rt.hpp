// Runtime support for the per-schema generated drivers (DESIGN 3.4).
// C++11 compatible.  The generated TU defines SBEPP_ENABLE_ASSERTS_WITH_HANDLER
// (or SBEPP_DISABLE_ASSERTS for the unchecked variant) before including sbepp.
#pragma once
#include <csetjmp>
#include <csignal>
#include <cstdint>
#include <cstdio>
#include <cstdlib>
#include <cstring>
#include <iostream>
#include <sstream>
#include <string>
#include <type_traits>
#include <vector>
#include <sys/mman.h>
#include <unistd.h>

// byte type of every view the generated driver creates (sbepp accepts any 1-byte type; `char` is signed here, so a
// library path that widens a byte without going through `unsigned char` shows up only with it)
#ifndef RT_BYTE
#define RT_BYTE unsigned char
#endif

namespace rt
{
typedef RT_BYTE byte_t;
void output_limit_exceeded(); // abandons the case in flight (hostile counts can make a traversal astronomically long)
// end of the currently placed image (first byte of the trailing guard page); the harness itself never reads past it
static const unsigned char* g_image_end = nullptr;

// ------------------------------------------------------------------ output
struct Out
{
    std::string s;
    void tok(const std::string& t)
    {
        if(!s.empty()) s += ' ';
        s += t;
        if(s.size() > (8u << 20)) output_limit_exceeded();
    }
    static std::string hex64(std::uint64_t v)
    {
        char b[32];
        snprintf(b, sizeof b, "%llx", static_cast<unsigned long long>(v));
        return b;
    }
    static std::string hexbytes(const void* p, std::size_t n)
    {
        if(n == 0) return "-";
        static const char* d = "0123456789abcdef";
        std::string r;
        r.reserve(n * 2);
        const unsigned char* c = static_cast<const unsigned char*>(p);
        for(std::size_t i = 0; i < n; i++)
        {
            r += d[c[i] >> 4];
            r += d[c[i] & 15];
        }
        return r;
    }
    void F(const char* name, std::uint64_t bits) { tok(std::string("F ") + name + " " + hex64(bits)); }
    void K(const char* name, std::uint64_t bits) { tok(std::string("K ") + name + " " + hex64(bits)); }
    void Kb(const char* name, const void* p, std::size_t n) { tok(std::string("K ") + name + " " + hexbytes(p, n)); }
    // clamp what the harness reads itself: a view that claims to extend past the buffer is reported, not followed
    std::size_t clamp(const void* p, std::size_t n)
    {
        const unsigned char* c = static_cast<const unsigned char*>(p);
        if(g_image_end && c <= g_image_end && n > static_cast<std::size_t>(g_image_end - c))
        {
            err("view extends past the buffer without an assertion");
            return static_cast<std::size_t>(g_image_end - c);
        }
        return n;
    }
    void A(const char* name, const void* p, std::size_t n) { n = clamp(p, n); tok(std::string("A ") + name + " " + hexbytes(p, n)); }
    void C(const char* name) { tok(std::string("C ") + name + " {"); }
    void G(const char* name, std::uint64_t n, std::uint64_t bl)
    {
        tok(std::string("G ") + name + " " + std::to_string(n) + " " + std::to_string(bl) + " {");
    }
    void E(std::uint64_t i) { tok("E " + std::to_string(i) + " {"); }
    void D(const char* name, std::uint64_t n, const void* p)
    {
        std::size_t m = clamp(p, static_cast<std::size_t>(n));
        tok(std::string("D ") + name + " " + std::to_string(n) + " " + hexbytes(p, m));
    }
    void end() { tok("}"); }
    void kv(const std::string& k, std::uint64_t v) { tok(k + "=" + std::to_string(v)); }
    void err(const std::string& what) { tok("XERR(" + what + ")"); }
};

// ------------------------------------------------------------------- bits
template<typename T, bool IsFloat = std::is_floating_point<T>::value>
struct Bits;
template<typename T>
struct Bits<T, false>
{
    static std::uint64_t get(T v)
    {
        typedef typename std::make_unsigned<T>::type U;
        return static_cast<std::uint64_t>(static_cast<U>(v));
    }
    static T from(std::uint64_t b) { return static_cast<T>(b); }
};
template<>
struct Bits<float, true>
{
    static std::uint64_t get(float v)
    {
        std::uint32_t u;
        std::memcpy(&u, &v, 4);
        return u;
    }
    static float from(std::uint64_t b)
    {
        std::uint32_t u = static_cast<std::uint32_t>(b);
        float f;
        std::memcpy(&f, &u, 4);
        return f;
    }
};
template<>
struct Bits<double, true>
{
    static std::uint64_t get(double v)
    {
        std::uint64_t u;
        std::memcpy(&u, &v, 8);
        return u;
    }
    static double from(std::uint64_t b)
    {
        double f;
        std::memcpy(&f, &b, 8);
        return f;
    }
};
template<typename T>
std::uint64_t bits(T v)
{
    return Bits<T>::get(v);
}
template<typename T>
T from_bits(std::uint64_t b)
{
    return Bits<T>::from(b);
}
template<typename E>
std::uint64_t enum_bits(E e)
{
    typedef typename std::underlying_type<E>::type U;
    return bits(static_cast<U>(e));
}
template<typename E>
E enum_from_bits(std::uint64_t b)
{
    typedef typename std::underlying_type<E>::type U;
    return static_cast<E>(from_bits<U>(b));
}

// ------------------------------------------------------------------ input
inline int hexval(char c)
{
    if(c >= '0' && c <= '9') return c - '0';
    if(c >= 'a' && c <= 'f') return c - 'a' + 10;
    if(c >= 'A' && c <= 'F') return c - 'A' + 10;
    return -1;
}
inline std::vector<byte_t> unhex(const std::string& s)
{
    std::vector<byte_t> r;
    if(s == "-") return r;
    r.reserve(s.size() / 2);
    for(std::size_t i = 0; i + 1 < s.size(); i += 2)
        r.push_back(static_cast<byte_t>(static_cast<unsigned char>(hexval(s[i]) * 16 + hexval(s[i + 1]))));
    return r;
}
struct Tokens
{
    std::vector<std::string> t;
    std::size_t pos;
    explicit Tokens(const std::string& line) : pos(0)
    {
        std::istringstream is(line);
        std::string x;
        while(is >> x) t.push_back(x);
    }
    bool more() const { return pos < t.size(); }
    const std::string& peek() const
    {
        static const std::string empty;
        return pos < t.size() ? t[pos] : empty;
    }
    std::string next() { return pos < t.size() ? t[pos++] : std::string(); }
    std::uint64_t u64() { return std::strtoull(next().c_str(), nullptr, 16); }
    std::uint64_t dec() { return std::strtoull(next().c_str(), nullptr, 10); }
    std::vector<byte_t> bytes() { return unhex(next()); }
};

// ----------------------------------------------------------- guarded buffer
// [ PROT_NONE page | ... data pages ... | PROT_NONE page ]; the image is placed
// so that it ends exactly at the trailing guard page.
struct GuardBuf
{
    unsigned char* base;
    std::size_t pages;
    std::size_t page;
    GuardBuf() : base(nullptr), pages(0), page(static_cast<std::size_t>(sysconf(_SC_PAGESIZE))) {}
    void ensure(std::size_t n)
    {
        std::size_t need = (n + page - 1) / page + 1;
        if(need <= pages) return;
        if(base) munmap(base - page, (pages + 2) * page);
        pages = need + 4;
        void* p = mmap(nullptr, (pages + 2) * page, PROT_NONE, MAP_PRIVATE | MAP_ANONYMOUS, -1, 0);
        if(p == MAP_FAILED) { perror("mmap"); std::exit(9); }
        base = static_cast<unsigned char*>(p) + page;
        mprotect(base, pages * page, PROT_READ | PROT_WRITE);
    }
    // returns pointer p such that p+n is the guard page
    byte_t* place(const void* data, std::size_t n, bool readonly = false)
    {
        ensure(n);
        mprotect(base, pages * page, PROT_READ | PROT_WRITE);
        std::memset(base, 0xEE, pages * page);
        unsigned char* p = base + pages * page - n;
        g_image_end = base + pages * page;
        if(n) std::memcpy(p, data, n);
        if(readonly) mprotect(base, pages * page, PROT_READ);
        return reinterpret_cast<byte_t*>(p);
    }
    byte_t* end() const { return reinterpret_cast<byte_t*>(base + pages * page); }
    // every byte in front of a placed image still has the fill pattern
    bool canary_ok(const void* p_) const
    {
        const unsigned char* p = static_cast<const unsigned char*>(p_);
        for(const unsigned char* q = base; q < p; q++)
            if(*q != 0xEE) return false;
        return true;
    }
};

// ------------------------------------------------------------- fault capture
struct Guard
{
    sigjmp_buf jb;
    volatile bool armed;
    volatile int kind; // 0 none, 1 assertion, 2 segv
    std::string expr;
    void* fault_addr;
    Guard() : armed(false), kind(0), fault_addr(nullptr) {}
};
inline Guard& guard()
{
    static Guard g;
    return g;
}
inline void on_signal(int, siginfo_t* si, void*)
{
    Guard& g = guard();
    if(g.armed)
    {
        g.armed = false;
        g.kind = 2;
        g.fault_addr = si->si_addr;
        siglongjmp(g.jb, 2);
    }
    _exit(70);
}
inline void install_handlers()
{
    struct sigaction sa;
    std::memset(&sa, 0, sizeof sa);
    sa.sa_sigaction = on_signal;
    sa.sa_flags = SA_SIGINFO | SA_NODEFER;
    sigaction(SIGSEGV, &sa, nullptr);
    sigaction(SIGBUS, &sa, nullptr);
}
inline void output_limit_exceeded()
{
    Guard& g = guard();
    if(g.armed)
    {
        g.armed = false;
        g.kind = 4;
        siglongjmp(g.jb, 4);
    }
}
[[noreturn]] inline void on_assert(const char* expr)
{
    Guard& g = guard();
    if(g.armed)
    {
        g.armed = false;
        g.kind = 1;
        g.expr = expr ? expr : "";
        siglongjmp(g.jb, 1);
    }
    fprintf(stderr, "sbepp assertion outside guarded region: %s\n", expr);
    _exit(71);
}
} // namespace rt

// ------------------------------------------------------------- effort counter
// Built with -finstrument-functions -DRT_COUNT_CALLS: counts function entries of
// the (header-only, instantiated in this TU) sbepp code and abandons the case
// when a budget is exceeded (kind 3).  Deterministic, no wall clock.
#ifdef RT_COUNT_CALLS
namespace rt
{
static volatile unsigned long long g_calls = 0;
static unsigned long long g_budget = 0;
static Guard* g_guard_ptr = nullptr;
} // namespace rt
extern "C" __attribute__((no_instrument_function)) void __cyg_profile_func_enter(void*, void*)
{
    ++rt::g_calls;
    if(rt::g_budget && rt::g_calls > rt::g_budget && rt::g_guard_ptr && rt::g_guard_ptr->armed)
    {
        rt::g_guard_ptr->armed = false;
        rt::g_guard_ptr->kind = 3;
        rt::g_budget = 0;
        siglongjmp(rt::g_guard_ptr->jb, 3);
    }
}
extern "C" __attribute__((no_instrument_function)) void __cyg_profile_func_exit(void*, void*) {}
#endif

// run `stmt` guarded; afterwards rt::guard().kind tells what happened
#define RT_GUARDED(stmt)                                   \
    do                                                     \
    {                                                      \
        ::rt::Guard& g_ = ::rt::guard();                   \
        g_.kind = 0;                                       \
        g_.armed = true;                                   \
        if(sigsetjmp(g_.jb, 1) == 0) { stmt; }             \
        g_.armed = false;                                  \
    } while(0)
