/* LD_PRELOAD fault injector for C20.
 *
 * Counts "output I/O calls": mkdir/mkdirat on paths under FI_ROOT, write-mode
 * open/openat/fopen on paths under FI_ROOT, write/writev/fwrite on descriptors
 * opened that way.  FI_FAIL_AT=k fails the k-th such call with FI_ERRNO;
 * FI_MODE=short makes a failing write first transfer half of its bytes and
 * fail the *next* write on that descriptor instead.  Every counted call and the
 * firing are appended to FI_LOG.
 */
#define _GNU_SOURCE
#include <dlfcn.h>
#include <errno.h>
#include <fcntl.h>
#include <stdarg.h>
#include <stdio.h>
#include <stdlib.h>
#include <string.h>
#include <sys/stat.h>
#include <sys/types.h>
#include <sys/uio.h>
#include <unistd.h>

#define MAXFD 4096
static char tracked[MAXFD];
static char poisoned[MAXFD];
static long counter;
static long fail_at = -1;
static int fail_errno = 28;
static int mode_short;
static const char *root;
static size_t root_len;
static int log_fd = -1;
static int inited;

static ssize_t (*real_write)(int, const void *, size_t);
static ssize_t (*real_writev)(int, const struct iovec *, int);
static int (*real_open)(const char *, int, ...);
static int (*real_open64)(const char *, int, ...);
static int (*real_openat)(int, const char *, int, ...);
static int (*real_openat64)(int, const char *, int, ...);
static FILE *(*real_fopen)(const char *, const char *);
static FILE *(*real_fopen64)(const char *, const char *);
static int (*real_mkdir)(const char *, mode_t);
static int (*real_mkdirat)(int, const char *, mode_t);
static int (*real_close)(int);
static int (*real_fclose)(FILE *);
static size_t (*real_fwrite)(const void *, size_t, size_t, FILE *);
static int (*real_rename)(const char *, const char *);
static int (*real_renameat)(int, const char *, int, const char *);
static int (*real_renameat2)(int, const char *, int, const char *, unsigned int);
static int (*real_link)(const char *, const char *);
static int (*real_linkat)(int, const char *, int, const char *, int);

static void init(void)
{
    if (inited) return;
    inited = 1;
    real_write = dlsym(RTLD_NEXT, "write");
    real_writev = dlsym(RTLD_NEXT, "writev");
    real_open = dlsym(RTLD_NEXT, "open");
    real_open64 = dlsym(RTLD_NEXT, "open64");
    real_openat = dlsym(RTLD_NEXT, "openat");
    real_openat64 = dlsym(RTLD_NEXT, "openat64");
    real_fopen = dlsym(RTLD_NEXT, "fopen");
    real_fopen64 = dlsym(RTLD_NEXT, "fopen64");
    real_mkdir = dlsym(RTLD_NEXT, "mkdir");
    real_mkdirat = dlsym(RTLD_NEXT, "mkdirat");
    real_close = dlsym(RTLD_NEXT, "close");
    real_fclose = dlsym(RTLD_NEXT, "fclose");
    real_fwrite = dlsym(RTLD_NEXT, "fwrite");
    real_rename = dlsym(RTLD_NEXT, "rename");
    real_renameat = dlsym(RTLD_NEXT, "renameat");
    real_renameat2 = dlsym(RTLD_NEXT, "renameat2");
    real_link = dlsym(RTLD_NEXT, "link");
    real_linkat = dlsym(RTLD_NEXT, "linkat");
    const char *s;
    if ((s = getenv("FI_FAIL_AT"))) fail_at = atol(s);
    if ((s = getenv("FI_ERRNO"))) fail_errno = atoi(s);
    if ((s = getenv("FI_MODE"))) mode_short = strcmp(s, "short") == 0;
    root = getenv("FI_ROOT");
    root_len = root ? strlen(root) : 0;
    if ((s = getenv("FI_LOG")))
        log_fd = real_open(s, O_WRONLY | O_CREAT | O_APPEND | O_CLOEXEC, 0644);
}

static void logline(const char *kind, const char *what, long n, int fired)
{
    if (log_fd < 0) return;
    char buf[1200];
    int len = snprintf(buf, sizeof buf, "%s %ld %s %s\n", fired ? "FIRED" : "CALL", n, kind, what ? what : "-");
    if (len > 0) real_write(log_fd, buf, (size_t)len);
}

static int under_root(const char *path)
{
    if (!root || !path) return 0;
    return strncmp(path, root, root_len) == 0;
}

/* returns 1 when this counted call must fail */
static int tick(const char *kind, const char *what)
{
    counter++;
    int fire = (counter == fail_at);
    logline(kind, what, counter, fire);
    return fire;
}

static int is_write_flags(int flags)
{
    int acc = flags & O_ACCMODE;
    return acc == O_WRONLY || acc == O_RDWR || (flags & O_CREAT);
}

static void track(int fd)
{
    if (fd >= 0 && fd < MAXFD) { tracked[fd] = 1; poisoned[fd] = 0; }
}

int mkdir(const char *path, mode_t m)
{
    init();
    if (under_root(path) && tick("mkdir", path)) { errno = fail_errno; return -1; }
    return real_mkdir(path, m);
}

int mkdirat(int dfd, const char *path, mode_t m)
{
    init();
    if (under_root(path) && tick("mkdirat", path)) { errno = fail_errno; return -1; }
    return real_mkdirat(dfd, path, m);
}

/* calls that put a finished file under its final name (write-to-temporary-then-rename schemes): output I/O as well */
int rename(const char *o, const char *n)
{
    init();
    if ((under_root(n) || under_root(o)) && tick("rename", n)) { errno = fail_errno; return -1; }
    return real_rename(o, n);
}

int renameat(int od, const char *o, int nd, const char *n)
{
    init();
    if ((under_root(n) || under_root(o)) && tick("rename", n)) { errno = fail_errno; return -1; }
    return real_renameat(od, o, nd, n);
}

int renameat2(int od, const char *o, int nd, const char *n, unsigned int fl)
{
    init();
    if ((under_root(n) || under_root(o)) && tick("rename", n)) { errno = fail_errno; return -1; }
    if (!real_renameat2) { errno = ENOSYS; return -1; }
    return real_renameat2(od, o, nd, n, fl);
}

int link(const char *o, const char *n)
{
    init();
    if ((under_root(n) || under_root(o)) && tick("link", n)) { errno = fail_errno; return -1; }
    return real_link(o, n);
}

int linkat(int od, const char *o, int nd, const char *n, int fl)
{
    init();
    if ((under_root(n) || under_root(o)) && tick("link", n)) { errno = fail_errno; return -1; }
    return real_linkat(od, o, nd, n, fl);
}

#define OPEN_BODY(REAL, ...)                                              \
    init();                                                               \
    mode_t mode = 0;                                                      \
    if (flags & (O_CREAT | O_TMPFILE)) {                                  \
        va_list ap; va_start(ap, flags); mode = va_arg(ap, mode_t); va_end(ap); \
    }                                                                     \
    int w = under_root(path) && is_write_flags(flags);                    \
    if (w && tick("open", path)) { errno = fail_errno; return -1; }       \
    int fd = REAL(__VA_ARGS__, flags, mode);                              \
    if (w) track(fd);                                                     \
    return fd;

int open(const char *path, int flags, ...) { OPEN_BODY(real_open, path) }
int open64(const char *path, int flags, ...) { OPEN_BODY(real_open64, path) }
int openat(int dfd, const char *path, int flags, ...) { OPEN_BODY(real_openat, dfd, path) }
int openat64(int dfd, const char *path, int flags, ...) { OPEN_BODY(real_openat64, dfd, path) }

static FILE *fopen_common(int is64, const char *path, const char *m)
{
    init();
    FILE *(*real)(const char *, const char *) = is64 ? real_fopen64 : real_fopen;
    int w = under_root(path) && m && (strchr(m, 'w') || strchr(m, 'a') || strchr(m, '+'));
    if (w && tick("fopen", path)) { errno = fail_errno; return NULL; }
    FILE *f = real(path, m);
    if (w && f) track(fileno(f));
    return f;
}

FILE *fopen(const char *path, const char *m) { return fopen_common(0, path, m); }
FILE *fopen64(const char *path, const char *m) { return fopen_common(1, path, m); }

static int fd_tracked(int fd) { return fd >= 0 && fd < MAXFD && tracked[fd]; }

ssize_t write(int fd, const void *buf, size_t n)
{
    init();
    if (fd_tracked(fd)) {
        if (poisoned[fd]) { errno = fail_errno; return -1; }
        char w[32]; snprintf(w, sizeof w, "fd=%d,n=%zu", fd, n);
        if (tick("write", w)) {
            if (mode_short && n > 1) {
                poisoned[fd] = 1;
                return real_write(fd, buf, n / 2);
            }
            errno = fail_errno;
            return -1;
        }
    }
    return real_write(fd, buf, n);
}

ssize_t writev(int fd, const struct iovec *iov, int cnt)
{
    init();
    if (fd_tracked(fd)) {
        if (poisoned[fd]) { errno = fail_errno; return -1; }
        size_t total = 0;
        for (int i = 0; i < cnt; i++) total += iov[i].iov_len;
        char w[32]; snprintf(w, sizeof w, "fd=%d,n=%zu", fd, total);
        if (tick("writev", w)) {
            if (mode_short && cnt > 0 && iov[0].iov_len > 1) {
                poisoned[fd] = 1;
                return real_write(fd, iov[0].iov_base, iov[0].iov_len / 2);
            }
            errno = fail_errno;
            return -1;
        }
    }
    return real_writev(fd, iov, cnt);
}

size_t fwrite(const void *p, size_t sz, size_t n, FILE *f)
{
    init();
    int fd = f ? fileno(f) : -1;
    if (fd_tracked(fd)) {
        char w[32]; snprintf(w, sizeof w, "fd=%d,n=%zu", fd, sz * n);
        if (tick("fwrite", w)) { errno = fail_errno; return 0; }
    }
    return real_fwrite(p, sz, n, f);
}

int close(int fd)
{
    init();
    if (fd >= 0 && fd < MAXFD) { tracked[fd] = 0; poisoned[fd] = 0; }
    return real_close(fd);
}

int fclose(FILE *f)
{
    init();
    int fd = f ? fileno(f) : -1;
    if (fd >= 0 && fd < MAXFD) { tracked[fd] = 0; poisoned[fd] = 0; }
    return real_fclose(f);
}
