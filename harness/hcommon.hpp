// Shared helpers for the library-level harnesses (protocol: see vlib/libharness.py).
#pragma once
#include <csetjmp>
#include <cstdint>
#include <cstdio>
#include <cstdlib>
#include <cstring>
#include <map>
#include <set>
#include <string>
#include <vector>

namespace hc
{
struct Options
{
    long seed = 1;
    bool thorough = false;
    std::set<std::string> known;
    std::string replay; // empty = search
};

inline Options parse_args(int argc, char** argv)
{
    Options o;
    for(int i = 1; i < argc; i++)
    {
        std::string a = argv[i];
        auto next = [&]() -> std::string { return (i + 1 < argc) ? argv[++i] : ""; };
        if(a == "--seed") o.seed = atol(next().c_str());
        else if(a == "--tier") o.thorough = (next() == "thorough");
        else if(a == "--known")
        {
            std::string s = next();
            size_t pos = 0;
            while(pos <= s.size())
            {
                size_t e = s.find(';', pos);
                if(e == std::string::npos) e = s.size();
                if(e > pos) o.known.insert(s.substr(pos, e - pos));
                pos = e + 1;
            }
        }
        else if(a == "--replay") o.replay = next();
    }
    if(o.seed == 0) o.seed = 1;
    return o;
}

struct Report
{
    long evaluations = 0;
    std::set<uint64_t> nontrivial;
    std::map<std::string, long> classes;
    std::map<std::string, long> knownhits;
    // signature -> smallest (case, what)
    std::map<std::string, std::pair<std::string, std::string>> fails;
    std::vector<std::string> samples;
    const Options* opt = nullptr;
    int exhaustive = -1;

    static uint64_t hash(const std::string& s)
    {
        uint64_t h = 1469598103934665603ull;
        for(unsigned char c : s) { h ^= c; h *= 1099511628211ull; }
        return h;
    }
    void eval() { evaluations++; }
    void nontriv(const std::string& key) { nontrivial.insert(hash(key)); }
    void nontriv(uint64_t key) { nontrivial.insert(key * 0x9E3779B97F4A7C15ull + 1); }
    void cls(const std::string& c, long n = 1) { classes[c] += n; }
    void sample(const std::string& s, size_t limit = 8) { if(samples.size() < limit) samples.push_back(s); }
    // returns true when the failure is a *new* (unknown) violation
    bool fail(const std::string& sig, const std::string& kase, const std::string& what)
    {
        if(opt && opt->known.count(sig)) { knownhits[sig]++; return false; }
        auto it = fails.find(sig);
        if(it == fails.end() || kase.size() < it->second.first.size()) fails[sig] = {kase, what};
        return true;
    }
    static std::string one_line(std::string s)
    {
        for(auto& c : s) if(c == '\n' || c == '\t' || c == '\r') c = ' ';
        return s;
    }
    int finish()
    {
        printf("STAT evaluations %ld\n", evaluations);
        printf("STAT nontrivial %zu\n", nontrivial.size());
        for(auto& c : classes) printf("CLASS %s %ld\n", c.first.c_str(), c.second);
        for(auto& s : samples) printf("SAMPLE %s\n", one_line(s).c_str());
        for(auto& k : knownhits) printf("KNOWNHIT %ld %s\n", k.second, k.first.c_str());
        if(exhaustive >= 0) printf("EXHAUSTIVE %d\n", exhaustive);
        for(auto& f : fails)
            printf("FAIL %s\t%s\t%s\n", one_line(f.first).c_str(), one_line(f.second.first).c_str(), one_line(f.second.second).c_str());
        fflush(stdout);
        return fails.empty() ? 0 : 1;
    }
};

// The case about to run; printed so that a sanitizer abort can be attributed.
inline void current(const std::string& kase)
{
    static long n;
    if((++n & 0x3ff) == 1) { printf("CURRENT %s\n", Report::one_line(kase).c_str()); fflush(stdout); }
}
inline void current_always(const std::string& kase)
{
    printf("CURRENT %s\n", Report::one_line(kase).c_str());
    fflush(stdout);
}

// Assertion handler support for SBEPP_ENABLE_ASSERTS_WITH_HANDLER builds:
//   if(HC_GUARDED(stmt)) -> true when the handler fired (stmt abandoned)
struct AssertState
{
    sigjmp_buf jb;
    bool armed = false;
    bool fired = false;
    std::string expr;
};
inline AssertState& astate() { static AssertState s; return s; }
[[noreturn]] inline void on_assert(const char* expr, const char* /*function*/, const char* /*file*/, long /*line*/)
{
    auto& s = astate();
    s.fired = true;
    s.expr = expr ? expr : "";
    if(s.armed) { s.armed = false; siglongjmp(s.jb, 1); }
    fprintf(stderr, "unexpected sbepp assertion outside a guarded region: %s\n", expr);
    abort();
}
} // namespace hc

#define HC_GUARDED(stmt)                                                        \
    ([&]() -> bool {                                                            \
        auto& s_ = ::hc::astate();                                              \
        s_.fired = false;                                                       \
        s_.armed = true;                                                        \
        if(sigsetjmp(s_.jb, 0) == 0) { stmt; }                                  \
        s_.armed = false;                                                       \
        return s_.fired;                                                        \
    }())

// Put HC_DEFINE_ASSERT_HANDLER at namespace scope of a harness built with
// -DSBEPP_ENABLE_ASSERTS_WITH_HANDLER (after including sbepp.hpp).
#define HC_DEFINE_ASSERT_HANDLER                                                              \
    namespace sbepp                                                                           \
    {                                                                                         \
    [[noreturn]] void assertion_failed(char const* e, char const* f, char const* fl, long l)   \
    {                                                                                         \
        ::hc::on_assert(e, f, fl, l);                                                         \
    }                                                                                         \
    }
