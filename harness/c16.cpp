// C16 - optional/required scalars: null, range, ordering and SBE defaults.
//
// The type table (built-in types, schema-defined types without attributes, schema-defined
// types with Hypothesis-generated explicit minValue/maxValue/nullValue) comes from the
// generated file c16_matrix.inc (written by vlib/checks/c16.py next to the headers the
// tree's sbeppc produced).  Per *type* only thin "observe" functions are instantiated; the
// reference definition and all judging is per primitive type.
//
//   -DC16_PROBE            no rapidcheck, no main: used with -fsyntax-only to find out which
//                          operator groups compile for which (primitive, presence) group
//   -DC16_LVL_<prim>_<req|opt>=N   0 everything, 1 without < <= > >= <=>, 2 also without == !=,
//                          3 only the static values, 4 nothing
//
// replay:  --replay 'type=<name> kind=pair a=<hex> b=<hex> d=<hex>' | 'type=<name> kind=statics'
//          | 'type=<name> kind=ctor'
#include <sbepp/sbepp.hpp>

#include "hcommon.hpp"

#include <algorithm>
#include <cinttypes>
#include <cmath>
#include <cstdint>
#include <cstring>
#include <limits>
#include <string>
#include <type_traits>
#include <utility>
#include <vector>

#ifndef C16_PROBE
#    include <rapidcheck.h>
#endif

namespace c16
{
// ---------------------------------------------------------------------------------------------
// bit-level helpers (independent of the library)

template<class U, bool FP = std::is_floating_point<U>::value>
struct Bits;

template<class U>
struct Bits<U, false>
{
    static uint64_t to(U v)
    {
        return std::is_signed<U>::value ? static_cast<uint64_t>(static_cast<int64_t>(v)) : static_cast<uint64_t>(v);
    }
    static U from(uint64_t b) { return static_cast<U>(b); }
    static bool nan(U) { return false; }
    static std::string text(U v)
    {
        char buf[64];
        if(std::is_signed<U>::value) snprintf(buf, sizeof buf, "%lld", static_cast<long long>(v));
        else snprintf(buf, sizeof buf, "%llu", static_cast<unsigned long long>(v));
        return buf;
    }
};

template<>
struct Bits<float, true>
{
    static uint64_t to(float v) { uint32_t b; memcpy(&b, &v, 4); return b; }
    static float from(uint64_t b) { uint32_t x = static_cast<uint32_t>(b); float v; memcpy(&v, &x, 4); return v; }
    static bool nan(float v) { return v != v; }
    static std::string text(float v) { char buf[64]; snprintf(buf, sizeof buf, "%.9g", static_cast<double>(v)); return buf; }
};

template<>
struct Bits<double, true>
{
    static uint64_t to(double v) { uint64_t b; memcpy(&b, &v, 8); return b; }
    static double from(uint64_t b) { double v; memcpy(&v, &b, 8); return v; }
    static bool nan(double v) { return v != v; }
    static std::string text(double v) { char buf[64]; snprintf(buf, sizeof buf, "%.17g", v); return buf; }
};

template<class U>
bool same(U x, U y)
{
    if(Bits<U>::nan(x) || Bits<U>::nan(y)) return Bits<U>::nan(x) && Bits<U>::nan(y);
    return Bits<U>::to(x) == Bits<U>::to(y);
}

template<class U>
std::string show(U v)
{
    char buf[32];
    snprintf(buf, sizeof buf, "0x%" PRIx64, Bits<U>::to(v));
    return Bits<U>::text(v) + "(" + buf + ")";
}

inline std::string hex(uint64_t v)
{
    char buf[32];
    snprintf(buf, sizeof buf, "0x%" PRIx64, v);
    return buf;
}

// ---------------------------------------------------------------------------------------------
// what is observed on the library types

template<class U>
struct Obs
{
    U deref_c{}, deref_m{}, value{}, value_or_{}, after_assign{};
    int has_value = -1, as_bool = -1, ctx_bool = -1, in_range = -1;
    int eq = -1, ne = -1, lt = -1, le = -1, gt = -1, ge = -1;
    int tw = -9; // -9 not evaluated; -1 less, 0 equal/equivalent, 1 greater, 2 unordered
    bool unary = false;
};

template<class U>
struct Statics
{
    U min{}, max{}, null{};       // T::xxx_value()
    U tmin{}, tmax{}, tnull{};    // sbepp::type_traits<traits_tag_t<T>>::xxx_value()
    U bmin{}, bmax{}, bnull{};    // the built-in twin (schema types without attributes only)
    bool has_twin = false;
};

template<class U>
struct CtorObs
{
    U dflt{}, n_direct{}, n_copy{}, n_assign{}, dflt_value_or{};
    int dflt_has = -1, dflt_bool = -1, n_has = -1, n_bool = -1;
    int d_eq_n = -1, d_ne_n = -1; // level < 2
    int d_lt_n = -1, d_le_n = -1, d_gt_n = -1, d_ge_n = -1; // level < 1
};

struct Nop
{
    template<class... A>
    static void run(A&&...)
    {
    }
};

// Sel<On, Impl, Args...>::run forwards to Impl::run when On, else does nothing and does
// not instantiate anything of Impl.
template<bool On, class Impl, class... A>
struct Sel
{
    static void run(A... a) { Impl::run(a...); }
};
template<class Impl, class... A>
struct Sel<false, Impl, A...>
{
    static void run(A...) {}
};

template<class T, class U, bool Opt>
struct UnaryOps;

template<class T, class U>
struct UnaryOps<T, U, true>
{
    static void run(U a, U d, Obs<U>& o)
    {
        T x(a);
        const T cx(a);
        o.deref_c = *cx;
        o.deref_m = *x;
        o.value = cx.value();
        o.has_value = cx.has_value();
        o.as_bool = static_cast<bool>(cx);
        o.ctx_bool = cx ? 1 : 0;
        o.value_or_ = cx.value_or(d);
        o.in_range = cx.in_range();
        *x = d;
        o.after_assign = x.value();
        o.unary = true;
    }
};

template<class T, class U>
struct UnaryOps<T, U, false>
{
    static void run(U a, U d, Obs<U>& o)
    {
        T x(a);
        const T cx(a);
        o.deref_c = *cx;
        o.deref_m = *x;
        o.value = cx.value();
        o.in_range = cx.in_range();
        *x = d;
        o.after_assign = x.value();
        o.unary = true;
    }
};

template<class T, class U>
struct EqOps
{
    static void run(U a, U b, Obs<U>& o)
    {
        const T x(a), y(b);
        o.eq = (x == y);
        o.ne = (x != y);
    }
};

template<class T, class U>
struct RelOps
{
    static void run(U a, U b, Obs<U>& o)
    {
        const T x(a), y(b);
        o.lt = (x < y);
        o.le = (x <= y);
        o.gt = (x > y);
        o.ge = (x >= y);
#if SBEPP_HAS_THREE_WAY_COMPARISON
        const auto r = (x <=> y);
        o.tw = (r < 0) ? -1 : (r > 0) ? 1 : (r == 0) ? 0 : 2;
#endif
    }
};

template<class T, class U, bool Opt, int Level>
struct CtorOps;

template<class T, class U, int Level>
struct CtorOps<T, U, false, Level>
{
    static void run(U, CtorObs<U>& o)
    {
        T d;
        o.dflt = *d;
        T e{};
        o.n_direct = *e; // value-initialised
    }
};

template<class T, class U, bool On>
struct CtorEq
{
    static void run(const T& d, const T& n, CtorObs<U>& o)
    {
        o.d_eq_n = (d == n);
        o.d_ne_n = (d != n);
    }
};
template<class T, class U>
struct CtorEq<T, U, false> : Nop
{
};
template<class T, class U, bool On>
struct CtorRel
{
    static void run(const T& d, const T& n, CtorObs<U>& o)
    {
        o.d_lt_n = (d < n);
        o.d_le_n = (d <= n);
        o.d_gt_n = (d > n);
        o.d_ge_n = (d >= n);
    }
};
template<class T, class U>
struct CtorRel<T, U, false> : Nop
{
};

template<class T, class U, int Level>
struct CtorOps<T, U, true, Level>
{
    static void run(U dv, CtorObs<U>& o)
    {
        T d;
        const T n(::sbepp::nullopt);
        T n2 = ::sbepp::nullopt;
        T n3(dv);
        n3 = ::sbepp::nullopt;
        o.dflt = *d;
        o.n_direct = *n;
        o.n_copy = *n2;
        o.n_assign = *n3;
        o.dflt_has = d.has_value();
        o.dflt_bool = static_cast<bool>(d);
        o.n_has = n.has_value();
        o.n_bool = static_cast<bool>(n);
        o.dflt_value_or = d.value_or(dv);
        CtorEq<T, U, (Level < 2)>::run(d, n, o);
        CtorRel<T, U, (Level < 1)>::run(d, n, o);
    }
};

template<class T, class Twin, class U, bool Opt>
struct StaticsOps;

template<class T, class Twin, class U>
struct StaticsOps<T, Twin, U, false>
{
    static void run(Statics<U>& s)
    {
        static_assert(std::is_same<typename T::value_type, U>::value, "value_type is the primitive's C++ type");
        using TT = ::sbepp::type_traits<::sbepp::traits_tag_t<T>>;
        constexpr U mn = T::min_value();
        constexpr U mx = T::max_value();
        constexpr U tmn = TT::min_value();
        constexpr U tmx = TT::max_value();
        s.min = mn; s.max = mx; s.tmin = tmn; s.tmax = tmx;
        s.has_twin = !std::is_same<T, Twin>::value;
        s.bmin = Twin::min_value();
        s.bmax = Twin::max_value();
    }
};

template<class T, class Twin, class U>
struct StaticsOps<T, Twin, U, true>
{
    static void run(Statics<U>& s)
    {
        static_assert(std::is_same<typename T::value_type, U>::value, "value_type is the primitive's C++ type");
        using TT = ::sbepp::type_traits<::sbepp::traits_tag_t<T>>;
        constexpr U mn = T::min_value();
        constexpr U mx = T::max_value();
        constexpr U nl = T::null_value();
        constexpr U tmn = TT::min_value();
        constexpr U tmx = TT::max_value();
        constexpr U tnl = TT::null_value();
        s.min = mn; s.max = mx; s.null = nl; s.tmin = tmn; s.tmax = tmx; s.tnull = tnl;
        s.has_twin = !std::is_same<T, Twin>::value;
        s.bmin = Twin::min_value();
        s.bmax = Twin::max_value();
        s.bnull = Twin::null_value();
    }
};

// ---------------------------------------------------------------------------------------------
// table

template<class U>
struct Row
{
    std::string name;  // unique
    std::string kind;  // builtin | default | explicit
    std::string prim;  // SBE primitive name
    bool opt = false;
    int level = 0;
    // expected static values (from the SBE table / the XML text, computed in Python)
    uint64_t emin = 0, emax = 0, enull = 0;
    bool emin_nan = false, emax_nan = false, enull_nan = false;
    std::string lmin, lmax, lnull; // lexical class of the XML attribute ("default" when absent)
    void (*statics)(Statics<U>&) = nullptr;
    void (*unary)(U, U, Obs<U>&) = nullptr;
    void (*eq)(U, U, Obs<U>&) = nullptr;
    void (*rel)(U, U, Obs<U>&) = nullptr;
    void (*ctor)(U, CtorObs<U>&) = nullptr;
    // filled from the type's own statics before ops are judged
    U min{}, max{}, null{};
};

template<class U>
struct Table
{
    static std::vector<Row<U>>& rows()
    {
        static std::vector<Row<U>> r;
        return r;
    }
};

template<class U>
struct Fns
{
    bool opt;
    int level;
    void (*statics)(Statics<U>&);
    void (*unary)(U, U, Obs<U>&);
    void (*eq)(U, U, Obs<U>&);
    void (*rel)(U, U, Obs<U>&);
    void (*ctor)(U, CtorObs<U>&);
};

// the only per-row instantiation besides the observe functions themselves: a constant-initialised
// table of function pointers (no code is generated for registering a row)
template<class T, class Twin, class U, bool Opt, int Level>
struct Reg
{
    static const Fns<U> value;
};
template<class T, class Twin, class U, bool Opt, int Level>
const Fns<U> Reg<T, Twin, U, Opt, Level>::value = {
    Opt,
    Level,
    &Sel<(Level < 4), StaticsOps<T, Twin, U, Opt>, Statics<U>&>::run,
    &Sel<(Level < 3), UnaryOps<T, U, Opt>, U, U, Obs<U>&>::run,
    &Sel<(Level < 2), EqOps<T, U>, U, U, Obs<U>&>::run,
    &Sel<(Level < 1), RelOps<T, U>, U, U, Obs<U>&>::run,
    &Sel<(Level < 3), CtorOps<T, U, Opt, Level>, U, CtorObs<U>&>::run};

template<class U> struct PrimIndex;
template<> struct PrimIndex<char> { enum { value = 0 }; };
template<> struct PrimIndex<std::int8_t> { enum { value = 1 }; };
template<> struct PrimIndex<std::uint8_t> { enum { value = 2 }; };
template<> struct PrimIndex<std::int16_t> { enum { value = 3 }; };
template<> struct PrimIndex<std::uint16_t> { enum { value = 4 }; };
template<> struct PrimIndex<std::int32_t> { enum { value = 5 }; };
template<> struct PrimIndex<std::uint32_t> { enum { value = 6 }; };
template<> struct PrimIndex<std::int64_t> { enum { value = 7 }; };
template<> struct PrimIndex<std::uint64_t> { enum { value = 8 }; };
template<> struct PrimIndex<float> { enum { value = 9 }; };
template<> struct PrimIndex<double> { enum { value = 10 }; };

struct RowInit
{
    int prim_index;
    const void* fns; // const Fns<U>*
    const char *name, *kind, *prim;
    uint64_t emin, emax, enull;
    unsigned nanmask;
    const char *lmin, *lmax, *lnull;
};

template<class U>
bool add_row(const RowInit& i)
{
    if(i.prim_index != PrimIndex<U>::value) return false;
    const Fns<U>& f = *static_cast<const Fns<U>*>(i.fns);
    Row<U> r;
    r.name = i.name; r.kind = i.kind; r.prim = i.prim; r.opt = f.opt; r.level = f.level;
    r.emin = i.emin; r.emax = i.emax; r.enull = i.enull;
    r.emin_nan = i.nanmask & 1; r.emax_nan = i.nanmask & 2; r.enull_nan = i.nanmask & 4;
    r.lmin = i.lmin; r.lmax = i.lmax; r.lnull = i.lnull;
    r.statics = f.statics; r.unary = f.unary; r.eq = f.eq; r.rel = f.rel; r.ctor = f.ctor;
    Table<U>::rows().push_back(r);
    return true;
}
} // namespace c16

#include "c16_matrix.inc" // generated: #includes of the generated type headers, level macros, C16_ROWS(X)

namespace c16
{
#define C16_REG_ROW(T, TWIN, U, OPT, GID, NAME, KIND, PRIM, EMIN, EMAX, ENULL, NANMASK, LMIN, LMAX, LNULL) \
    {::c16::PrimIndex<U>::value, &::c16::Reg<T, TWIN, U, OPT, C16_LVL_##GID>::value, NAME, KIND, PRIM, EMIN, EMAX, ENULL, NANMASK, LMIN, LMAX, LNULL},

static const RowInit kRowInit[] = {C16_ROWS(C16_REG_ROW)};

void register_rows()
{
    for(const RowInit& i : kRowInit)
    {
        add_row<char>(i) || add_row<std::int8_t>(i) || add_row<std::uint8_t>(i) || add_row<std::int16_t>(i) || add_row<std::uint16_t>(i)
            || add_row<std::int32_t>(i) || add_row<std::uint32_t>(i) || add_row<std::int64_t>(i) || add_row<std::uint64_t>(i)
            || add_row<float>(i) || add_row<double>(i);
    }
}
} // namespace c16

#ifndef C16_PROBE
namespace c16
{
// ---------------------------------------------------------------------------------------------
// reference definition (sbepp.hpp doxygen of required_base / optional_base)

struct Mismatch
{
    std::string sig, what;
};

template<class U>
bool ref_null(const Row<U>& r, U v)
{
    // null <=> equals the null value; for a NaN null value: "is NaN"
    return Bits<U>::nan(r.null) ? Bits<U>::nan(v) : (v == r.null);
}

template<class U>
int cmp3(U a, U b)
{
    if(Bits<U>::nan(a) || Bits<U>::nan(b)) return 2;
    return (a < b) ? -1 : (a > b) ? 1 : 0;
}

template<class U>
std::string sig_of(const Row<U>& r, const char* group)
{
    std::string s = r.opt ? "opt." : "req.";
    s += group;
    if(r.opt && Bits<U>::nan(r.null)) s += "[nan-null]";
    return s;
}

template<class U>
std::string pair_case(const Row<U>& r, U a, U b, U d)
{
    return "type=" + r.name + " kind=pair a=" + hex(Bits<U>::to(a)) + " b=" + hex(Bits<U>::to(b)) + " d=" + hex(Bits<U>::to(d));
}

template<class U>
std::string ctx(const Row<U>& r)
{
    std::string s = r.name + " (" + r.prim + (r.opt ? " optional" : " required") + ", " + r.kind + "; min=" + show(r.min) + " max=" + show(r.max);
    if(r.opt) s += " null=" + show(r.null);
    return s + ")";
}

// `where` and `sig` are callables: strings are only built for a mismatch (the hot path builds none)
template<class S, class W>
void expect_flag(std::vector<Mismatch>& out, const S& sig, const W& where, const char* op, int got, bool want)
{
    if(got < 0) return; // not evaluated at this level
    if((got != 0) != want)
        out.push_back({sig(), where() + ": " + op + " is " + (got ? "true" : "false") + ", reference says " + (want ? "true" : "false")});
}

template<class U, class S, class W>
void expect_val(std::vector<Mismatch>& out, const S& sig, const W& where, const char* op, U got, U want)
{
    if(!same(got, want)) out.push_back({sig(), where() + ": " + op + " is " + show(got) + ", reference says " + show(want)});
}

template<class U>
void judge_pair(const Row<U>& r, U a, U b, U d, std::vector<Mismatch>& out)
{
    Obs<U> o;
    r.unary(a, d, o);
    r.eq(a, b, o);
    r.rel(a, b, o);
    auto where = [&] { return ctx(r) + " a=" + show(a) + " b=" + show(b) + " d=" + show(d); };
    auto acc = [&] { return sig_of(r, "access"); };
    auto rng = [&] { return sig_of(r, "in_range"); };
    auto nt = [&] { return sig_of(r, "null-test"); };
    auto se = [&] { return sig_of(r, "equality"); };
    auto so = [&] { return sig_of(r, "ordering"); };
    const bool na = r.opt && ref_null(r, a), nb = r.opt && ref_null(r, b);
    if(o.unary)
    {
        expect_val(out, acc, where, "*const_a", o.deref_c, a);
        expect_val(out, acc, where, "*a", o.deref_m, a);
        expect_val(out, acc, where, "a.value()", o.value, a);
        expect_val(out, acc, where, "(*a = d, a.value())", o.after_assign, d);
        expect_flag(out, rng, where, "a.in_range()", o.in_range, (r.min <= a) && (a <= r.max));
        if(r.opt)
        {
            expect_flag(out, nt, where, "a.has_value()", o.has_value, !na);
            expect_flag(out, nt, where, "static_cast<bool>(a)", o.as_bool, !na);
            expect_flag(out, nt, where, "(a ? 1 : 0)", o.ctx_bool, !na);
            expect_val(out, nt, where, "a.value_or(d)", o.value_or_, na ? d : a);
        }
    }
    bool eq, lt, le, gt, ge;
    int tw;
    if(na || nb)
    {
        eq = na && nb;
        lt = na && !nb;
        le = na;
        gt = nb && !na;
        ge = nb;
        tw = (na && nb) ? 0 : na ? -1 : 1;
    }
    else
    {
        eq = (a == b);
        lt = (a < b);
        le = (a <= b);
        gt = (a > b);
        ge = (a >= b);
        tw = cmp3(a, b);
    }
    expect_flag(out, se, where, "a == b", o.eq, eq);
    expect_flag(out, se, where, "a != b", o.ne, !eq);
    expect_flag(out, so, where, "a < b", o.lt, lt);
    expect_flag(out, so, where, "a <= b", o.le, le);
    expect_flag(out, so, where, "a > b", o.gt, gt);
    expect_flag(out, so, where, "a >= b", o.ge, ge);
    if(o.tw != -9 && o.tw != tw)
    {
        static const char* nm[] = {"less", "equal", "greater", "unordered"};
        out.push_back({so(), where() + ": a <=> b is " + nm[o.tw + 1] + ", reference says " + nm[tw + 1]});
    }
}

template<class U>
const char* family(const Row<U>&)
{
    return std::is_floating_point<U>::value ? "fp" : "int"; // char attributes are rendered by the integer code path
}

template<class U>
void judge_static_role(
    const Row<U>& r, const char* role, U got, uint64_t ebits, bool enan, const std::string& lex, U traits, bool has_twin, U twin,
    std::vector<Mismatch>& out)
{
    const std::string pp = r.prim + ":" + (r.opt ? "opt" : "req");
    const bool ok = enan ? Bits<U>::nan(got) : (!Bits<U>::nan(got) && Bits<U>::to(got) == ebits);
    if(!ok)
    {
        std::string sig;
        if(r.kind == "explicit" && lex != "default") sig = std::string("static.explicit:") + lex + ":" + family(r);
        else sig = std::string("static.") + role + ":" + (r.kind == "builtin" ? "builtin:" : "default:") + pp;
        const std::string want = enan ? std::string("NaN") : show(Bits<U>::from(ebits));
        out.push_back({sig, r.name + " (" + pp + ", " + r.kind + ", attribute " + lex + "): " + role + "_value() is " + show(got) + ", expected " + want});
    }
    if(!same(traits, got))
        out.push_back({std::string("traits.") + role + "_value:" + r.kind, r.name + ": type_traits::" + role + "_value() is " + show(traits) + " but the type's own is " + show(got)});
    if(has_twin && !same(twin, got))
        out.push_back({std::string("static.") + role + ":default-vs-builtin:" + pp, r.name + ": " + role + "_value() is " + show(got) + " but the built-in type of this primitive has " + show(twin)});
}

template<class U>
void judge_statics(const Row<U>& r, std::vector<Mismatch>& out)
{
    Statics<U> s;
    r.statics(s);
    judge_static_role(r, "min", s.min, r.emin, r.emin_nan, r.lmin, s.tmin, s.has_twin, s.bmin, out);
    judge_static_role(r, "max", s.max, r.emax, r.emax_nan, r.lmax, s.tmax, s.has_twin, s.bmax, out);
    if(r.opt) judge_static_role(r, "null", s.null, r.enull, r.enull_nan, r.lnull, s.tnull, s.has_twin, s.bnull, out);
}

template<class U>
void judge_ctor(const Row<U>& r, U dv, std::vector<Mismatch>& out)
{
    CtorObs<U> c;
    r.ctor(dv, c);
    auto where = [&] { return ctx(r) + " d=" + show(dv); };
    auto rd = [] { return std::string("req.default-ctor"); };
    if(!r.opt)
    {
        expect_val(out, rd, where, "*T() (default-initialised object)", c.dflt, U{});
        expect_val(out, rd, where, "*T{} (value-initialised object)", c.n_direct, U{});
        return;
    }
    auto nt = [&] { return sig_of(r, "null-test"); };
    auto se = [&] { return sig_of(r, "equality"); };
    auto so = [&] { return sig_of(r, "ordering"); };
    // "Constructs null object": the stored value is null by the reference definition
    expect_flag(out, nt, where, "is_null(*T()) (default-constructed)", ref_null(r, c.dflt), true);
    expect_flag(out, nt, where, "is_null(*T(nullopt))", ref_null(r, c.n_direct), true);
    expect_flag(out, nt, where, "is_null(*(T x = nullopt))", ref_null(r, c.n_copy), true);
    expect_flag(out, nt, where, "is_null(*(x = nullopt))", ref_null(r, c.n_assign), true);
    expect_flag(out, nt, where, "T().has_value()", c.dflt_has, false);
    expect_flag(out, nt, where, "bool(T())", c.dflt_bool, false);
    expect_flag(out, nt, where, "T(nullopt).has_value()", c.n_has, false);
    expect_flag(out, nt, where, "bool(T(nullopt))", c.n_bool, false);
    expect_val(out, nt, where, "T().value_or(d)", c.dflt_value_or, dv);
    expect_flag(out, se, where, "T() == T(nullopt)", c.d_eq_n, true);
    expect_flag(out, se, where, "T() != T(nullopt)", c.d_ne_n, false);
    expect_flag(out, so, where, "T() < T(nullopt)", c.d_lt_n, false);
    expect_flag(out, so, where, "T() <= T(nullopt)", c.d_le_n, true);
    expect_flag(out, so, where, "T() > T(nullopt)", c.d_gt_n, false);
    expect_flag(out, so, where, "T() >= T(nullopt)", c.d_ge_n, true);
}

// ---------------------------------------------------------------------------------------------
// search

struct Ctx
{
    hc::Report rep;
    std::vector<uint64_t> nontrivial;
    long n = 0;
    long pair_classes[5] = {0, 0, 0, 0, 0};
    long sampled_prims = 0;
};

template<class U>
U neighbour(U v, int delta, std::true_type /*fp*/)
{
    if(v != v || std::isinf(v)) return v;
    U x = v;
    for(int i = 0; i < (delta < 0 ? -delta : delta); i++)
        x = std::nextafter(x, delta < 0 ? -std::numeric_limits<U>::infinity() : std::numeric_limits<U>::infinity());
    return x;
}
template<class U>
U neighbour(U v, int delta, std::false_type)
{
    return Bits<U>::from(Bits<U>::to(v) + static_cast<uint64_t>(static_cast<int64_t>(delta)));
}

template<class U>
void fp_extras(std::vector<U>& b, std::true_type)
{
    typedef std::numeric_limits<U> L;
    b.push_back(L::quiet_NaN());
    b.push_back(-L::quiet_NaN());
    b.push_back(L::infinity());
    b.push_back(-L::infinity());
    b.push_back(static_cast<U>(-0.0));
    b.push_back(L::denorm_min());
    b.push_back(L::epsilon());
    b.push_back(static_cast<U>(0.5));
}
template<class U>
void fp_extras(std::vector<U>&, std::false_type)
{
}

// {min, max, null, 0, +1, -1, type extremes, NaN, +-inf} + the direct neighbours of min/max/null + the
// values the schema text asked for (they differ from min/max/null when a literal was rendered wrongly)
template<class U>
std::vector<U> boundary_set(const Row<U>& r)
{
    typedef std::numeric_limits<U> L;
    typedef std::integral_constant<bool, std::is_floating_point<U>::value> FP;
    std::vector<U> b;
    const U nullish = r.opt ? r.null : (r.enull_nan ? L::quiet_NaN() : Bits<U>::from(r.enull));
    const U core[] = {r.min, r.max, nullish};
    for(U v : core)
    {
        b.push_back(v);
        b.push_back(neighbour(v, 1, FP()));
        b.push_back(neighbour(v, -1, FP()));
    }
    b.push_back(U{});
    b.push_back(static_cast<U>(1));
    b.push_back(static_cast<U>(-1));
    b.push_back(L::min());
    b.push_back(L::max());
    b.push_back(L::lowest());
    if(!r.emin_nan) b.push_back(Bits<U>::from(r.emin));
    if(!r.emax_nan) b.push_back(Bits<U>::from(r.emax));
    if(!r.enull_nan) b.push_back(Bits<U>::from(r.enull));
    fp_extras(b, FP());
    std::vector<U> res;
    for(U v : b)
    {
        bool dup = false;
        for(U w : res) dup = dup || (Bits<U>::to(w) == Bits<U>::to(v));
        if(!dup) res.push_back(v);
    }
    return res;
}

template<class U>
bool special(const Row<U>& r, U v)
{
    if(Bits<U>::nan(v)) return true;
    if(same(v, r.min) || same(v, r.max)) return true;
    if(r.opt) return ref_null(r, v);
    return !r.enull_nan && Bits<U>::to(v) == r.enull; // the primitive's SBE null used as an ordinary value
}

inline uint64_t mix(uint64_t h, uint64_t v)
{
    h ^= v + 0x9E3779B97F4A7C15ull + (h << 6) + (h >> 2);
    return h * 0xff51afd7ed558ccdull;
}

static const char* const kPairClass[] = {"pair_null_null", "pair_null_value", "pair_nan_value", "pair_minmax_involved", "pair_ordinary"};
template<class U>
int pair_class(const Row<U>& r, U a, U b)
{
    const bool na = r.opt && ref_null(r, a), nb = r.opt && ref_null(r, b);
    if(na && nb) return 0;
    if(na || nb) return 1;
    if(Bits<U>::nan(a) || Bits<U>::nan(b)) return 2;
    if(special(r, a) || special(r, b)) return 3;
    return 4;
}

// returns true when an unknown mismatch was found (first one in `first`)
template<class U>
bool run_pair(Ctx& c, const Row<U>& r, uint64_t rowhash, U a, U b, U d, Mismatch* first, std::string* kase)
{
    if((++c.n & 0x3fff) == 1) hc::current_always(pair_case(r, a, b, d));
    c.rep.eval();
    if(special(r, a) || special(r, b)) c.nontrivial.push_back(mix(mix(rowhash, Bits<U>::to(a)), Bits<U>::to(b)));
    c.pair_classes[pair_class(r, a, b)]++;
    std::vector<Mismatch> mm;
    judge_pair(r, a, b, d, mm);
    bool bad = false;
    for(auto& m : mm)
    {
        if(c.rep.opt->known.count(m.sig)) { c.rep.knownhits[m.sig]++; continue; }
        if(!bad) { *first = m; *kase = pair_case(r, a, b, d); }
        bad = true;
    }
    return bad;
}

template<class U>
void prepare()
{
    for(auto& r : Table<U>::rows())
    {
        if(r.level >= 4) continue;
        Statics<U> s;
        r.statics(s);
        r.min = s.min; r.max = s.max; r.null = s.null;
    }
}

template<class U>
void enumerate_row(Ctx& c, const Row<U>& r, long sample_quota)
{
    c.rep.cls("rows_" + r.kind + (r.opt ? "_optional" : "_required"));
    if(r.level >= 4) { c.rep.cls("rows_skipped_entirely"); return; }
    std::vector<Mismatch> mm;
    judge_statics(r, mm);
    c.rep.eval();
    for(auto& m : mm) c.rep.fail(m.sig, "type=" + r.name + " kind=statics", m.what);
    if(r.level >= 3) return;
    const std::vector<U> bs = boundary_set(r);
    for(U d : bs)
    {
        mm.clear();
        judge_ctor(r, d, mm);
        c.rep.eval();
        for(auto& m : mm) c.rep.fail(m.sig, "type=" + r.name + " kind=ctor d=" + hex(Bits<U>::to(d)), m.what);
    }
    const uint64_t rh = hc::Report::hash(r.name);
    bool sampled = c.sampled_prims > sample_quota;
    for(size_t i = 0; i < bs.size(); i++)
        for(size_t j = 0; j < bs.size(); j++)
        {
            const U a = bs[i], b = bs[j], d = bs[(i + 2 * j + 1) % bs.size()];
            Mismatch m;
            std::string k;
            // all mismatches of an enumerated pair are recorded (smallest case per signature is kept)
            if((++c.n & 0x3fff) == 1) hc::current_always(pair_case(r, a, b, d));
            c.rep.eval();
            if(special(r, a) || special(r, b)) c.nontrivial.push_back(mix(mix(rh, Bits<U>::to(a)), Bits<U>::to(b)));
            c.pair_classes[pair_class(r, a, b)]++;
            mm.clear();
            judge_pair(r, a, b, d, mm);
            for(auto& x : mm) c.rep.fail(x.sig, pair_case(r, a, b, d), x.what);
            if(!sampled && c.rep.samples.size() < 16 && ((i * 31 + j * 7 + rh) % 97) == 0 && (r.kind != "builtin" || r.opt))
            {
                sampled = true; // at most one per row, rows of a primitive are consecutive: see enumerate_prim
                c.sampled_prims++;
                Obs<U> o;
                r.unary(a, d, o); r.eq(a, b, o); r.rel(a, b, o);
                char buf[200];
                snprintf(buf, sizeof buf, " -> has_value=%d in_range=%d ==%d !=%d <%d <=%d >%d >=%d <=>%d", o.has_value, o.in_range, o.eq, o.ne, o.lt, o.le, o.gt, o.ge, o.tw);
                c.rep.sample(ctx(r) + " a=" + show(a) + " b=" + show(b) + buf, 16);
            }
        }
}

template<class U>
void enumerate_prim(Ctx& c)
{
    // samples: about one per primitive type
    const long quota = c.sampled_prims;
    for(auto& r : Table<U>::rows()) enumerate_row(c, r, quota);
}

template<class U>
U draw(const std::vector<U>& bs)
{
    const int sel = *rc::gen::resize(100, rc::gen::inRange(0, 10));
    if(sel < 4) return *rc::gen::elementOf(bs);
    if(sel < 6)
    {
        const U v = *rc::gen::elementOf(bs);
        const int delta = *rc::gen::resize(100, rc::gen::inRange(-3, 4));
        return Bits<U>::from(Bits<U>::to(v) + static_cast<uint64_t>(static_cast<int64_t>(delta))); // neighbouring bit patterns
    }
    if(sel < 8) return *rc::gen::arbitrary<U>();
    return Bits<U>::from(*rc::gen::arbitrary<uint64_t>());
}

template<class U>
void random_prim(Ctx& c, const char* prim)
{
    auto& rows = Table<U>::rows();
    std::vector<size_t> usable;
    std::vector<std::vector<U>> bsets(rows.size());
    std::vector<uint64_t> rh(rows.size());
    for(size_t i = 0; i < rows.size(); i++)
        if(rows[i].level < 3)
        {
            usable.push_back(i);
            bsets[i] = boundary_set(rows[i]);
            rh[i] = hc::Report::hash(rows[i].name);
        }
    if(usable.empty()) return;
    Mismatch last;
    std::string lastcase;
    bool have = false;
    const bool ok = rc::check(std::string("C16 random pairs over ") + prim, [&] {
        const size_t ri = usable[*rc::gen::resize(100, rc::gen::inRange<size_t>(0, usable.size()))];
        const U a = draw(bsets[ri]), b = draw(bsets[ri]), d = draw(bsets[ri]);
        Mismatch m;
        std::string k;
        if(run_pair(c, rows[ri], rh[ri], a, b, d, &m, &k))
        {
            last = m; lastcase = k; have = true; // the last failing execution is rapidcheck's shrunk counterexample
            RC_FAIL(m.what);
        }
    });
    if(!ok && have) c.rep.fail(last.sig, lastcase, last.what);
    c.rep.cls(std::string("random_") + prim + (ok ? "_ok" : "_falsified"));
}

#define C16_PRIMS(X)        \
    X(char, "char")         \
    X(std::int8_t, "int8")  \
    X(std::uint8_t, "uint8") \
    X(std::int16_t, "int16") \
    X(std::uint16_t, "uint16") \
    X(std::int32_t, "int32") \
    X(std::uint32_t, "uint32") \
    X(std::int64_t, "int64") \
    X(std::uint64_t, "uint64") \
    X(float, "float")       \
    X(double, "double")

inline std::map<std::string, std::string> parse_case(const std::string& s)
{
    std::map<std::string, std::string> m;
    size_t pos = 0;
    while(pos < s.size())
    {
        size_t e = s.find(' ', pos);
        if(e == std::string::npos) e = s.size();
        const std::string tok = s.substr(pos, e - pos);
        const size_t q = tok.find('=');
        if(q != std::string::npos) m[tok.substr(0, q)] = tok.substr(q + 1);
        pos = e + 1;
    }
    return m;
}

template<class U>
bool replay_prim(Ctx& c, std::map<std::string, std::string>& kv)
{
    for(auto& r : Table<U>::rows())
    {
        if(r.name != kv["type"]) continue;
        std::vector<Mismatch> mm;
        const std::string kind = kv["kind"];
        auto val = [&](const char* k) { return Bits<U>::from(strtoull(kv[k].c_str(), nullptr, 16)); };
        if(r.level >= 4) { printf("row %s is excluded at this build's level\n", r.name.c_str()); return true; }
        if(kind == "statics") judge_statics(r, mm);
        else if(kind == "ctor" && r.level < 3) judge_ctor(r, val("d"), mm);
        else if(kind == "pair" && r.level < 3) judge_pair(r, val("a"), val("b"), val("d"), mm);
        c.rep.eval();
        printf("REPLAY %s: %zu mismatch(es)\n", ctx(r).c_str(), mm.size());
        for(auto& m : mm) c.rep.fail(m.sig, c.rep.opt->replay, m.what);
        return true;
    }
    return false;
}
} // namespace c16

int main(int argc, char** argv)
{
    hc::Options opt = hc::parse_args(argc, argv);
    c16::Ctx c;
    c.rep.opt = &opt;
    c16::register_rows();
#define C16_PREP(U, N) c16::prepare<U>();
    C16_PRIMS(C16_PREP)
    if(!opt.replay.empty())
    {
        auto kv = c16::parse_case(opt.replay);
        bool found = false;
#define C16_REPLAY(U, N) found = found || c16::replay_prim<U>(c, kv);
        C16_PRIMS(C16_REPLAY)
        if(!found) printf("REPLAY: no row named '%s' in this build\n", kv["type"].c_str());
        return c.rep.finish();
    }
#define C16_ENUM(U, N) c16::enumerate_prim<U>(c);
    C16_PRIMS(C16_ENUM)
    c.rep.exhaustive = 1;
    const long enumerated = c.rep.evaluations;
#define C16_RANDOM(U, N) c16::random_prim<U>(c, N);
    C16_PRIMS(C16_RANDOM)
    std::sort(c.nontrivial.begin(), c.nontrivial.end());
    c.nontrivial.erase(std::unique(c.nontrivial.begin(), c.nontrivial.end()), c.nontrivial.end());
    for(int i = 0; i < 5; i++) c.rep.cls(c16::kPairClass[i], c.pair_classes[i]);
    printf("STAT nontrivial %zu\n", c.nontrivial.size()); // Report's own set is left empty (prints 0); STAT lines are summed
    printf("STAT enumerated %ld\n", enumerated);
    printf("STAT three_way %d\n", SBEPP_HAS_THREE_WAY_COMPARISON ? 1 : 0);
    return c.rep.finish();
}
#endif // !C16_PROBE
