// C14 - constexpr differential for sbepp::detail::static_array_ref (C++20/23).
//
// A grid of (N, prior content, overload, eos mode, input) cases is evaluated
//   (ct) inside constant expressions (initialisers of constexpr variables),
//   (rt) by the very same functions at run time (guards come from volatiles),
// and both are compared with each other and with the reference model in
// c14_ref.hpp.  The array lives inside a larger array
//     [guard][array N][guard]['S' x SLK][NUL]
// so that a constant-evaluated over-read changes the value instead of only
// making the TU ill-formed.  -DC14_CX_PART=1: strlen/strlen_r/accessors for every
// content over {NUL,'a','b'}, N in 0..6, non-NUL and NUL guards.
// -DC14_CX_PART=2: every constexpr-callable assignment overload, N in 0..C14_CX_MAXN.
// If this TU does not compile, vlib/checks/c14.py reports the compiler message.
#include <sbepp/sbepp.hpp>

#include "hcommon.hpp"
#include "c14_ref.hpp"

#include <algorithm>
#include <array>
#include <string>
#include <string_view>
#include <utility>
#include <vector>

#ifndef C14_CX_PART
#    define C14_CX_PART 1
#endif
#ifndef C14_CX_MAXN
#    define C14_CX_MAXN 3
#endif

#if !SBEPP_HAS_CONSTEXPR_ACCESSORS
int main()
{
    printf("INFO SBEPP_HAS_CONSTEXPR_ACCESSORS=0: nothing is constexpr in this configuration\n");
    printf("STAT evaluations 0\nSTAT nontrivial 0\n");
    return 0;
}
#else

#    if defined(__cpp_lib_constexpr_string) && __cpp_lib_constexpr_string >= 201907L && defined(__cpp_lib_constexpr_vector) \
        && !defined(C14_CX_NO_STD_CONTAINERS)
#        define C14_CX_CONTAINERS 1
#    else
#        define C14_CX_CONTAINERS 0
#    endif
// clang 14 cannot constant-evaluate libstdc++ 12's std::string (union member activation in
// _M_use_local_data); that is a toolchain limit, not an sbepp one, so std::string is a g++-only grid column
#    if C14_CX_CONTAINERS && !defined(__clang__)
#        define C14_CX_STRING 1
#    else
#        define C14_CX_STRING 0
#    endif

using namespace c14;

namespace
{
struct tag
{
};
template<std::size_t N>
using arr = sbepp::detail::static_array_ref<char, char, N, tag>;

constexpr std::size_t SLK = 3;
constexpr char CALPHA[3] = {0, 'a', 'b'};

constexpr unsigned cpow(unsigned b, unsigned e)
{
    unsigned r = 1;
    while(e--) r *= b;
    return r;
}

template<std::size_t N>
struct Arena
{
    char b[1 + N + 1 + SLK + 1];
};
template<std::size_t N>
constexpr Arena<N> make_arena(unsigned ci, char gl, char gr)
{
    Arena<N> ar{};
    ar.b[0] = gl;
    for(std::size_t i = 0; i < N; i++)
    {
        ar.b[1 + i] = CALPHA[ci % 3];
        ci /= 3;
    }
    ar.b[1 + N] = gr;
    for(std::size_t i = 0; i < SLK; i++) ar.b[2 + N + i] = 'S';
    ar.b[2 + N + SLK] = 0;
    return ar;
}

// result of one case: the whole arena after the op, the returned iterator as
// an offset (-1 = none), strlen / strlen_r of the result, accessor consistency
template<std::size_t N>
struct Res
{
    Arena<N> ar;
    signed char ret;
    unsigned char sl, slr;
    bool acc;
};

template<std::size_t N>
constexpr bool accessors_ok(const arr<N>& a, const char* first)
{
    bool ok = a.size() == N && a.max_size() == N && a.empty() == (N == 0);
    ok = ok && a.data() == first && a.begin() == first && a.end() == first + N;
    ok = ok && a.rbegin().base() == a.end() && a.rend().base() == a.begin();
    ok = ok && sbepp::size_bytes(a) == N && sbepp::addressof(a) == first;
    for(std::size_t i = 0; i < N; i++) ok = ok && &a[i] == first + i && a[i] == first[i];
    std::size_t i = N;
    for(auto it = a.rbegin(); it != a.rend(); ++it)
    {
        ok = ok && i > 0 && *it == first[i - 1];
        if(i) --i;
    }
    ok = ok && i == 0;
    if constexpr(N > 0)
    {
        ok = ok && &a.front() == first && &a.back() == first + (N - 1);
    }
    return ok;
}

template<class A, std::size_t... I>
constexpr typename A::iterator cx_ilist_call(const A& a, const char* c, std::index_sequence<I...>)
{
    (void)c;
    return a.assign({c[I]...});
}
template<class A, std::size_t K>
constexpr typename A::iterator cx_ilist(const A& a, const char* c, std::size_t len)
{
    if(len == K) return cx_ilist_call(a, c, std::make_index_sequence<K>());
    if constexpr(K > 0) return cx_ilist<A, K - 1>(a, c, len);
    else return a.begin();
}

// one case, usable in constant expressions and at run time
template<std::size_t N>
constexpr Res<N> run_one(int op, int mode, unsigned ci, unsigned len, unsigned ii, unsigned base, char v, unsigned count, char gl, char gr)
{
    Res<N> r{};
    r.ar = make_arena<N>(ci, gl, gr);
    char* const first = r.ar.b + 1;
    arr<N> a{first, N};
    char z[N + 1] = {};
    for(unsigned i = 0; i < len; i++)
    {
        z[i] = CALPHA[(base == 2 ? 1 : 0) + ii % base];
        ii /= base;
    }
    const sbepp::eos_null em = mode == M_NONE ? sbepp::eos_null::none : mode == M_SINGLE ? sbepp::eos_null::single : sbepp::eos_null::all;
    const bool dflt = mode == M_DEFAULT;
    char* it = nullptr;
    bool has_it = true;
    switch(op)
    {
    case OP_OBSERVE: has_it = false; break;
    case S_CSTR: it = dflt ? a.assign_string(static_cast<const char*>(z)) : a.assign_string(static_cast<const char*>(z), em); break;
    case S_SV:
    {
        const std::string_view sv(z, len);
        it = dflt ? a.assign_string(sv) : a.assign_string(sv, em);
        break;
    }
#    if C14_CX_STRING
    case S_STRING_L:
    {
        std::string s(z, len);
        it = dflt ? a.assign_string(s) : a.assign_string(s, em);
        break;
    }
#    endif
#    if C14_CX_CONTAINERS
    case S_VEC:
    {
        const std::vector<char> s(z, z + len);
        it = dflt ? a.assign_string(s) : a.assign_string(s, em);
        break;
    }
    case R_VEC:
    {
        std::vector<char> s(z, z + len);
        it = a.assign_range(s);
        break;
    }
#    endif
    case R_SV: it = a.assign_range(std::string_view(z, len)); break;
    case I_PTR:
    {
        const char* f = z;
        it = a.assign(f, f + len);
        break;
    }
    case A_ILIST: it = cx_ilist<arr<N>, N>(a, z, len); break;
    case A_COUNT: it = a.assign(static_cast<std::size_t>(count), v); break;
    case A_FILL:
        a.fill(v);
        has_it = false;
        break;
    default: has_it = false; break;
    }
    r.ret = has_it ? static_cast<signed char>(it - first) : static_cast<signed char>(-1);
    r.sl = static_cast<unsigned char>(a.strlen());
    r.slr = static_cast<unsigned char>(a.strlen_r());
    r.acc = accessors_ok<N>(a, first);
    return r;
}

// ---- grid enumeration (shared by ct, rt and the comparison) --------------------
constexpr int CX_OPS[] = {S_CSTR,
                          S_SV,
#    if C14_CX_STRING
                          S_STRING_L,
#    endif
#    if C14_CX_CONTAINERS
                          S_VEC,
                          R_VEC,
#    endif
                          R_SV,
                          I_PTR,
                          A_ILIST};

template<std::size_t N, class F>
constexpr void for_each_case(F&& f)
{
#    if C14_CX_PART == 1
    for(unsigned ci = 0; ci < cpow(3, N); ci++) f(OP_OBSERVE, 0, ci, 0u, 0u, 3u, char(0), 0u);
#    else
    for(unsigned ci = 0; ci < cpow(3, N); ci++)
    {
        for(int op : CX_OPS)
        {
            const unsigned base = op == S_CSTR ? 2 : 3;
            for(unsigned len = 0; len <= N; len++)
                for(unsigned ii = 0; ii < cpow(base, len); ii++)
                {
                    if(op_has_mode(op))
                        for(int m = 0; m < M_COUNT; m++) f(op, m, ci, len, ii, base, char(0), 0u);
                    else f(op, 0, ci, len, ii, base, char(0), 0u);
                }
        }
        for(unsigned cnt = 0; cnt <= N; cnt++)
            for(char v : CALPHA) f(A_COUNT, 0, ci, 0u, 0u, 3u, v, cnt);
        for(char v : CALPHA) f(A_FILL, 0, ci, 0u, 0u, 3u, v, 0u);
    }
#    endif
}
template<std::size_t N>
constexpr std::size_t case_count()
{
    std::size_t n = 0;
    for_each_case<N>([&](int, int, unsigned, unsigned, unsigned, unsigned, char, unsigned) { n++; });
    return n;
}
template<std::size_t N>
constexpr auto grid(char gl, char gr)
{
    std::array<Res<N>, case_count<N>()> out{};
    std::size_t k = 0;
    for_each_case<N>([&](int op, int mode, unsigned ci, unsigned len, unsigned ii, unsigned base, char v, unsigned cnt)
                     { out[k++] = run_one<N>(op, mode, ci, len, ii, base, v, cnt, gl, gr); });
    return out;
}

// the constant-evaluated side
template<std::size_t N>
inline constexpr auto CT_GH = grid<N>('G', 'H');
#    if C14_CX_PART == 1
template<std::size_t N>
inline constexpr auto CT_00 = grid<N>(char(0), char(0));
#    endif

volatile char g_vol_g = 'G', g_vol_h = 'H', g_vol_0 = 0;

struct Ctx
{
    hc::Report rep;
    std::string only; // --replay: only this case is reported
    std::vector<uint64_t> keys;
};

template<std::size_t N>
void describe(const Res<N>& r, char* out, std::size_t n)
{
    std::vector<u8> b(r.ar.b, r.ar.b + sizeof r.ar.b);
    snprintf(out, n, "arena=%s ret=%d strlen=%u strlen_r=%u accessors=%s", hex(b).c_str(), static_cast<int>(r.ret), r.sl, r.slr, r.acc ? "ok" : "BAD");
}

template<std::size_t N>
void check_one(Ctx& ctx, const char* side, const Res<N>& got, const Case& c, const std::string& kase)
{
    const bool ct = side[0] == 'c';
    long exp_ret;
    const std::vector<u8> exp = ref_apply(c, exp_ret);
    const Arena<N> before = make_arena<N>(0, static_cast<char>(c.gl), static_cast<char>(c.gr));
    std::string os = op_name(c.op);
    if(op_has_mode(c.op)) os += std::string("/") + mode_name(c.mode);
    std::string sig, what;
    char d[400];
    describe<N>(got, d, sizeof d);
    bool inside = false, outside = false;
    for(std::size_t i = 0; i < sizeof before.b; i++)
    {
        const bool in_array = i >= 1 && i < 1 + N;
        const u8 want = in_array ? exp[i - 1] : static_cast<u8>(before.b[i]);
        if(static_cast<u8>(got.ar.b[i]) != want) (in_array ? inside : outside) = true;
    }
    const std::string pre = ct ? "cx:" : "";
    const char* ctx_txt = ct ? "in a constant expression: " : "at run time: ";
    if(outside) sig = pre + "guard:" + os, what = "bytes outside [begin, begin+N) were modified";
    else if(inside) sig = pre + "bytes:" + os, what = "array bytes differ from the documented result " + hex(exp);
    else if(got.ret != exp_ret) sig = pre + "ret:" + os, what = "returned iterator offset, documented " + std::to_string(exp_ret);
    else if(got.sl != ref_strlen(exp.data(), N))
        sig = ct ? "cx:strlen" : "strlen:value", what = "strlen(), expected " + std::to_string(ref_strlen(exp.data(), N)) + " (index of first NUL or N) for content " + hex(exp);
    else if(got.slr != ref_strlen_r(exp.data(), N))
        sig = ct ? "cx:strlen_r" : "strlen_r:value", what = "strlen_r(), expected " + std::to_string(ref_strlen_r(exp.data(), N)) + " for content " + hex(exp);
    else if(!got.acc) sig = pre + "observer:accessors", what = "size/data/[]/front/back/begin/end/rbegin are inconsistent";
    if(sig.empty()) return;
    if(!ctx.only.empty() && ctx.only != kase) return;
    ctx.rep.fail(sig, kase, std::string(ctx_txt) + what + "; got " + d);
}

template<std::size_t N, class CtGrid>
void compare(Ctx& ctx, const CtGrid& ct, char gl, char gr)
{
    const auto rt = grid<N>(gl, gr); // not a constant expression: gl/gr were read from volatiles
    std::size_t k = 0;
    for_each_case<N>(
        [&](int op, int mode, unsigned ci, unsigned len, unsigned ii, unsigned base, char v, unsigned cnt)
        {
            Case c;
            c.N = N;
            c.byte = B_CHAR;
            c.op = op;
            c.mode = mode;
            c.gl = static_cast<u8>(gl);
            c.gr = static_cast<u8>(gr);
            c.v = static_cast<u8>(v);
            c.count = cnt;
            c.content.resize(N);
            for(std::size_t i = 0; i < N; i++)
            {
                c.content[i] = static_cast<u8>(CALPHA[ci % 3]);
                ci /= 3;
            }
            c.input.resize(len);
            for(unsigned i = 0; i < len; i++)
            {
                c.input[i] = static_cast<u8>(CALPHA[(base == 2 ? 1 : 0) + ii % base]);
                ii /= base;
            }
            const std::string kase = "cx " + format(c);
            ctx.rep.eval();
            if(nontrivial(c)) ctx.keys.push_back(case_key(c));
            ctx.rep.cls(op == OP_OBSERVE ? "cx_observe" : op_has_mode(op) ? "cx_assign_string" : "cx_assign_other");
            if((k % 4001) == 7) ctx.rep.sample(kase, 4);
            // the differential proper: same function, constant-evaluated vs run time
            Res<N> a = ct[k], b = rt[k];
            const bool same = std::equal(a.ar.b, a.ar.b + sizeof a.ar.b, b.ar.b) && a.ret == b.ret && a.sl == b.sl && a.slr == b.slr && a.acc == b.acc;
            if(!same) ctx.rep.cls("cx_differs_from_run_time");
            check_one<N>(ctx, "ct", a, c, kase);
            check_one<N>(ctx, "rt", b, c, kase);
            k++;
        });
}

template<std::size_t N>
void run_n(Ctx& ctx)
{
    compare<N>(ctx, CT_GH<N>, g_vol_g, g_vol_h);
#    if C14_CX_PART == 1
    compare<N>(ctx, CT_00<N>, g_vol_0, g_vol_0);
#    endif
    if constexpr(N > 0) run_n<N - 1>(ctx);
}
} // namespace

int main(int argc, char** argv)
{
    hc::Options opt = hc::parse_args(argc, argv);
    Ctx ctx;
    ctx.rep.opt = &opt;
    ctx.only = opt.replay;
    printf("INFO cx part=%d vector=%d string=%d cplusplus=%ld\n", C14_CX_PART, C14_CX_CONTAINERS, C14_CX_STRING, static_cast<long>(__cplusplus));
#    if C14_CX_PART == 1
    run_n<6>(ctx);
#    else
    run_n<C14_CX_MAXN>(ctx);
#    endif
    ctx.rep.exhaustive = 1;
    std::sort(ctx.keys.begin(), ctx.keys.end());
    ctx.keys.erase(std::unique(ctx.keys.begin(), ctx.keys.end()), ctx.keys.end());
    printf("STAT nontrivial %zu\n", ctx.keys.size());
    return ctx.rep.finish();
}
#endif
