// C12 — group views obey iterator and container laws for every dimension type.
//
// Oracle = index model.  The harness lays out a group (header bytes, entries) at
// an address it chose, using only its own arithmetic on the layout table that
// c12.py derived from the schema text (matrix_layout.hpp).  Every iterator the
// library hands out denotes an index i; its entry must start at
// data_start + i * wire_block_length, where wire_block_length is what the header
// bytes say.  Nothing is read through an entry address for flat groups, so a
// wrong address is observed by comparison, not by a crash.
//
// Build: libharness.build(..., isystem=[<generated dir>]).  C++11 compatible.
#define SBEPP_ENABLE_ASSERTS_WITH_HANDLER
#include <sbepp/sbepp.hpp>
#include <matrix/matrix.hpp>
#include <matrix_layout.hpp>

#include "hcommon.hpp"

#include <rapidcheck.h>

#include <algorithm>
#include <csignal>
#include <cinttypes>
#include <iterator>
#include <limits>
#include <sstream>
#include <type_traits>
#include <unordered_map>
#include <sys/mman.h>
#include <unistd.h>

HC_DEFINE_ASSERT_HANDLER

extern "C" void __sanitizer_set_death_callback(void (*)(void));
extern "C" void __ubsan_get_current_report_data(
    const char**, const char**, const char**, unsigned*, unsigned*, char**);

namespace
{
// ---------------------------------------------------------------------------
// process-wide state

hc::Report rep;
hc::Options opt;
int part_i = 0, part_n = 1;
bool do_exh = true, do_rand = true;
bool g_prepass = false; // shallow pre-passes of the enumeration: nothing is counted
long long enum_nontrivial = 0; // distinct by construction (each enumerated case is visited once)

char g_current[1024];
void set_current(const std::string& s)
{
    size_t n = s.size() < sizeof(g_current) - 1 ? s.size() : sizeof(g_current) - 1;
    memcpy(g_current, s.data(), n);
    g_current[n] = 0;
}
void dump_current()
{
    if(!g_current[0]) return;
    fflush(stdout);
    ssize_t r = write(1, "\nCURRENT ", 9);
    r = write(1, g_current, strlen(g_current));
    r = write(1, "\n", 1);
    (void)r;
}
void on_abort(int)
{
    dump_current();
    signal(SIGABRT, SIG_DFL);
    raise(SIGABRT);
}

// UBSan secondary oracle: the runtime calls this for every (de-duplicated) report.
struct UbsanHit
{
    std::string kind, file, msg;
    unsigned line;
};
std::vector<UbsanHit> ubsan_pending;
} // namespace

extern "C" void __ubsan_on_report(void)
{
    const char *k = "", *m = "", *f = "";
    unsigned l = 0, c = 0;
    char* a = nullptr;
    __ubsan_get_current_report_data(&k, &m, &f, &l, &c, &a);
    UbsanHit h;
    h.kind = k ? k : "";
    h.msg = m ? m : "";
    h.file = f ? f : "";
    h.line = l;
    ubsan_pending.push_back(h);
}

namespace
{
// ---------------------------------------------------------------------------
// failure tracking: per signature keep count + the smallest case seen

struct Tracker
{
    struct E
    {
        std::string sig;
        long count;
        long key; // smaller = simpler case
        std::string kase, what;
        bool known;
    };
    std::vector<E> es;
    std::map<std::string, int> by_sig;
    std::unordered_map<const void*, int> by_ptr[2];

    int id(const char* base, bool neg)
    {
        auto& m = by_ptr[neg ? 1 : 0];
        auto it = m.find(base);
        if(it != m.end()) return it->second;
        int i = id_str(std::string(base) + (neg ? ":neg" : ""));
        m[base] = i;
        return i;
    }
    int id_str(const std::string& s)
    {
        auto f = by_sig.find(s);
        if(f != by_sig.end()) return f->second;
        E e;
        e.sig = s;
        e.count = 0;
        e.key = -1;
        e.known = opt.known.count(s) != 0;
        es.push_back(e);
        by_sig[s] = (int)es.size() - 1;
        return (int)es.size() - 1;
    }
    // true -> caller should supply strings through set()
    bool hit(int i, long key)
    {
        E& e = es[i];
        if(!g_prepass) e.count++;
        return e.key < 0 || key < e.key;
    }
    void set(int i, long key, const std::string& kase, const std::string& what)
    {
        E& e = es[i];
        e.key = key;
        e.kase = kase;
        e.what = what;
    }
    bool is_known(int i) const { return es[i].known; }
    void flush()
    {
        for(auto& e : es)
        {
            if(!e.count) continue;
            if(e.known) rep.knownhits[e.sig] += e.count;
            else
                rep.fail(e.sig, e.kase, e.what + " [" + std::to_string(e.count) + " failing evaluation(s) in this run]");
        }
    }
};
Tracker trk;

// set while a rapidcheck property body runs: signatures that are new (not known, not yet reported)
std::set<std::string> rc_reported;
bool rc_case_failed = false;
std::string rc_last_sig, rc_last_case, rc_last_what;

bool in_rc = false;

// generic failure entry used by the non-hot paths
void fail_str(const std::string& sig, long key, const std::string& kase, const std::string& what)
{
    int i = trk.id_str(sig);
    if(trk.hit(i, key)) trk.set(i, key, kase, what);
    if(in_rc && !trk.is_known(i) && !rc_reported.count(sig))
    {
        rc_case_failed = true;
        rc_last_sig = sig;
        rc_last_case = kase;
        rc_last_what = what;
    }
}

void drain_ubsan(const std::string& kase, long key)
{
    if(ubsan_pending.empty()) return;
    std::vector<UbsanHit> v;
    v.swap(ubsan_pending);
    const bool pre = g_prepass;
    g_prepass = false; // the runtime reports a location once: always count it
    for(auto& h : v)
    {
        std::string f = h.file;
        size_t p = f.rfind('/');
        if(p != std::string::npos) f = f.substr(p + 1);
        std::string sig = (f == "sbepp.hpp" ? "ubsan:" : "harness-ubsan:") + h.kind + ":" + f + ":" + std::to_string(h.line);
        fail_str(sig, key, kase, "UBSan (secondary oracle): " + h.msg);
    }
    g_prepass = pre;
}

// ---------------------------------------------------------------------------
// memory: one sparse region; the group lives at region + LEAD + off

const uint64_t REGION = 1ull << 38;
const uint64_t LEAD = 1ull << 21;
const uint64_t MAX_TOTAL = 1ull << 37; // largest group extent used
const uint64_t SMALL_TOTAL = 4ull << 20; // groups up to this size are fully background-filled and fully diffed
char* region = nullptr;

void init_region()
{
    void* p = mmap(nullptr, REGION, PROT_READ | PROT_WRITE, MAP_PRIVATE | MAP_ANONYMOUS | MAP_NORESERVE, -1, 0);
    if(p == MAP_FAILED)
    {
        printf("FAIL harness:mmap\t\tcannot map the sparse region\n");
        exit(1);
    }
    region = static_cast<char*>(p);
}

inline void put_le(char* p, uint64_t v, int n)
{
    for(int k = 0; k < n; k++) p[k] = static_cast<char>((v >> (8 * k)) & 0xff);
}
inline uint64_t get_le(const char* p, int n)
{
    uint64_t v = 0;
    for(int k = 0; k < n; k++) v |= static_cast<uint64_t>(static_cast<unsigned char>(p[k])) << (8 * k);
    return v;
}
inline uint64_t type_max(int bits) { return bits == 64 ? ~0ull : ((1ull << bits) - 1); }
inline int64_t diff_max(int bits) { return static_cast<int64_t>(type_max(bits) >> 1); }
inline int64_t diff_min(int bits) { return -diff_max(bits) - 1; }

inline unsigned char bg_byte(unsigned seed, uint64_t i)
{
    uint64_t x = (i + 1) * 0x9E3779B97F4A7C15ull + seed * 0xD1B54A32D192ED03ull;
    x ^= x >> 29;
    unsigned char c = static_cast<unsigned char>(x >> 17);
    return c ? c : 0xA5;
}

void fill_bg(char* w, uint64_t n, unsigned seed)
{
    uint64_t i = 0;
    for(; i + 8 <= n; i += 8)
    {
        uint64_t x = (i + 1) * 0x9E3779B97F4A7C15ull + seed * 0xD1B54A32D192ED03ull;
        x ^= x >> 29;
        x |= 0x0101010101010101ull; // no zero bytes
        memcpy(w + i, &x, 8);
    }
    for(; i < n; i++) w[i] = static_cast<char>(bg_byte(seed, i));
}

// ---------------------------------------------------------------------------
// case description (explicit; what --replay re-executes)

enum Op : uint8_t
{
    OP_BEGIN, OP_END, OP_ADD, OP_RADD, OP_SUB, OP_IADD, OP_ISUB, OP_PREINC, OP_POSTINC, OP_PREDEC, OP_POSTDEC,
    OP_SUBSCR, OP_DIFF, OP_EQ, OP_NE, OP_LT, OP_LE, OP_GT, OP_GE, OP_COUNT
};
const char* const OP_NAME[OP_COUNT] = {"B", "E", "add", "radd", "sub", "iadd", "isub", "preinc", "postinc", "predec", "postdec",
                                        "sub[]", "diff", "eq", "ne", "lt", "le", "gt", "ge"};
const char* const OP_SITE[OP_COUNT] = {"begin()", "end()", "it+n", "n+it", "it-n", "it+=n", "it-=n", "++it", "it++", "--it", "it--",
                                        "it[n]", "it2-it1", "==", "!=", "<", "<=", ">", ">="};

struct Step
{
    uint8_t op;
    int64_t n;       // operand for add/radd/sub/iadd/isub
    bool has_sub;    // additionally probe it[sub_n] on the result
    int64_t sub_n;
    Step() : op(OP_ADD), n(0), has_sub(false), sub_n(0) {}
    Step(uint8_t o, int64_t v) : op(o), n(v), has_sub(false), sub_n(0) {}
};

struct Chain
{
    uint8_t base; // OP_BEGIN / OP_END
    std::vector<Step> steps;
    Chain() : base(OP_BEGIN) {}
};

enum Kind { K_FLAT = 0, K_EMPTY = 1, K_NESTED = 2 };
const char* const KIND_NAME[3] = {"flat", "empty", "nested"};

struct Case
{
    int pair;      // index into c12layout::DIMS
    int kind;
    uint64_t s, b; // wire numInGroup, wire blockLength
    unsigned off, slack, bg;
    bool hdr_by_setters;
    bool cont;     // run the container-level checks
    bool iterate;  // container checks include full iteration / all positions
    uint64_t n2, n3;               // resize(n2), fill_group_header(n3)
    std::vector<uint64_t> pos;     // extra positions for group[pos]
    bool all_subs;                 // probe it[n] for every valid n at every node (small s only)
    Chain e1, e2;
    bool has_e1, has_e2;
    unsigned inner;                // nested: seed of the per-entry inner sizes
    std::vector<uint8_t> seq;      // nested: 0 = ++it, 1 = it++
    Case()
        : pair(0), kind(0), s(0), b(0), off(0), slack(0), bg(1), hdr_by_setters(false), cont(false), iterate(true), n2(0), n3(0),
          all_subs(false), has_e1(false), has_e2(false), inner(0)
    {
    }
};

std::string chain_str(const Chain& c)
{
    std::string r = OP_NAME[c.base];
    for(auto& st : c.steps)
    {
        r += ",";
        r += OP_NAME[st.op];
        if(st.op >= OP_ADD && st.op <= OP_ISUB) r += ":" + std::to_string(st.n);
        if(st.has_sub) r += "[" + std::to_string(st.sub_n) + "]";
    }
    return r;
}

std::string case_str(const Case& c)
{
    std::ostringstream o;
    const c12layout::Dim& d = c12layout::DIMS[c.pair];
    o << "N=" << d.n_bits << " B=" << d.b_bits << " kind=" << KIND_NAME[c.kind] << " s=" << c.s << " b=" << c.b << " off=" << c.off
      << " slack=" << c.slack << " bg=" << c.bg << " hs=" << (c.hdr_by_setters ? 1 : 0);
    if(c.cont)
    {
        o << " cont=" << (c.iterate ? 1 : 2) << " n2=" << c.n2 << " n3=" << c.n3;
        if(!c.pos.empty())
        {
            o << " pos=";
            for(size_t i = 0; i < c.pos.size(); i++) o << (i ? "," : "") << c.pos[i];
        }
    }
    if(c.all_subs) o << " allsubs=1";
    if(c.has_e1) o << " e1=" << chain_str(c.e1);
    if(c.has_e2) o << " e2=" << chain_str(c.e2);
    if(c.kind == K_NESTED)
    {
        o << " inner=" << c.inner << " seq=";
        for(size_t i = 0; i < c.seq.size(); i++) o << (c.seq[i] ? 'o' : 'p'); // p = pre (++it), o = post (it++)
        if(c.seq.empty()) o << "-";
    }
    return o.str();
}

bool parse_chain(const std::string& s, Chain& c)
{
    size_t pos = 0;
    bool first = true;
    while(pos <= s.size())
    {
        size_t e = s.find(',', pos);
        if(e == std::string::npos) e = s.size();
        std::string tok = s.substr(pos, e - pos);
        pos = e + 1;
        if(tok.empty()) continue;
        Step st;
        size_t br = tok.find('[');
        if(br != std::string::npos)
        {
            st.has_sub = true;
            st.sub_n = atoll(tok.c_str() + br + 1);
            tok = tok.substr(0, br);
        }
        size_t col = tok.find(':');
        std::string name = tok.substr(0, col);
        if(col != std::string::npos) st.n = atoll(tok.c_str() + col + 1);
        int op = -1;
        for(int k = 0; k < OP_COUNT; k++)
            if(name == OP_NAME[k]) op = k;
        if(op < 0) return false;
        if(first)
        {
            if(op != OP_BEGIN && op != OP_END) return false;
            c.base = (uint8_t)op;
            first = false;
            if(st.has_sub) return false;
            continue;
        }
        st.op = (uint8_t)op;
        c.steps.push_back(st);
    }
    return !first;
}

bool parse_case(const std::string& text, Case& c)
{
    std::istringstream in(text);
    std::string tok;
    int nb = 0, bb = 0;
    while(in >> tok)
    {
        size_t eq = tok.find('=');
        if(eq == std::string::npos) return false;
        std::string k = tok.substr(0, eq), v = tok.substr(eq + 1);
        if(k == "N") nb = atoi(v.c_str());
        else if(k == "B") bb = atoi(v.c_str());
        else if(k == "kind")
        {
            c.kind = -1;
            for(int i = 0; i < 3; i++)
                if(v == KIND_NAME[i]) c.kind = i;
            if(c.kind < 0) return false;
        }
        else if(k == "s") c.s = strtoull(v.c_str(), nullptr, 10);
        else if(k == "b") c.b = strtoull(v.c_str(), nullptr, 10);
        else if(k == "off") c.off = (unsigned)atol(v.c_str());
        else if(k == "slack") c.slack = (unsigned)atol(v.c_str());
        else if(k == "bg") c.bg = (unsigned)atol(v.c_str());
        else if(k == "hs") c.hdr_by_setters = v == "1";
        else if(k == "cont") { c.cont = true; c.iterate = v == "1"; }
        else if(k == "n2") c.n2 = strtoull(v.c_str(), nullptr, 10);
        else if(k == "n3") c.n3 = strtoull(v.c_str(), nullptr, 10);
        else if(k == "pos")
        {
            std::istringstream ps(v);
            std::string x;
            while(std::getline(ps, x, ',')) c.pos.push_back(strtoull(x.c_str(), nullptr, 10));
        }
        else if(k == "allsubs") c.all_subs = v == "1";
        else if(k == "e1") { c.has_e1 = true; if(!parse_chain(v, c.e1)) return false; }
        else if(k == "e2") { c.has_e2 = true; if(!parse_chain(v, c.e2)) return false; }
        else if(k == "inner") c.inner = (unsigned)atol(v.c_str());
        else if(k == "seq") { for(char ch : v) if(ch == 'p' || ch == 'o') c.seq.push_back(ch == 'o'); }
        else return false;
    }
    c.pair = -1;
    for(int i = 0; i < 16; i++)
        if(c12layout::DIMS[i].n_bits == nb && c12layout::DIMS[i].b_bits == bb) c.pair = i;
    return c.pair >= 0;
}

// complexity key used to keep the smallest failing case per signature
long case_key(const Case& c)
{
    long k = (long)(c.e1.steps.size() + c.e2.steps.size() + c.seq.size()) * 1000000L;
    k += (long)(c.s > 9999 ? 9999 : c.s) * 100;
    k += (long)(c.b > 99 ? 99 : c.b);
    return k;
}

// Record one failing evaluation.  `what()` is only called when its text is needed.
template<class W>
void report(int i, const Case& c, W&& what)
{
    long key = case_key(c);
    bool want = trk.hit(i, key);
    bool rcnew = in_rc && !trk.is_known(i) && !rc_reported.count(trk.es[i].sig);
    if(want || rcnew)
    {
        std::string ks = case_str(c), w = what();
        if(want) trk.set(i, key, ks, w);
        if(rcnew)
        {
            rc_case_failed = true;
            rc_last_sig = trk.es[i].sig;
            rc_last_case = ks;
            rc_last_what = w;
        }
    }
}

enum FailKind { FK_OK = 0, FK_ADDR, FK_REF, FK_POSTVAL, FK_DIFF, FK_CMP, FK_ARROW, FK_COUNT };
const char* const FK_NAME[FK_COUNT] = {"ok", "addr", "ref", "postval", "diff", "cmp", "arrow"};
int SIGID[FK_COUNT][OP_COUNT][2];
void init_sigids()
{
    for(auto& a : SIGID)
        for(auto& b : a) b[0] = b[1] = -1;
}
inline int sigid(int fk, int op, bool neg)
{
    int& r = SIGID[fk][op][neg ? 1 : 0];
    if(r < 0) r = trk.id_str(std::string(FK_NAME[fk]) + ":" + OP_SITE[op] + (neg ? ":neg" : ""));
    return r;
}

std::string rel(uintptr_t p, uintptr_t data)
{
    long long d = (long long)(p - data);
    return std::string("data") + (d < 0 ? "-" : "+") + std::to_string(d < 0 ? -d : d);
}

// ---------------------------------------------------------------------------
// geometry shared by all kinds

struct Geo
{
    c12layout::Dim d;
    int compiled;
    char* grp;
    uint64_t s, b;
};

inline int compiled_bl(int kind)
{
    return kind == K_FLAT ? c12layout::FLAT_BL : kind == K_EMPTY ? c12layout::EMPTY_BL : c12layout::NESTED_BL;
}

void write_header_bytes(const c12layout::Dim& d, char* grp, uint64_t s, uint64_t b)
{
    put_le(grp + d.bl_off, b, d.b_bits / 8);
    put_le(grp + d.ng_off, s, d.n_bits / 8);
}

// compares [w, w+len) with snap except for the byte ranges listed; returns offset of first unexpected difference or -1
long diff_except(const char* w, const std::vector<char>& snap, long a0, long a1, long b0, long b1)
{
    if(b1 > b0 && b0 < a0) { std::swap(a0, b0); std::swap(a1, b1); }
    const long n = (long)snap.size();
    long seg[3][2] = {{0, a1 > a0 ? a0 : n}, {a1 > a0 ? a1 : n, b1 > b0 ? b0 : n}, {b1 > b0 ? b1 : n, n}};
    for(auto& sg : seg)
    {
        if(sg[1] <= sg[0]) continue;
        if(memcmp(w + sg[0], snap.data() + sg[0], (size_t)(sg[1] - sg[0])) == 0) continue;
        for(long i = sg[0]; i < sg[1]; i++)
            if(w[i] != snap[i]) return i;
    }
    return -1;
}

// ---------------------------------------------------------------------------
// Type erasure.  Only the thin *Impl templates below are instantiated per (pair, kind); everything that decides
// what to call and what to expect is ordinary code.  Iterators are trivially copyable and live in an ItBuf.

struct ItBuf
{
    alignas(16) unsigned char raw[48];
};

struct Node
{
    ItBuf it;
    int64_t idx;
    uint8_t last;
    bool neg;      // literal operand negative (signature)
    bool backward; // moved towards begin (non-triviality rule)
};
struct PNode
{
    Node nd;
    uint8_t base, nsteps;
    Step st[2];
};

inline bool representable_in(int64_t n, int64_t lo, int64_t hi) { return n >= lo && n <= hi; }

struct FlatOps
{
    virtual ~FlatOps() {}
    virtual void make(char* grp, std::size_t n) = 0;
    virtual uint64_t size() = 0;
    virtual bool empty() = 0;
    virtual uint64_t sbe_size() = 0;
    virtual uint64_t max_size() = 0;
    virtual void hdr_read(uint64_t& bl, uint64_t& ng, uint64_t& hsz, uintptr_t& haddr) = 0;
    virtual void hdr_write(uint64_t bl, uint64_t ng) = 0;
    virtual uintptr_t addr_group() = 0;
    virtual uintptr_t front() = 0;
    virtual uintptr_t back() = 0;
    virtual uintptr_t at(uint64_t pos) = 0;
    virtual void begin(ItBuf&) = 0;
    virtual void end(ItBuf&) = 0;
    virtual void resize(uint64_t) = 0;
    virtual void clear() = 0;
    virtual uintptr_t fill(uint64_t n) = 0;
    // loops kept on the typed side for speed; they only compare against data + k*b
    virtual bool all_at(uint64_t s, uintptr_t data, uint64_t b, uint64_t& badpos, uintptr_t& bad) = 0;
    virtual bool range_for(uint64_t s, uintptr_t data, uint64_t b, uint64_t& cnt, uint64_t& badk, uintptr_t& bad) = 0;
    virtual bool reverse_walk(uint64_t s, uintptr_t data, uint64_t b, uint64_t& cnt, uint64_t& badk, uintptr_t& bad) = 0;
    virtual bool begin_plus_size(ItBuf& out, bool& eq, bool& ne) = 0;
    // iterator operators
    virtual uintptr_t deref(const ItBuf&) = 0;
    virtual uintptr_t arrow(const ItBuf&) = 0;
    virtual void add(ItBuf& r, const ItBuf& a, int64_t n) = 0;
    virtual void radd(ItBuf& r, const ItBuf& a, int64_t n) = 0;
    virtual void sub(ItBuf& r, const ItBuf& a, int64_t n) = 0;
    virtual bool iadd(ItBuf& a, int64_t n) = 0; // true when the result is a reference to the operand
    virtual bool isub(ItBuf& a, int64_t n) = 0;
    virtual bool preinc(ItBuf& a) = 0;
    virtual bool predec(ItBuf& a) = 0;
    virtual void postinc(ItBuf& a, ItBuf& old) = 0;
    virtual void postdec(ItBuf& a, ItBuf& old) = 0;
    virtual uintptr_t subscr(const ItBuf& a, int64_t n) = 0;
    virtual int64_t diff(const ItBuf& a, const ItBuf& b) = 0;
    virtual unsigned cmp(const ItBuf& a, const ItBuf& b) = 0; // bits: == 1, != 2, < 4, <= 8, > 16, >= 32
    // first j in [0,n) with nsteps <= depth_b whose seven binary results against node i disagree with the indices; n if none
    virtual std::size_t pairs(const PNode* nodes, std::size_t n, std::size_t i, int depth_b, int64_t dmin, int64_t dmax, long long& npairs,
                              long long& ntpairs) = 0;
};

inline unsigned cmp_model(int64_t di)
{
    return (di == 0 ? 1u : 0u) | (di != 0 ? 2u : 0u) | (di < 0 ? 4u : 0u) | (di <= 0 ? 8u : 0u) | (di > 0 ? 16u : 0u) | (di >= 0 ? 32u : 0u);
}

template<class G>
struct FlatImpl : FlatOps
{
    typedef typename G::iterator It;
    typedef typename G::difference_type Diff;
    typedef typename G::size_type Size;
    static_assert(std::is_same<typename std::iterator_traits<It>::iterator_category, std::random_access_iterator_tag>::value,
                  "flat group iterator must be random access");
    static_assert(sizeof(It) <= sizeof(ItBuf), "iterator does not fit ItBuf");
    static_assert(std::is_trivially_copyable<It>::value, "iterator expected to be trivially copyable");
#if defined(__cpp_lib_concepts) && __cpp_lib_concepts >= 201907L && defined(__cpp_lib_ranges)
    static_assert(std::random_access_iterator<It>, "doc: Satisfies std::random_access_iterator");
#endif
    G g;
    static It& I(ItBuf& b) { return *reinterpret_cast<It*>(b.raw); }
    static const It& I(const ItBuf& b) { return *reinterpret_cast<const It*>(b.raw); }
    static void put(ItBuf& b, const It& it) { new(b.raw) It(it); }
    static uintptr_t A(const typename G::value_type& e) { return reinterpret_cast<uintptr_t>(sbepp::addressof(e)); }

    void make(char* grp, std::size_t n) override { g = G{grp, n}; }
    uint64_t size() override { return g.size(); }
    bool empty() override { return g.empty(); }
    uint64_t sbe_size() override { return g.sbe_size().value(); }
    uint64_t max_size() override { return G::max_size(); }
    void hdr_read(uint64_t& bl, uint64_t& ng, uint64_t& hsz, uintptr_t& haddr) override
    {
        auto h = sbepp::get_header(g);
        bl = h.blockLength().value();
        ng = h.numInGroup().value();
        hsz = sbepp::size_bytes(h);
        haddr = reinterpret_cast<uintptr_t>(sbepp::addressof(h));
    }
    void hdr_write(uint64_t bl, uint64_t ng) override
    {
        auto h = sbepp::get_header(g);
        typedef typename std::decay<decltype(h.blockLength().value())>::type BlT;
        h.blockLength(static_cast<BlT>(bl));
        h.numInGroup(static_cast<Size>(ng));
    }
    uintptr_t addr_group() override { return reinterpret_cast<uintptr_t>(sbepp::addressof(g)); }
    uintptr_t front() override { return A(g.front()); }
    uintptr_t back() override { return A(g.back()); }
    uintptr_t at(uint64_t pos) override { return A(g[static_cast<Size>(pos)]); }
    void begin(ItBuf& b) override { put(b, g.begin()); }
    void end(ItBuf& b) override { put(b, g.end()); }
    void resize(uint64_t n) override { g.resize(static_cast<Size>(n)); }
    void clear() override { g.clear(); }
    uintptr_t fill(uint64_t n) override
    {
        auto h = sbepp::fill_group_header(g, static_cast<Size>(n));
        return reinterpret_cast<uintptr_t>(sbepp::addressof(h));
    }
    bool all_at(uint64_t s, uintptr_t data, uint64_t b, uint64_t& badpos, uintptr_t& bad) override
    {
        for(uint64_t p = 0; p < s; p++)
        {
            uintptr_t a = A(g[static_cast<Size>(p)]);
            if(a != data + p * b) { badpos = p; bad = a; return false; }
        }
        return true;
    }
    bool range_for(uint64_t s, uintptr_t data, uint64_t b, uint64_t& cnt, uint64_t& badk, uintptr_t& bad) override
    {
        bool good = true;
        cnt = 0;
        for(const auto e : g)
        {
            uintptr_t a = A(e);
            if(a != data + cnt * b && good) { good = false; badk = cnt; bad = a; }
            cnt++;
            if(cnt > s) break;
        }
        return good;
    }
    bool reverse_walk(uint64_t s, uintptr_t data, uint64_t b, uint64_t& cnt, uint64_t& badk, uintptr_t& bad) override
    {
        bool good = true;
        cnt = 0;
        It it = g.end();
        while(it != g.begin() && cnt <= s)
        {
            --it;
            cnt++;
            uintptr_t a = A(*it);
            if(a != data + (s - cnt) * b && good) { good = false; badk = s - cnt; bad = a; }
        }
        return good;
    }
    bool begin_plus_size(ItBuf& out, bool& eq, bool& ne) override
    {
        It x = g.begin() + static_cast<Diff>(g.size());
        eq = (x == g.end());
        ne = (x != g.end());
        put(out, x);
        return true;
    }
    uintptr_t deref(const ItBuf& a) override { return A(*I(a)); }
    uintptr_t arrow(const ItBuf& a) override
    {
        auto px = I(a).operator->();
        return A(*px.operator->());
    }
    void add(ItBuf& r, const ItBuf& a, int64_t n) override { put(r, I(a) + static_cast<Diff>(n)); }
    void radd(ItBuf& r, const ItBuf& a, int64_t n) override { put(r, static_cast<Diff>(n) + I(a)); }
    void sub(ItBuf& r, const ItBuf& a, int64_t n) override { put(r, I(a) - static_cast<Diff>(n)); }
    bool iadd(ItBuf& a, int64_t n) override { It& r = (I(a) += static_cast<Diff>(n)); return &r == &I(a); }
    bool isub(ItBuf& a, int64_t n) override { It& r = (I(a) -= static_cast<Diff>(n)); return &r == &I(a); }
    bool preinc(ItBuf& a) override { It& r = ++I(a); return &r == &I(a); }
    bool predec(ItBuf& a) override { It& r = --I(a); return &r == &I(a); }
    void postinc(ItBuf& a, ItBuf& old) override { put(old, I(a)++); }
    void postdec(ItBuf& a, ItBuf& old) override { put(old, I(a)--); }
    uintptr_t subscr(const ItBuf& a, int64_t n) override { return A(I(a)[static_cast<Diff>(n)]); }
    int64_t diff(const ItBuf& a, const ItBuf& b) override { return static_cast<int64_t>(I(a) - I(b)); }
    static unsigned cmp_it(const It& x, const It& y)
    {
        return (x == y ? 1u : 0u) | (x != y ? 2u : 0u) | (x < y ? 4u : 0u) | (x <= y ? 8u : 0u) | (x > y ? 16u : 0u) | (x >= y ? 32u : 0u);
    }
    unsigned cmp(const ItBuf& a, const ItBuf& b) override { return cmp_it(I(a), I(b)); }
    std::size_t pairs(const PNode* nodes, std::size_t n, std::size_t i, int depth_b, int64_t dmin, int64_t dmax, long long& npairs,
                      long long& ntpairs) override
    {
        const It& x = I(nodes[i].nd.it);
        const int64_t xi = nodes[i].nd.idx;
        const int xs = nodes[i].nsteps;
        std::size_t bad = n;
        for(std::size_t j = 0; j < n; j++)
        {
            const PNode& p = nodes[j];
            if(p.nsteps > depth_b) continue;
            npairs++;
            ntpairs += (xs + p.nsteps) ? 1 : 0;
            const It& y = I(p.nd.it);
            int64_t di = xi - p.nd.idx;
            bool good = cmp_it(x, y) == cmp_model(di);
            if(di >= dmin && di <= dmax) good = good && static_cast<int64_t>(x - y) == di;
            if(!good && bad == n) bad = j;
        }
        return bad;
    }
};

struct NestedOps
{
    virtual ~NestedOps() {}
    virtual void make(char* grp, std::size_t n) = 0;
    virtual uint64_t size() = 0;
    virtual bool empty() = 0;
    virtual uint64_t sbe_size() = 0;
    virtual uint64_t max_size() = 0;
    virtual void hdr_read(uint64_t& bl, uint64_t& ng) = 0;
    virtual uint64_t size_bytes() = 0;
    virtual uintptr_t front() = 0;
    // range-for: first entry whose address / size_bytes differs from the reference offsets start[0..s]
    virtual void range_for(uint64_t s, uintptr_t grp, const uint64_t* start, uint64_t& cnt, bool& abad, bool& sbad, uint64_t& badk, uintptr_t& bad,
                           uint64_t& badsz) = 0;
    virtual void begin(ItBuf&) = 0;
    virtual void end(ItBuf&) = 0;
    virtual uintptr_t deref(const ItBuf&) = 0;
    virtual uintptr_t arrow(const ItBuf&) = 0;
    virtual bool preinc(ItBuf& a) = 0;
    virtual void postinc(ItBuf& a, ItBuf& old) = 0;
    virtual unsigned cmp(const ItBuf& a, const ItBuf& b) = 0; // bits: == 1, != 2
    virtual void resize(uint64_t) = 0;
    virtual void clear() = 0;
    virtual void fill(uint64_t n) = 0;
};

template<class G>
struct NestedImpl : NestedOps
{
    typedef typename G::iterator It;
    typedef typename G::size_type Size;
    static_assert(std::is_same<typename std::iterator_traits<It>::iterator_category, std::forward_iterator_tag>::value,
                  "nested group iterator must be a forward iterator");
    static_assert(sizeof(It) <= sizeof(ItBuf), "iterator does not fit ItBuf");
    static_assert(std::is_trivially_copyable<It>::value, "iterator expected to be trivially copyable");
#if defined(__cpp_lib_concepts) && __cpp_lib_concepts >= 201907L && defined(__cpp_lib_ranges)
    static_assert(std::forward_iterator<It>, "doc: Satisfies std::forward_iterator");
#endif
    G g;
    static It& I(ItBuf& b) { return *reinterpret_cast<It*>(b.raw); }
    static const It& I(const ItBuf& b) { return *reinterpret_cast<const It*>(b.raw); }
    static void put(ItBuf& b, const It& it) { new(b.raw) It(it); }
    static uintptr_t A(const typename G::value_type& e) { return reinterpret_cast<uintptr_t>(sbepp::addressof(e)); }

    void make(char* grp, std::size_t n) override { g = G{grp, n}; }
    uint64_t size() override { return g.size(); }
    bool empty() override { return g.empty(); }
    uint64_t sbe_size() override { return g.sbe_size().value(); }
    uint64_t max_size() override { return G::max_size(); }
    void hdr_read(uint64_t& bl, uint64_t& ng) override
    {
        auto h = sbepp::get_header(g);
        bl = h.blockLength().value();
        ng = h.numInGroup().value();
    }
    uint64_t size_bytes() override { return sbepp::size_bytes(g); }
    uintptr_t front() override { return A(g.front()); }
    void range_for(uint64_t s, uintptr_t grp, const uint64_t* start, uint64_t& cnt, bool& abad, bool& sbad, uint64_t& badk, uintptr_t& bad,
                   uint64_t& badsz) override
    {
        cnt = 0;
        abad = sbad = false;
        for(const auto e : g)
        {
            if(cnt >= s) { cnt++; break; }
            uintptr_t a = A(e);
            if(a != grp + start[cnt] && !abad) { abad = true; badk = cnt; bad = a; }
            if(!abad && !sbad && sbepp::size_bytes(e) != start[cnt + 1] - start[cnt]) { sbad = true; badk = cnt; badsz = sbepp::size_bytes(e); }
            cnt++;
        }
    }
    void begin(ItBuf& b) override { put(b, g.begin()); }
    void end(ItBuf& b) override { put(b, g.end()); }
    uintptr_t deref(const ItBuf& a) override { return A(*I(a)); }
    uintptr_t arrow(const ItBuf& a) override
    {
        auto px = I(a).operator->();
        return A(*px.operator->());
    }
    bool preinc(ItBuf& a) override { It& r = ++I(a); return &r == &I(a); }
    void postinc(ItBuf& a, ItBuf& old) override { put(old, I(a)++); }
    unsigned cmp(const ItBuf& a, const ItBuf& b) override { return (I(a) == I(b) ? 1u : 0u) | (I(a) != I(b) ? 2u : 0u); }
    void resize(uint64_t n) override { g.resize(static_cast<Size>(n)); }
    void clear() override { g.clear(); }
    void fill(uint64_t n) override { sbepp::fill_group_header(g, static_cast<Size>(n)); }
};

// ---------------------------------------------------------------------------
// flat (random access) groups

struct Flat
{
    typedef ItBuf It;
    struct Info
    {
        uintptr_t got, want;
        int64_t gi, wi;
        uint8_t op;
        bool neg;
    };

    Case& c;
    FlatOps& o;
    c12layout::Dim d;
    int compiled;
    char* grp;
    uintptr_t data;
    uint64_t s, b, total, wlen;
    char* win; // window start (grp - 64)
    It bg_, en_;
    int64_t dmax, dmin;
    bool ok; // set-up succeeded

    Flat(Case& cs, FlatOps& ops) : c(cs), o(ops), d(c12layout::DIMS[cs.pair]), compiled(compiled_bl(cs.kind)), ok(false)
    {
        s = c.s;
        b = c.b;
        grp = region + LEAD + c.off;
        data = reinterpret_cast<uintptr_t>(grp) + d.hdr;
        dmax = diff_max(d.n_bits);
        dmin = diff_min(d.n_bits);
        if(s > type_max(d.n_bits) || b > type_max(d.b_bits)) return;
        if(b && s > (MAX_TOTAL - d.hdr) / b) return;
        total = d.hdr + s * b;
        wlen = total < 8192 ? total : 8192;
        win = grp - 64;
        fill_bg(win, wlen + 128, c.bg);
        o.make(grp, static_cast<std::size_t>(total + c.slack));
        if(c.hdr_by_setters)
        {
            bool as = HC_GUARDED(o.hdr_write(b, s));
            if(as) { fail("assert:get_header", hc::astate().expr); return; }
            char exp[16];
            memcpy(exp, grp, d.hdr);
            write_header_bytes(d, exp, s, b);
            if(memcmp(exp, grp, d.hdr) != 0)
            {
                fail("hdr:get_header-setters", "header bytes written by blockLength()/numInGroup() setters differ from the little-endian encoding");
                write_header_bytes(d, grp, s, b);
            }
        }
        else
            write_header_bytes(d, grp, s, b);
        bool as = HC_GUARDED({ o.begin(bg_); o.end(en_); });
        if(as) { fail("assert:begin/end", hc::astate().expr); return; }
        ok = true;
    }

    void fail(const std::string& sig, const std::string& what) { fail_str(sig, case_key(c), case_str(c), what); }

    bool representable(int64_t n) const { return n >= dmin && n <= dmax; }
    uintptr_t expect(int64_t idx) const { return data + static_cast<uint64_t>(idx) * b; }

    // address an iterator denotes, observed without dereferencing end(): idx == s is observed through --copy
    bool addr_ok(const It& it, int64_t idx, Info& inf) const
    {
        if(static_cast<uint64_t>(idx) < s)
        {
            inf.got = o.deref(it);
            inf.want = expect(idx);
            return inf.got == inf.want;
        }
        if(s == 0) return true;
        It cpy = it;
        o.predec(cpy);
        inf.got = o.deref(cpy);
        inf.want = expect(idx - 1);
        return inf.got == inf.want;
    }

    int check_node(const Node& nd, Info& inf) const
    {
        inf.op = nd.last;
        inf.neg = nd.neg;
        if(!addr_ok(nd.it, nd.idx, inf)) return FK_ADDR;
        if(static_cast<uint64_t>(nd.idx) < s)
        {
            inf.got = o.arrow(nd.it);
            if(inf.got != inf.want) return FK_ARROW;
        }
        if(representable(nd.idx))
        {
            inf.gi = o.diff(nd.it, bg_);
            inf.wi = nd.idx;
            if(inf.gi != inf.wi) return FK_DIFF;
        }
        int64_t rest = static_cast<int64_t>(s) - nd.idx;
        if(representable(rest))
        {
            inf.gi = o.diff(en_, nd.it);
            inf.wi = rest;
            if(inf.gi != inf.wi) return FK_DIFF;
        }
        inf.gi = (o.cmp(nd.it, bg_) & 3) * 4 + (o.cmp(nd.it, en_) & 3);
        inf.wi = (cmp_model(nd.idx) & 3) * 4 + (cmp_model(rest) & 3);
        if(inf.gi != inf.wi) return FK_CMP;
        return FK_OK;
    }

    // applies st to nd (nd updated on success)
    int apply(Node& nd, const Step& st, Info& inf) const
    {
        Node r = nd;
        r.last = st.op;
        r.neg = false;
        inf.op = st.op;
        inf.neg = false;
        switch(st.op)
        {
        case OP_ADD: o.add(r.it, nd.it, st.n); r.idx = nd.idx + st.n; r.neg = st.n < 0; break;
        case OP_RADD: o.radd(r.it, nd.it, st.n); r.idx = nd.idx + st.n; r.neg = st.n < 0; break;
        case OP_SUB: o.sub(r.it, nd.it, st.n); r.idx = nd.idx - st.n; r.neg = st.n < 0; break;
        case OP_IADD:
        {
            bool same = o.iadd(r.it, st.n);
            r.idx = nd.idx + st.n;
            r.neg = st.n < 0;
            inf.neg = r.neg;
            if(!same) return FK_REF;
            break;
        }
        case OP_ISUB:
        {
            bool same = o.isub(r.it, st.n);
            r.idx = nd.idx - st.n;
            r.neg = st.n < 0;
            inf.neg = r.neg;
            if(!same) return FK_REF;
            break;
        }
        case OP_PREINC:
        {
            bool same = o.preinc(r.it);
            r.idx = nd.idx + 1;
            if(!same) return FK_REF;
            break;
        }
        case OP_PREDEC:
        {
            bool same = o.predec(r.it);
            r.idx = nd.idx - 1;
            if(!same) return FK_REF;
            break;
        }
        case OP_POSTINC:
        case OP_POSTDEC:
        {
            It old;
            if(st.op == OP_POSTINC) o.postinc(r.it, old); else o.postdec(r.it, old);
            r.idx = nd.idx + (st.op == OP_POSTINC ? 1 : -1);
            if(!addr_ok(old, nd.idx, inf) || (o.cmp(old, nd.it) & 3) != 1) return FK_POSTVAL;
            break;
        }
        default: return FK_OK;
        }
        r.backward = nd.backward || r.idx < nd.idx || r.neg;
        int fk = check_node(r, inf);
        if(fk) return fk;
        nd = r;
        return FK_OK;
    }

    int subscript(const Node& nd, int64_t n, Info& inf) const
    {
        inf.op = OP_SUBSCR;
        inf.neg = n < 0;
        inf.got = o.subscr(nd.it, n);
        inf.want = expect(nd.idx + n);
        return inf.got == inf.want ? FK_OK : FK_ADDR;
    }

    std::string describe(int fk, const Info& inf) const
    {
        std::ostringstream o;
        o << FK_NAME[fk] << " at " << OP_SITE[inf.op] << ": ";
        if(fk == FK_ADDR || fk == FK_ARROW || fk == FK_POSTVAL)
            o << "entry address " << rel(inf.got, data) << ", index model expects " << rel(inf.want, data);
        else if(fk == FK_DIFF)
            o << "iterator difference " << inf.gi << ", index model expects " << inf.wi;
        else if(fk == FK_CMP && inf.op >= OP_EQ)
            o << "e1 " << OP_SITE[inf.op] << " e2 yields " << inf.gi << ", index model expects " << inf.wi;
        else if(fk == FK_CMP)
            o << "comparison bits (==begin,!=begin,==end,!=end) " << inf.gi << ", expected " << inf.wi;
        else
            o << "operator did not return a reference to *this";
        o << " (numInGroup=" << s << ", wire blockLength=" << b << ", header " << d.hdr << " bytes, uint" << d.n_bits << "/uint" << d.b_bits << ")";
        return o.str();
    }

    void report_fk(int fk, const Info& inf)
    {
        const Info* ip = &inf;
        const Flat* self = this;
        report(sigid(fk, inf.op, inf.neg), c, [=]() { return self->describe(fk, *ip); });
    }
    void report_assert(const char* where)
    {
        std::string e = hc::astate().expr;
        fail("assert:" + std::string(where) + ":" + e.substr(0, 60), "sbepp assertion fired inside the precondition domain: " + e);
    }

    // one guarded step + checks + optional subscripts; returns true when the node is good
    bool step(Node& nd, const Step& st, bool all_subs)
    {
        Info inf = Info();
        int fk = 0;
        int fk2 = 0;
        Info inf2 = Info();
        bool as = HC_GUARDED({
            fk = apply(nd, st, inf);
            if(!fk)
            {
                if(st.has_sub) fk2 = subscript(nd, st.sub_n, inf2);
                if(!fk2 && all_subs)
                    for(int64_t n = -nd.idx; n < static_cast<int64_t>(s) - nd.idx && !fk2; n++) fk2 = subscript(nd, n, inf2);
            }
        });
        if(as) { report_assert(OP_SITE[st.op]); return false; }
        if(fk) { report_fk(fk, inf); return false; }
        if(fk2) report_fk(fk2, inf2);
        return true;
    }

    bool base(Node& nd, uint8_t which, bool all_subs)
    {
        nd.it = which == OP_BEGIN ? bg_ : en_;
        nd.idx = which == OP_BEGIN ? 0 : static_cast<int64_t>(s);
        nd.last = which;
        nd.neg = false;
        nd.backward = false;
        Info inf = Info(), inf2 = Info();
        int fk = 0, fk2 = 0;
        bool as = HC_GUARDED({
            fk = check_node(nd, inf);
            if(!fk && all_subs)
                for(int64_t n = -nd.idx; n < static_cast<int64_t>(s) - nd.idx && !fk2; n++) fk2 = subscript(nd, n, inf2);
        });
        if(!ubsan_pending.empty()) drain_ubsan(case_str(c), case_key(c));
        if(as) { report_assert(OP_SITE[which]); return false; }
        if(fk) { report_fk(fk, inf); return false; }
        if(fk2) report_fk(fk2, inf2);
        return true;
    }

    // the seven binary operators between two good nodes
    void binary(const Node& a, const Node& bn)
    {
        Info inf = Info();
        int64_t di = a.idx - bn.idx;
        if(representable(di))
        {
            inf.gi = o.diff(a.it, bn.it);
            inf.wi = di;
            inf.op = OP_DIFF;
            if(inf.gi != inf.wi) report_fk(FK_DIFF, inf);
        }
        unsigned got = o.cmp(a.it, bn.it), want = cmp_model(di);
        for(int k = 0; k < 6; k++)
            if(((got >> k) & 1) != ((want >> k) & 1))
            {
                inf.op = (uint8_t)(OP_EQ + k);
                inf.gi = (got >> k) & 1;
                inf.wi = (want >> k) & 1;
                report_fk(FK_CMP, inf);
            }
    }

    bool binary_ok(const Node& a, const Node& bn) const
    {
        int64_t di = a.idx - bn.idx;
        bool good = !representable(di) || o.diff(a.it, bn.it) == di;
        return good && o.cmp(a.it, bn.it) == cmp_model(di);
    }

    // ---- container-level checks ------------------------------------------------
    void container()
    {
        const uint64_t nmax = type_max(d.n_bits);
        {
            uint64_t gs = 0, ss = 0, hb = 0, hn = 0, hsz = 0, mx = 0;
            bool ge = false;
            uintptr_t ga = 0, ha = 0;
            bool as = HC_GUARDED({
                gs = o.size();
                ge = o.empty();
                ss = o.sbe_size();
                mx = o.max_size();
                o.hdr_read(hb, hn, hsz, ha);
                ga = o.addr_group();
            });
            if(as) report_assert("size()/get_header");
            else
            {
                if(gs != s || ss != s) fail("size:size()", "size()=" + std::to_string(gs) + " sbe_size()=" + std::to_string(ss) + ", header numInGroup=" + std::to_string(s));
                if(ge != (s == 0)) fail("size:empty()", "empty() disagrees with numInGroup=" + std::to_string(s));
                if(hb != b || hn != s || hsz != (uint64_t)d.hdr || ha != reinterpret_cast<uintptr_t>(grp))
                    fail("hdr:get_header", "get_header reads blockLength=" + std::to_string(hb) + " numInGroup=" + std::to_string(hn) + " size=" + std::to_string(hsz)
                                               + ", bytes say " + std::to_string(b) + "/" + std::to_string(s) + "/" + std::to_string(d.hdr));
                if(ga != reinterpret_cast<uintptr_t>(grp)) fail("addr:addressof(group)", "addressof(group) is not the group start");
                if(mx != nmax - 1) fail("size:max_size()", "max_size()=" + std::to_string(mx) + ", numInGroup maxValue is " + std::to_string(nmax - 1));
            }
        }
        if(s > 0)
        {
            uintptr_t fa = 0, ba = 0, b0 = 0, e1 = 0;
            bool as = HC_GUARDED({
                fa = o.front();
                It bx;
                o.begin(bx);
                b0 = o.deref(bx);
            });
            if(as) report_assert("front()");
            else
            {
                if(fa != data) fail("addr:front()", "front() at " + rel(fa, data) + ", expected data+0");
                if(b0 != data) fail("addr:begin()", "*begin() at " + rel(b0, data) + ", expected data+0");
            }
            as = HC_GUARDED({
                ba = o.back();
                It e;
                o.end(e);
                o.predec(e);
                e1 = o.deref(e);
            });
            if(as) report_assert("back()");
            else
            {
                if(ba != expect(s - 1)) fail("addr:back()", "back() at " + rel(ba, data) + ", expected " + rel(expect(s - 1), data) + " (numInGroup=" + std::to_string(s) + ", blockLength=" + std::to_string(b) + ")");
                if(e1 != expect(s - 1)) fail("addr:end()", "*--end() at " + rel(e1, data) + ", expected " + rel(expect(s - 1), data) + " (numInGroup=" + std::to_string(s) + ", blockLength=" + std::to_string(b) + ")");
            }
        }
        // begin() + size() == end()
        if(representable(static_cast<int64_t>(s)) && s <= static_cast<uint64_t>(std::numeric_limits<int64_t>::max()))
        {
            bool eq = true, ne = false;
            Info inf = Info();
            bool aok = true;
            bool as = HC_GUARDED({
                It x;
                o.begin_plus_size(x, eq, ne);
                aok = addr_ok(x, static_cast<int64_t>(s), inf);
            });
            if(as) report_assert("begin()+size()");
            else
            {
                if(!eq || ne) fail("law:begin()+size()==end()", "begin()+size() does not compare equal to end()");
                if(!aok) fail("addr:begin()+size()", "begin()+size() denotes " + rel(inf.got, data) + " (observed one entry before), expected " + rel(inf.want, data));
            }
        }
        // operator[] at every / selected positions
        std::vector<uint64_t> ps;
        bool all = c.iterate && s <= 70000;
        if(!all)
        {
            uint64_t cand[6] = {0, 1, s / 2, s - 2, s - 1, s / 2 + 1};
            for(uint64_t x : cand)
                if(x < s) ps.push_back(x);
        }
        for(uint64_t x : c.pos)
            if(x < s) ps.push_back(x);
        {
            uint64_t badpos = 0;
            uintptr_t bad = 0;
            bool found = false;
            bool as = HC_GUARDED({
                if(all) found = !o.all_at(s, data, b, badpos, bad);
                for(size_t k = 0; k < ps.size() && !found; k++)
                {
                    uintptr_t a = o.at(ps[k]);
                    if(a != expect(ps[k])) { found = true; badpos = ps[k]; bad = a; }
                }
            });
            if(as) report_assert("group[pos]");
            else if(found)
                fail("addr:group[pos]", "group[" + std::to_string(badpos) + "] at " + rel(bad, data) + ", expected " + rel(expect(badpos), data) + " (numInGroup=" + std::to_string(s)
                                            + ", blockLength=" + std::to_string(b) + ", uint" + std::to_string(d.n_bits) + "/uint" + std::to_string(d.b_bits) + ")");
        }
        // range-for and explicit ++ iteration
        if(all)
        {
            uint64_t cnt = 0, badk = 0;
            uintptr_t bad = 0;
            bool found = false;
            bool as = HC_GUARDED({
                found = !o.range_for(s, data, b, cnt, badk, bad);
            });
            if(as) report_assert("range-for");
            else
            {
                if(cnt != s) fail("count:range-for", "range-for visited " + std::to_string(cnt) + (cnt > s ? "+" : "") + " entries, numInGroup=" + std::to_string(s));
                if(found) fail("addr:range-for", "range-for entry " + std::to_string(badk) + " at " + rel(bad, data) + ", expected " + rel(expect(badk), data));
            }
            // reverse walk with --
            cnt = 0;
            found = false;
            as = HC_GUARDED({
                found = !o.reverse_walk(s, data, b, cnt, badk, bad);
            });
            if(as) report_assert("reverse walk");
            else
            {
                if(cnt != s) fail("count:reverse-walk", "walking --end() to begin() took " + std::to_string(cnt) + " steps, numInGroup=" + std::to_string(s));
                if(found) fail("addr:reverse-walk", "entry " + std::to_string(badk) + " reached by -- at " + rel(bad, data) + ", expected " + rel(expect(badk), data));
            }
        }
        mutators();
    }

    void mutators()
    {
        const int nb = d.n_bits / 8, bb = d.b_bits / 8;
        const long ng0 = 64 + d.ng_off, bl0 = 64 + d.bl_off;
        uint64_t n2 = c.n2 & type_max(d.n_bits), n3 = c.n3 & type_max(d.n_bits);
        std::vector<char> snap(win, win + wlen + 128);
        uint64_t sz = 0;
        bool as = HC_GUARDED({ o.resize(n2); sz = o.size(); });
        if(as) report_assert("resize");
        else
        {
            long df = diff_except(win, snap, ng0, ng0 + nb, 0, 0);
            if(df >= 0) fail("hdr:resize", "resize(" + std::to_string(n2) + ") changed byte at group offset " + std::to_string(df - 64) + " outside numInGroup");
            else if(get_le(win + ng0, nb) != n2 || sz != n2) fail("hdr:resize", "after resize(" + std::to_string(n2) + ") numInGroup bytes hold " + std::to_string(get_le(win + ng0, nb)) + ", size()=" + std::to_string(sz));
        }
        bool em = false;
        as = HC_GUARDED({ o.clear(); sz = o.size(); em = o.empty(); });
        if(as) report_assert("clear");
        else
        {
            long df = diff_except(win, snap, ng0, ng0 + nb, 0, 0);
            if(df >= 0) fail("hdr:clear", "clear() changed byte at group offset " + std::to_string(df - 64) + " outside numInGroup");
            else if(get_le(win + ng0, nb) != 0 || sz != 0 || !em) fail("hdr:clear", "after clear() numInGroup bytes hold " + std::to_string(get_le(win + ng0, nb)));
        }
        uintptr_t ha = 0;
        as = HC_GUARDED({
            ha = o.fill(n3);
        });
        if(as) report_assert("fill_group_header");
        else
        {
            long df = diff_except(win, snap, ng0, ng0 + nb, bl0, bl0 + bb);
            if(df >= 0) fail("hdr:fill_group_header", "fill_group_header changed byte at group offset " + std::to_string(df - 64) + " outside the header fields");
            else if(get_le(win + ng0, nb) != n3 || get_le(win + bl0, bb) != (uint64_t)compiled || ha != reinterpret_cast<uintptr_t>(grp))
                fail("hdr:fill_group_header", "fill_group_header(g," + std::to_string(n3) + ") left blockLength=" + std::to_string(get_le(win + bl0, bb)) + " numInGroup="
                                                  + std::to_string(get_le(win + ng0, nb)) + ", expected " + std::to_string(compiled) + "/" + std::to_string(n3));
        }
        write_header_bytes(d, grp, s, b);
    }

    // ---- explicit chains (replay, rapidcheck) -------------------------------------
    std::vector<Node> exec_chain(const Chain& ch)
    {
        std::vector<Node> out;
        Node nd;
        if(!base(nd, ch.base, c.all_subs)) return out;
        out.push_back(nd);
        for(auto& st : ch.steps)
        {
            // validity (replay input may be arbitrary): keep the index inside [0, s] and n representable
            int64_t ni = nd.idx;
            if(st.op == OP_ADD || st.op == OP_RADD || st.op == OP_IADD) ni += st.n;
            else if(st.op == OP_SUB || st.op == OP_ISUB) ni -= st.n;
            else if(st.op == OP_PREINC || st.op == OP_POSTINC) ni++;
            else if(st.op == OP_PREDEC || st.op == OP_POSTDEC) ni--;
            else break;
            if(ni < 0 || static_cast<uint64_t>(ni) > s || !representable(st.n)) break;
            if((st.op == OP_SUB || st.op == OP_ISUB) && st.n == dmin) break;
            Step s2 = st;
            if(s2.has_sub && (ni + s2.sub_n < 0 || static_cast<uint64_t>(ni + s2.sub_n) >= s || !representable(s2.sub_n))) s2.has_sub = false;
            if(!step(nd, s2, c.all_subs)) break;
            out.push_back(nd);
            if(!ubsan_pending.empty()) drain_ubsan(case_str(c), case_key(c));
        }
        return out;
    }

    void run()
    {
        if(!ok) return;
        rep.eval();
        if(c.cont) container();
        std::vector<Node> n1, n2;
        if(c.has_e1) n1 = exec_chain(c.e1);
        if(c.has_e2) n2 = exec_chain(c.e2);
        bool as = HC_GUARDED({
            for(size_t i = 0; i < n1.size(); i++)
                for(size_t j = 0; j < n2.size(); j++)
                    if(!binary_ok(n1[i], n2[j])) binary(n1[i], n2[j]);
        });
        if(as) report_assert("binary");
        if(!ubsan_pending.empty()) drain_ubsan(case_str(c), case_key(c));
    }

    // ---- exhaustive enumeration for this (s, b) ------------------------------------
    std::vector<PNode> pn;

    static bool chain_nontrivial(const Node& nd, const std::vector<Step>& steps)
    {
        if(nd.backward) return true;
        unsigned mask = 0;
        for(auto& st : steps) mask |= 1u << st.op;
        return (mask & (mask - 1)) != 0;
    }

    void visit(const Node& nd, int depth, int max_depth)
    {
        // the chain expression itself + one it[n] expression per valid n
        const bool big = s >= 2 && !g_prepass;
        if(!g_prepass) rep.evaluations += 1 + (long)s;
        if(big)
        {
            bool nt = chain_nontrivial(nd, c.e1.steps);
            enum_nontrivial += nt ? 1 : 0;
            enum_nontrivial += (nt || depth > 0) ? (long long)s : nd.idx;
        }
        if(depth <= 2 && !g_prepass)
        {
            PNode p;
            p.nd = nd;
            p.base = c.e1.base;
            p.nsteps = (uint8_t)depth;
            for(int k = 0; k < depth && k < 2; k++) p.st[k] = c.e1.steps[k];
            pn.push_back(p);
        }
        if(depth == max_depth) return;
        const int64_t S = static_cast<int64_t>(s);
        static const uint8_t ARITH[5] = {OP_ADD, OP_RADD, OP_IADD, OP_SUB, OP_ISUB};
        for(uint8_t op : ARITH)
        {
            bool minus = (op == OP_SUB || op == OP_ISUB);
            int64_t lo = minus ? nd.idx - S : -nd.idx, hi = minus ? nd.idx : S - nd.idx;
            for(int64_t n = lo; n <= hi; n++) child(nd, Step(op, n), depth, max_depth);
        }
        if(nd.idx < S) { child(nd, Step(OP_PREINC, 0), depth, max_depth); child(nd, Step(OP_POSTINC, 0), depth, max_depth); }
        if(nd.idx > 0) { child(nd, Step(OP_PREDEC, 0), depth, max_depth); child(nd, Step(OP_POSTDEC, 0), depth, max_depth); }
    }
    void child(const Node& nd, const Step& st, int depth, int max_depth)
    {
        c.e1.steps.push_back(st);
        Node ch = nd;
        bool good = step(ch, st, true);
        if(!ubsan_pending.empty()) drain_ubsan(case_str(c), case_key(c));
        if(good) visit(ch, depth + 1, max_depth);
        else if(!g_prepass) rep.evaluations += 1;
        c.e1.steps.pop_back();
    }

    void set_chain(Chain& ch, const PNode& p)
    {
        ch.base = p.base;
        ch.steps.assign(p.st, p.st + p.nsteps);
    }

    void enumerate(int max_depth, int pair_depth_b)
    {
        if(!ok) return;
        c.cont = true;
        c.iterate = true;
        c.n2 = (s + 3) & type_max(d.n_bits);
        c.n3 = s + 1;
        set_current(case_str(c));
        rep.eval();
        container();
        if(!ubsan_pending.empty()) drain_ubsan(case_str(c), case_key(c));
        c.cont = false;
        c.has_e1 = true;
        c.all_subs = true;
        pn.clear();
        // shallow passes first, so that findings the sanitizer reports only once per code location (UBSan) and
        // crashes are attributed to the shortest expression; they are not counted
        for(int md = 0; md <= max_depth; md++)
        for(uint8_t bs = OP_BEGIN; bs <= OP_END; bs++)
        {
            g_prepass = md < max_depth;
            c.e1.base = bs;
            c.e1.steps.clear();
            Node nd;
            if(base(nd, bs, true)) visit(nd, 0, md);
            g_prepass = false;
        }
        // binary operators over all pairs (left: depth <= 2, right: depth <= pair_depth_b)
        c.all_subs = false;
        c.has_e2 = true;
        long long npairs = 0, ntpairs = 0;
        for(size_t i = 0; i < pn.size(); i++)
        {
            size_t badj = pn.size();
            const PNode& a = pn[i];
            bool as = HC_GUARDED(badj = o.pairs(pn.data(), pn.size(), i, pair_depth_b, dmin, dmax, npairs, ntpairs));
            if(as || badj != pn.size())
            {
                set_chain(c.e1, a);
                set_chain(c.e2, pn[as ? 0 : badj]);
                if(as) report_assert("binary");
                else
                    for(size_t j = badj; j < pn.size(); j++)
                        if(pn[j].nsteps <= pair_depth_b && !binary_ok(a.nd, pn[j].nd))
                        {
                            set_chain(c.e2, pn[j]);
                            binary(a.nd, pn[j].nd);
                        }
            }
        }
        rep.evaluations += 7 * npairs;
        if(s >= 2) enum_nontrivial += 7 * ntpairs;
        if(!ubsan_pending.empty()) drain_ubsan(case_str(c), case_key(c));
        c.has_e1 = c.has_e2 = false;
        c.e1.steps.clear();
        c.e2.steps.clear();
    }
};

// ---------------------------------------------------------------------------
// nested (forward) groups

inline void inner_params(unsigned seed, uint64_t i, uint64_t& in_s, uint64_t& in_b, uint64_t& dlen)
{
    if(seed == 0) { in_s = 0; in_b = c12layout::INNER_BL; dlen = 0; return; }
    uint64_t h = (i + 1) * 0x9E3779B97F4A7C15ull ^ (uint64_t)seed * 0xC2B2AE3D27D4EB4Full;
    h ^= h >> 31;
    h *= 0xD6E8FEB86659FD93ull;
    h ^= h >> 29;
    in_s = h % 4;
    in_b = (h >> 8) % 3;
    dlen = (h >> 16) % 8;
}

struct Nested
{
    typedef ItBuf It;
    Case& c;
    NestedOps& o;
    c12layout::Dim d;
    char* grp;
    uint64_t s, b, total;
    std::vector<uint64_t> start; // offsets from grp; start[s] = total
    char* win;
    bool ok;

    Nested(Case& cs, NestedOps& ops) : c(cs), o(ops), d(c12layout::DIMS[cs.pair]), ok(false)
    {
        s = c.s;
        b = c.b;
        grp = region + LEAD + c.off;
        if(s > type_max(d.n_bits) || b > type_max(d.b_bits) || s > 100000) return;
        if(b && s > SMALL_TOTAL / b) return;
        // reference sizes
        uint64_t pos = d.hdr;
        start.reserve(s + 1);
        for(uint64_t i = 0; i < s; i++)
        {
            uint64_t is, ib, dl;
            inner_params(c.inner, i, is, ib, dl);
            start.push_back(pos);
            pos += b + d.hdr + is * ib + c12layout::DATA_LEN_BYTES + dl;
            if(pos > SMALL_TOTAL) return;
        }
        start.push_back(pos);
        total = pos;
        win = grp - 64;
        fill_bg(win, total + 128, c.bg);
        write_header_bytes(d, grp, s, b);
        for(uint64_t i = 0; i < s; i++)
        {
            uint64_t is, ib, dl;
            inner_params(c.inner, i, is, ib, dl);
            char* p = grp + start[i] + b;
            write_header_bytes(d, p, is, ib);
            p[d.hdr + is * ib] = static_cast<char>(dl);
        }
        o.make(grp, static_cast<std::size_t>(total + c.slack));
        ok = true;
    }

    void fail(const std::string& sig, const std::string& what) { fail_str(sig, case_key(c), case_str(c), what); }
    void report_assert(const char* where)
    {
        std::string e = hc::astate().expr;
        fail("assert:nested:" + std::string(where) + ":" + e.substr(0, 60), "sbepp assertion fired inside the precondition domain: " + e);
    }
    uintptr_t expect(uint64_t i) const { return reinterpret_cast<uintptr_t>(grp) + start[i]; }
    std::string relg(uintptr_t p) const
    {
        long long dd = (long long)(p - reinterpret_cast<uintptr_t>(grp));
        return "group" + std::string(dd < 0 ? "-" : "+") + std::to_string(dd < 0 ? -dd : dd);
    }

    void run()
    {
        if(!ok) return;
        rep.eval();
        const uint64_t nmax = type_max(d.n_bits);
        {
            uint64_t gs = 0, ss = 0, hb = 0, hn = 0, sb = 0, mx = 0;
            bool ge = false;
            bool as = HC_GUARDED({
                gs = o.size();
                ge = o.empty();
                ss = o.sbe_size();
                mx = o.max_size();
                o.hdr_read(hb, hn);
                sb = o.size_bytes();
            });
            if(as) report_assert("size()/get_header/size_bytes");
            else
            {
                if(gs != s || ss != s) fail("size:nested:size()", "size()=" + std::to_string(gs) + ", header numInGroup=" + std::to_string(s));
                if(ge != (s == 0)) fail("size:nested:empty()", "empty() disagrees with numInGroup=" + std::to_string(s));
                if(hb != b || hn != s) fail("hdr:nested:get_header", "get_header reads " + std::to_string(hb) + "/" + std::to_string(hn));
                if(mx != nmax - 1) fail("size:nested:max_size()", "max_size()=" + std::to_string(mx));
                if(sb != total) fail("nested:size_bytes", "size_bytes(group)=" + std::to_string(sb) + ", reference sum of entries " + std::to_string(total));
            }
        }
        if(s > 0)
        {
            uintptr_t fa = 0;
            bool as = HC_GUARDED(fa = o.front());
            if(as) report_assert("front()");
            else if(fa != expect(0)) fail("addr:nested:front()", "front() at " + relg(fa) + ", expected " + relg(expect(0)));
        }
        {
            uint64_t cnt = 0, badk = 0, badsz = 0;
            uintptr_t bad = 0;
            bool found = false, szbad = false;
            bool as = HC_GUARDED({
                o.range_for(s, reinterpret_cast<uintptr_t>(grp), start.data(), cnt, found, szbad, badk, bad, badsz);
            });
            if(as) report_assert("range-for");
            else
            {
                if(cnt != s) fail("count:nested:range-for", "range-for visited " + std::to_string(cnt) + " entries, numInGroup=" + std::to_string(s));
                if(found) fail("nested:entry-start", "range-for entry " + std::to_string(badk) + " at " + relg(bad) + ", previous entry ends at " + relg(expect(badk)) + " (wire blockLength=" + std::to_string(b) + ")");
                if(szbad) fail("nested:entry-size", "size_bytes(entry " + std::to_string(badk) + ")=" + std::to_string(badsz) + ", reference " + std::to_string(start[badk + 1] - start[badk]));
            }
        }
        // explicit walk with the requested mix of ++it / it++, plus a second (multipass) iterator
        {
            std::string what, sig;
            bool as = HC_GUARDED({
                It it;
                It en;
                It it2;
                It bgn;
                o.begin(it);
                o.end(en);
                o.begin(it2);
                o.begin(bgn);
                uint64_t idx = 0;
                size_t k = 0;
                for(;;)
                {
                    if(idx < s)
                    {
                        uintptr_t a = o.deref(it);
                        uintptr_t a2 = o.arrow(it);
                        uintptr_t a3 = o.deref(it2);
                        if(a != expect(idx)) { sig = "nested:entry-start"; what = "entry " + std::to_string(idx) + " at " + relg(a) + ", previous entry ends at " + relg(expect(idx)); break; }
                        if(a2 != a) { sig = "arrow:nested"; what = "it-> and *it denote different entries"; break; }
                        if(a3 != a) { sig = "nested:multipass"; what = "a second iterator advanced to the same index denotes another entry"; break; }
                    }
                    if(o.cmp(it, en) != (idx == s ? 1u : 2u) || o.cmp(it, it2) != 1u || o.cmp(it, bgn) != (idx == 0 ? 1u : 2u))
                    {
                        sig = "cmp:nested:==";
                        what = "iterator equality disagrees with the index model at index " + std::to_string(idx);
                        break;
                    }
                    if(idx >= s || k >= c.seq.size()) break;
                    if(c.seq[k])
                    {
                        It before = it;
                        It old;
                        o.postinc(it, old);
                        if(o.cmp(old, before) != 1u || o.deref(old) != expect(idx)) { sig = "postval:nested:it++"; what = "it++ did not return the old position"; break; }
                    }
                    else
                    {
                        if(!o.preinc(it)) { sig = "ref:nested:++it"; what = "++it did not return *this"; break; }
                    }
                    o.preinc(it2);
                    idx++;
                    k++;
                }
            });
            if(as) report_assert("walk");
            else if(!sig.empty()) fail(sig, what);
        }
        // mutators
        {
            const int nb = d.n_bits / 8, bb = d.b_bits / 8;
            const long ng0 = 64 + d.ng_off, bl0 = 64 + d.bl_off;
            uint64_t n2 = c.n2 & type_max(d.n_bits), n3 = c.n3 & type_max(d.n_bits);
            std::vector<char> snap(win, win + total + 128);
            uint64_t sz = 0;
            bool as = HC_GUARDED({ o.resize(n2); sz = o.size(); });
            if(as) report_assert("resize");
            else if(diff_except(win, snap, ng0, ng0 + nb, 0, 0) >= 0 || get_le(win + ng0, nb) != n2 || sz != n2)
                fail("hdr:nested:resize", "resize(" + std::to_string(n2) + ") must change exactly the numInGroup bytes");
            as = HC_GUARDED({ o.clear(); sz = o.size(); });
            if(as) report_assert("clear");
            else if(diff_except(win, snap, ng0, ng0 + nb, 0, 0) >= 0 || get_le(win + ng0, nb) != 0 || sz != 0)
                fail("hdr:nested:clear", "clear() must zero exactly the numInGroup bytes");
            as = HC_GUARDED(o.fill(n3));
            if(as) report_assert("fill_group_header");
            else if(diff_except(win, snap, ng0, ng0 + nb, bl0, bl0 + bb) >= 0 || get_le(win + ng0, nb) != n3 || get_le(win + bl0, bb) != (uint64_t)c12layout::NESTED_BL)
                fail("hdr:nested:fill_group_header", "fill_group_header(g," + std::to_string(n3) + ") must write blockLength=" + std::to_string(c12layout::NESTED_BL) + " and numInGroup only");
            write_header_bytes(d, grp, s, b);
        }
        if(!ubsan_pending.empty()) drain_ubsan(case_str(c), case_key(c));
    }
};

// ---------------------------------------------------------------------------
// dispatch over the 16 pairs x 3 kinds

template<int P> struct MsgOf;
#define C12_DEF(I, N, B) \
    template<> struct MsgOf<I> { typedef ::matrix::messages::m_##N##_##B<char> type; };
C12_FOR_EACH_PAIR(C12_DEF)
#undef C12_DEF

template<int P, int K> struct GroupOf;
template<int P> struct GroupOf<P, K_FLAT> { typedef decltype(std::declval<typename MsgOf<P>::type>().flat()) type; };
template<int P> struct GroupOf<P, K_EMPTY> { typedef decltype(std::declval<typename MsgOf<P>::type>().bare()) type; };
template<int P> struct GroupOf<P, K_NESTED> { typedef decltype(std::declval<typename MsgOf<P>::type>().nested()) type; };

struct EnumArgs { int max_depth, pair_depth_b; };

FlatOps* FLAT_OPS[16][2];
NestedOps* NESTED_OPS[16];
template<int P>
void register_pair()
{
    FLAT_OPS[P][K_FLAT] = new FlatImpl<typename GroupOf<P, K_FLAT>::type>();
    FLAT_OPS[P][K_EMPTY] = new FlatImpl<typename GroupOf<P, K_EMPTY>::type>();
    NESTED_OPS[P] = new NestedImpl<typename GroupOf<P, K_NESTED>::type>();
}
void register_all()
{
#define C12_REG(I, N, B) register_pair<I>();
    C12_FOR_EACH_PAIR(C12_REG)
#undef C12_REG
}

void run_case(Case& c, const EnumArgs* en = nullptr)
{
    if(c.pair < 0 || c.pair > 15) return;
    if(c.kind == K_NESTED)
    {
        Nested n(c, *NESTED_OPS[c.pair]);
        n.run();
    }
    else
    {
        Flat f(c, *FLAT_OPS[c.pair][c.kind]);
        if(en) f.enumerate(en->max_depth, en->pair_depth_b); else f.run();
    }
}

bool mine(int pair) { return pair % part_n == part_i; }

// ---------------------------------------------------------------------------
// exhaustive part

void exhaustive()
{
    EnumArgs en;
    en.max_depth = 3;
    en.pair_depth_b = 2;
    long cases = 0;
    const uint64_t smax = opt.thorough ? 6 : 4;
    for(int p = 0; p < 16; p++)
    {
        if(!mine(p)) continue;
        for(int kind = 0; kind < 2; kind++)
        {
            const int comp = compiled_bl(kind);
            std::vector<uint64_t> bs;
            if(kind == K_EMPTY) bs.push_back(0);
            else { /* compiled is non-zero */ }
            if(comp) bs.push_back(comp);
            bs.push_back(comp + 1);
            bs.push_back(comp + 7);
            for(uint64_t s = 0; s <= smax; s++)
                for(uint64_t b : bs)
                {
                    Case c;
                    c.pair = p;
                    c.kind = kind;
                    c.s = s;
                    c.b = b;
                    c.off = (unsigned)((s * 7 + b) % 8);
                    c.slack = 0;
                    c.bg = (unsigned)(1 + s + b);
                    c.hdr_by_setters = ((s + b) & 1) != 0;
                    run_case(c, &en);
                    cases++;
                    if(rep.samples.size() < 2 && s == 3) rep.sample("exhaustive: " + case_str(c) + " + all chains of <=3 steps, it[n], all pairs");
                }
        }
        // nested: s 0..4, b in {compiled, +1, +7}, three inner-size patterns, every mix of ++it / it++
        for(uint64_t s = 0; s <= smax; s++)
            for(uint64_t b : {(uint64_t)c12layout::NESTED_BL, (uint64_t)c12layout::NESTED_BL + 1, (uint64_t)c12layout::NESTED_BL + 7})
                for(unsigned inner = 0; inner < 3; inner++)
                    for(unsigned m = 0; m < (1u << s); m++)
                    {
                        Case c;
                        c.pair = p;
                        c.kind = K_NESTED;
                        c.s = s;
                        c.b = b;
                        c.off = (unsigned)((s + b + inner) % 8);
                        c.bg = 3 + inner;
                        c.inner = inner;
                        c.n2 = s + 2;
                        c.n3 = s + 1;
                        for(uint64_t k = 0; k < s; k++) c.seq.push_back((m >> k) & 1);
                        set_current(case_str(c));
                        run_case(c);
                        cases++;
                        if(s >= 2 && m != 0 && m != (1u << s) - 1) enum_nontrivial++;
                    }
    }
    rep.cls("exhaustive_group_cases", cases);
    rep.exhaustive = 1;
}

// ---------------------------------------------------------------------------
// random part (rapidcheck); every draw goes through rc so that shrinking and the seed fully determine a case

template<class T>
T rng(T lo, T hi_incl)
{
    if(lo >= hi_incl) return lo;
    return *rc::gen::resize(100, rc::gen::inRange<T>(lo, static_cast<T>(hi_incl + 1)));
}

int64_t pick_n(int64_t lo, int64_t hi)
{
    if(lo >= hi) return lo;
    int k = rng<int>(0, 5);
    int64_t n;
    if(k <= 2) n = rng<int64_t>(-3, 3);
    else if(k == 3) n = rng<int>(0, 1) ? lo : hi;
    else n = rng<int64_t>(lo, hi);
    return n < lo ? lo : n > hi ? hi : n;
}

Chain gen_chain(uint64_t s, int64_t dmin, int64_t dmax, int maxlen)
{
    Chain ch;
    ch.base = rng<int>(0, 1) ? OP_END : OP_BEGIN;
    int64_t S = static_cast<int64_t>(s);
    int64_t idx = ch.base == OP_BEGIN ? 0 : S;
    int len = rng<int>(0, maxlen);
    for(int k = 0; k < len; k++)
    {
        Step st;
        st.op = (uint8_t)rng<int>(OP_ADD, OP_POSTDEC);
        if(st.op >= OP_ADD && st.op <= OP_ISUB)
        {
            bool minus = st.op == OP_SUB || st.op == OP_ISUB;
            int64_t lo = minus ? idx - S : -idx, hi = minus ? idx : S - idx;
            if(lo < dmin) lo = dmin;
            if(hi > dmax) hi = dmax;
            if(minus && lo == dmin) lo++; // [random.access.iterators]: r -= n requires |n| representable
            if(lo > hi) continue;
            st.n = pick_n(lo, hi);
            idx += minus ? -st.n : st.n;
        }
        else if(st.op == OP_PREINC || st.op == OP_POSTINC)
        {
            if(idx >= S) continue;
            idx++;
        }
        else
        {
            if(idx <= 0) continue;
            idx--;
        }
        if(s > 0 && rng<int>(0, 1))
        {
            int64_t lo = -idx, hi = S - 1 - idx;
            if(lo < dmin) lo = dmin;
            if(hi > dmax) hi = dmax;
            if(lo <= hi) { st.has_sub = true; st.sub_n = pick_n(lo, hi); }
        }
        ch.steps.push_back(st);
    }
    return ch;
}

std::vector<int> my_pairs;

void chain_traits(const Chain& ch, bool& backward, unsigned& mask)
{
    for(auto& st : ch.steps)
    {
        mask |= 1u << st.op;
        if(st.has_sub) { mask |= 1u << OP_SUBSCR; if(st.sub_n < 0) backward = true; }
        if(st.op == OP_PREDEC || st.op == OP_POSTDEC) backward = true;
        if((st.op == OP_ADD || st.op == OP_RADD || st.op == OP_IADD) && st.n < 0) backward = true;
        if((st.op == OP_SUB || st.op == OP_ISUB) && st.n != 0) backward = true;
    }
}

void prop_flat()
{
    Case c;
    c.pair = my_pairs[rng<int>(0, (int)my_pairs.size() - 1)];
    c.kind = rng<int>(0, 1);
    const c12layout::Dim& d = c12layout::DIMS[c.pair];
    const uint64_t nmax = type_max(d.n_bits), bmax = type_max(d.b_bits);
    int sk = rng<int>(0, 9);
    const char* scls;
    if(sk <= 1) { c.s = rng<uint64_t>(0, 8); scls = "s_0_8"; }
    else if(sk <= 6) { c.s = rng<uint64_t>(5, 300); scls = "s_5_300"; }
    else if(sk == 7)
    {
        static const uint64_t B[8] = {126, 127, 128, 129, 254, 255, 256, 300};
        c.s = B[rng<int>(0, 7)];
        scls = "s_boundary";
    }
    else
    {
        // numInGroup in the upper half of its type (positions not representable in difference_type)
        uint64_t top = d.n_bits == 64 ? (1ull << 62) : nmax;
        uint64_t half = d.n_bits == 64 ? (1ull << 31) : (nmax >> 1) - 2;
        c.s = rng<uint64_t>(half, top);
        scls = "s_upper_half";
    }
    if(c.s > nmax) c.s = nmax;
    const int comp = compiled_bl(c.kind);
    uint64_t bcap = (MAX_TOTAL - d.hdr) / (c.s ? c.s : 1);
    if(bcap > bmax) bcap = bmax;
    int bk = rng<int>(0, 6);
    const char* bcls;
    if(bk == 0) { c.b = 0; bcls = "b_zero"; }
    else if(bk == 1) { c.b = comp; bcls = "b_compiled"; }
    else if(bk == 2) { c.b = comp + rng<uint64_t>(1, 8); bcls = "b_compiled_plus"; }
    else if(bk == 3) { c.b = rng<uint64_t>(0, 64); bcls = "b_0_64"; }
    else if(bk == 4) { c.b = rng<uint64_t>(65, 65535); bcls = "b_65_65535"; }
    else { c.b = rng<uint64_t>(65536, bcap > 65536 ? bcap : 65536); bcls = "b_large"; }
    if(c.b > bcap) { c.b = bcap; }
    c.off = rng<unsigned>(0, 63);
    c.slack = rng<int>(0, 1) ? 0 : rng<unsigned>(0, 64);
    c.bg = rng<unsigned>(1, 1000);
    c.hdr_by_setters = rng<int>(0, 1) != 0;
    c.cont = true;
    c.iterate = c.s <= 2000 || (c.s <= 70000 && rng<int>(0, 9) == 0);
    c.n2 = rng<uint64_t>(0, nmax > (1ull << 62) ? (1ull << 62) : nmax);
    c.n3 = rng<uint64_t>(0, nmax > (1ull << 62) ? (1ull << 62) : nmax);
    if(c.s)
        for(int k = 0; k < 4; k++) c.pos.push_back(rng<int>(0, 1) ? rng<uint64_t>(c.s / 2, c.s - 1) : rng<uint64_t>(0, c.s - 1));
    c.all_subs = c.s <= 6;
    c.has_e1 = c.has_e2 = true;
    c.e1 = gen_chain(c.s, diff_min(d.n_bits), diff_max(d.n_bits), 8);
    c.e2 = gen_chain(c.s, diff_min(d.n_bits), diff_max(d.n_bits), 4);
    std::string ks = case_str(c);
    set_current(ks);
    run_case(c);
    rep.cls(std::string("rand_flat_") + scls);
    rep.cls(std::string("rand_flat_") + bcls);
    rep.cls(std::string("rand_flat_dim_") + std::to_string(d.n_bits) + "x" + std::to_string(d.b_bits));
    bool backward = false;
    unsigned mask = 1u << OP_EQ;
    chain_traits(c.e1, backward, mask);
    chain_traits(c.e2, backward, mask);
    if(c.s >= 5 && (backward || (mask & (mask - 1))))
    {
        rep.nontriv(std::to_string(c.pair) + "|" + std::to_string(c.kind) + "|" + std::to_string(c.s) + "|" + std::to_string(c.b) + "|" + chain_str(c.e1) + "|" + chain_str(c.e2));
        if(backward) rep.cls("rand_flat_has_backward_step");
    }
    rep.sample("random: " + ks, 6);
}

void prop_nested()
{
    Case c;
    c.pair = my_pairs[rng<int>(0, (int)my_pairs.size() - 1)];
    c.kind = K_NESTED;
    const c12layout::Dim& d = c12layout::DIMS[c.pair];
    const uint64_t nmax = type_max(d.n_bits), bmax = type_max(d.b_bits);
    c.s = rng<int>(0, 2) == 0 ? rng<uint64_t>(0, 8) : rng<uint64_t>(5, 300);
    if(c.s > nmax) c.s = nmax;
    uint64_t bcap = (rng<int>(0, 19) == 0 ? SMALL_TOTAL / 2 : 65536) / (c.s ? c.s : 1);
    if(bcap > bmax) bcap = bmax;
    int bk = rng<int>(0, 5);
    const char* bcls;
    if(bk == 0) { c.b = c12layout::NESTED_BL; bcls = "b_compiled"; }
    else if(bk == 1) { c.b = rng<uint64_t>(0, 1); bcls = "b_below_compiled"; }
    else if(bk == 2) { c.b = c12layout::NESTED_BL + rng<uint64_t>(1, 8); bcls = "b_compiled_plus"; }
    else if(bk == 3) { c.b = rng<uint64_t>(0, 2000); bcls = "b_0_2000"; }
    else { c.b = rng<uint64_t>(0, bcap); bcls = "b_upto_cap"; }
    if(c.b > bcap) c.b = bcap;
    c.off = rng<unsigned>(0, 63);
    c.slack = rng<int>(0, 1) ? 0 : rng<unsigned>(0, 64);
    c.bg = rng<unsigned>(1, 1000);
    c.inner = rng<unsigned>(0, 100000);
    c.n2 = rng<uint64_t>(0, nmax > (1ull << 62) ? (1ull << 62) : nmax);
    c.n3 = rng<uint64_t>(0, nmax > (1ull << 62) ? (1ull << 62) : nmax);
    int mode = rng<int>(0, 3);
    uint64_t len = rng<uint64_t>(0, c.s);
    if(mode >= 2) len = c.s;
    bool pre = false, post = false;
    for(uint64_t k = 0; k < len; k++)
    {
        uint8_t v = mode == 0 ? 0 : mode == 1 ? 1 : (uint8_t)rng<int>(0, 1);
        c.seq.push_back(v);
        (v ? post : pre) = true;
    }
    std::string ks = case_str(c);
    set_current(ks);
    run_case(c);
    rep.cls(std::string("rand_nested_") + bcls);
    if(c.s >= 5 && pre && post) rep.nontriv("n|" + ks);
    rep.sample("random: " + ks, 8);
}

void run_property(const char* name, void (*body)())
{
    for(int round = 0; round < 40; round++)
    {
        in_rc = true;
        bool good = rc::check(name, [body]() {
            rc_case_failed = false;
            body();
            if(rc_case_failed) RC_FAIL(rc_last_sig);
        });
        in_rc = false;
        if(good) break;
        if(rc_last_sig.empty() || rc_reported.count(rc_last_sig)) break; // not ours (generation failure): reported by rapidcheck on stderr
        rc_reported.insert(rc_last_sig);
        rc_last_sig.clear();
    }
}

void random_part()
{
    for(int p = 0; p < 16; p++)
        if(mine(p)) my_pairs.push_back(p);
    if(my_pairs.empty()) return;
    run_property("C12 flat groups: container + iterator laws", prop_flat);
    run_property("C12 nested groups: forward range laws", prop_nested);
}
} // namespace

int main(int argc, char** argv)
{
    setvbuf(stdout, nullptr, _IOLBF, 0);
    opt = hc::parse_args(argc, argv);
    rep.opt = &opt;
    for(int i = 1; i < argc; i++)
    {
        std::string a = argv[i];
        if(a == "--part" && i + 1 < argc) { sscanf(argv[++i], "%d/%d", &part_i, &part_n); }
        else if(a == "--only" && i + 1 < argc)
        {
            std::string v = argv[++i];
            do_exh = v == "exh";
            do_rand = v == "rand";
        }
    }
    if(part_n < 1) part_n = 1;
    init_region();
    init_sigids();
    register_all();
    signal(SIGABRT, on_abort);
    __sanitizer_set_death_callback(dump_current);
    if(!opt.replay.empty())
    {
        Case c;
        if(!parse_case(opt.replay, c))
        {
            printf("FAIL harness:replay-parse\t%s\tcannot parse the case\n", hc::Report::one_line(opt.replay).c_str());
            return 1;
        }
        set_current(case_str(c));
        printf("REPLAY %s\n", case_str(c).c_str());
        run_case(c);
        if(rep.evaluations == 0) printf("INVALID case is outside the generator domain (sizes do not fit the types / the region)\n");
        trk.flush();
        return rep.finish();
    }
    if(do_exh) exhaustive();
    if(do_rand) random_part();
    g_current[0] = 0;
    trk.flush();
    printf("STAT nontrivial %lld\n", enum_nontrivial);
    return rep.finish();
}
