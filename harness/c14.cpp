// C14 - Fixed-length arrays: assignment, padding and string length are exact.
//
// Run-time search over sbepp::detail::static_array_ref<Byte, char, N, Tag>:
//   * exhaustive: N in 0..5 x all prior contents over {NUL,'a','b'} x all inputs
//     of length 0..N x eos modes x overloads (see c14_ref.hpp for the list)
//   * rapidcheck: N from a fixed set up to 64, arbitrary bytes
// Oracle: c14_ref.hpp (written from the doxygen comments / doc/representation.md).
// Every case runs on a roomy arena (slack + guard + array + guard + slack + NUL
// sentinel; the whole arena is compared) and, if that passed, again on a heap
// block of exactly guard+N+guard bytes so that ASan sees any access beyond it.
// Protocol: see vlib/libharness.py.  The constexpr differential lives in
// c14_cx.cpp.
#include <sbepp/sbepp.hpp>

#include "hcommon.hpp"
#include "c14_ref.hpp"

#include <rapidcheck.h>

#include <algorithm>
#include <csignal>
#include <forward_list>
#include <initializer_list>
#include <iterator>
#include <list>
#include <string>
#include <vector>
#include <unistd.h>
#if __cplusplus >= 201703L
#    include <string_view>
#    define C14_HAS_SV 1
#    define C14_HAS_STDBYTE 1
#else
#    define C14_HAS_SV 0
#    define C14_HAS_STDBYTE 0
#endif

#ifdef SBEPP_ENABLE_ASSERTS_WITH_HANDLER
HC_DEFINE_ASSERT_HANDLER
#    define C14_GUARD(stmt) HC_GUARDED(stmt)
#    define C14_VARIANT "handler"
#else
#    define C14_GUARD(stmt) ([&]() -> bool { stmt; return false; }())
#    define C14_VARIANT "assert"
#endif

#if defined(__SANITIZE_ADDRESS__)
#    define C14_ASAN 1
#elif defined(__has_feature)
#    if __has_feature(address_sanitizer)
#        define C14_ASAN 1
#    endif
#endif
#ifdef C14_ASAN
extern "C" void __sanitizer_set_death_callback(void (*)(void));
#endif

using namespace c14;

namespace
{
struct tag
{
};
template<typename Byte, std::size_t N>
using array_t = sbepp::detail::static_array_ref<Byte, char, N, tag>;

// ---- single-pass input iterator (istream_iterator semantics: every
// increment consumes one element of the shared stream) -----------------------
struct Stream
{
    const u8* p;
    size_t n;
    size_t pos;
};
struct InIt
{
    typedef std::input_iterator_tag iterator_category;
    typedef char value_type;
    typedef std::ptrdiff_t difference_type;
    typedef const char* pointer;
    typedef char reference;

    Stream* s;
    char cur;
    InIt() : s(nullptr), cur(0) {}
    explicit InIt(Stream* st) : s(st), cur(0) { read(); }
    void read()
    {
        if(s && s->pos < s->n) cur = static_cast<char>(s->p[s->pos++]);
        else s = nullptr;
    }
    char operator*() const { return cur; }
    InIt& operator++()
    {
        read();
        return *this;
    }
    InIt operator++(int)
    {
        InIt t = *this;
        read();
        return t;
    }
    friend bool operator==(const InIt& a, const InIt& b) { return a.s == b.s; }
    friend bool operator!=(const InIt& a, const InIt& b) { return a.s != b.s; }
};
struct InRange
{
    Stream* s;
    InIt begin() const { return InIt(s); }
    InIt end() const { return InIt(); }
};
#if SBEPP_HAS_RANGES
static_assert(std::input_iterator<InIt>, "InIt must model std::input_iterator");
static_assert(std::ranges::input_range<InRange>, "InRange must model std::ranges::input_range");
#endif

// ---- initializer lists of run-time length ---------------------------------
template<size_t... I>
struct seq
{
};
template<size_t K, size_t... I>
struct mkseq : mkseq<K - 1, K - 1, I...>
{
};
template<size_t... I>
struct mkseq<0, I...>
{
    typedef seq<I...> type;
};
template<class A, size_t... I>
typename A::iterator ilist_call(const A& a, const u8* c, seq<I...>)
{
    (void)c;
    return a.assign({static_cast<char>(c[I])...});
}
template<class A, size_t K>
struct IlistSmall
{
    static typename A::iterator call(const A& a, const u8* c, size_t len)
    {
        if(len == K) return ilist_call(a, c, typename mkseq<K>::type());
        return IlistSmall<A, K - 1>::call(a, c, len);
    }
};
template<class A>
struct IlistSmall<A, 0>
{
    static typename A::iterator call(const A& a, const u8* c, size_t) { return ilist_call(a, c, seq<>()); }
};
constexpr size_t ILIST_SMALL = 8;
inline bool ilist_len_supported(size_t len, size_t N) { return len <= N && (len <= ILIST_SMALL || len == N || len + 1 == N); }
template<class A, size_t N>
typename A::iterator ilist_dispatch(const A& a, const u8* c, size_t len)
{
    if(N > ILIST_SMALL && len == N) return ilist_call(a, c, typename mkseq<N>::type());
    if(N > ILIST_SMALL && len + 1 == N) return ilist_call(a, c, typename mkseq<(N > 0 ? N - 1 : 0)>::type());
    return IlistSmall<A, (N < ILIST_SMALL ? N : ILIST_SMALL)>::call(a, c, len);
}

// ---- context ---------------------------------------------------------------
struct Ctx
{
    hc::Report rep;
    std::vector<uint64_t> keys; // distinct non-trivial case keys
    size_t limit = 1u << 23;
    void add_key(uint64_t k)
    {
        keys.push_back(k);
        if(keys.size() >= limit) limit = std::max<size_t>(2 * compact(), 1u << 23);
    }
    size_t compact()
    {
        std::sort(keys.begin(), keys.end());
        keys.erase(std::unique(keys.begin(), keys.end()), keys.end());
        return keys.size();
    }
};

const Case* g_cur = nullptr;
void on_death()
{
    if(g_cur) printf("CURRENT %s\n", hc::Report::one_line(format(*g_cur)).c_str());
    fflush(stdout);
}
void on_abort(int)
{
    on_death();
    signal(SIGABRT, SIG_DFL);
    abort();
}

struct Failure
{
    std::string sig, what;
    bool failed() const { return !sig.empty(); }
    void set(const std::string& s, const std::string& w)
    {
        if(sig.empty())
        {
            sig = s;
            what = w;
        }
    }
};

std::string opsig(const Case& c)
{
    std::string s = op_name(c.op);
    if(op_has_mode(c.op)) s += std::string("/") + mode_name(c.mode);
    return s;
}

// ---- the operation under test ----------------------------------------------
template<typename Byte, size_t N>
void perform(const array_t<Byte, N>& a, const Case& c, long& ret)
{
    typedef array_t<Byte, N> A;
    typename A::iterator it = nullptr;
    bool has_it = true;
    const sbepp::eos_null em = c.mode == M_NONE ? sbepp::eos_null::none
                               : c.mode == M_SINGLE ? sbepp::eos_null::single
                                                    : sbepp::eos_null::all;
    const bool dflt = c.mode == M_DEFAULT;
    const char* in = reinterpret_cast<const char*>(c.input.data());
    const size_t len = c.input.size();
    Stream st = {c.input.data(), len, 0};
    switch(c.op)
    {
    case OP_OBSERVE: has_it = false; break;
    case S_CSTR:
    {
        std::vector<char> z(in, in + len);
        z.push_back('\0'); // exact allocation: reading past the terminator is an ASan error
        it = dflt ? a.assign_string(z.data()) : a.assign_string(z.data(), em);
        break;
    }
    case S_STRING_L:
    {
        std::string s(in, len);
        it = dflt ? a.assign_string(s) : a.assign_string(s, em);
        break;
    }
    case S_STRING_R:
        it = dflt ? a.assign_string(std::string(in, len)) : a.assign_string(std::string(in, len), em);
        break;
    case S_SV:
    {
#if C14_HAS_SV
        std::vector<char> z(in, in + len);
        std::string_view sv(z.data(), z.size());
        it = dflt ? a.assign_string(sv) : a.assign_string(sv, em);
#endif
        break;
    }
    case S_VEC:
    {
        const std::vector<char> z(in, in + len);
        it = dflt ? a.assign_string(z) : a.assign_string(z, em);
        break;
    }
    case S_INRANGE:
    {
        InRange r = {&st};
        it = dflt ? a.assign_string(r) : a.assign_string(r, em);
        break;
    }
    case S_FWDLIST:
    {
        std::forward_list<char> l(in, in + len);
        it = dflt ? a.assign_string(l) : a.assign_string(l, em);
        break;
    }
    case R_STRING:
    {
        const std::string s(in, len);
        it = a.assign_range(s);
        break;
    }
    case R_SV:
    {
#if C14_HAS_SV
        std::vector<char> z(in, in + len);
        it = a.assign_range(std::string_view(z.data(), z.size()));
#endif
        break;
    }
    case R_VEC:
    {
        std::vector<char> z(in, in + len);
        it = a.assign_range(z);
        break;
    }
    case R_INRANGE:
    {
        it = a.assign_range(InRange{&st});
        break;
    }
    case R_FWDLIST:
    {
        const std::forward_list<char> l(in, in + len);
        it = a.assign_range(l);
        break;
    }
    case I_PTR:
    {
        std::vector<char> z(in, in + len);
        const char* f = z.data();
        it = a.assign(f, f + len);
        break;
    }
    case I_VECIT:
    {
        const std::vector<char> z(in, in + len);
        it = a.assign(z.begin(), z.end());
        break;
    }
    case I_INPUT: it = a.assign(InIt(&st), InIt()); break;
    case I_FWD:
    {
        const std::forward_list<char> l(in, in + len);
        it = a.assign(l.begin(), l.end());
        break;
    }
    case I_LIST:
    {
        const std::list<char> l(in, in + len);
        it = a.assign(l.begin(), l.end());
        break;
    }
    case A_ILIST: it = ilist_dispatch<A, N>(a, c.input.data(), len); break;
    case A_COUNT: it = a.assign(static_cast<typename A::size_type>(c.count), static_cast<char>(c.v)); break;
    case A_FILL:
        a.fill(static_cast<char>(c.v));
        has_it = false;
        break;
    default: has_it = false; break;
    }
    // offsets are taken against the arena, not against a.begin()
    ret = has_it ? static_cast<long>(reinterpret_cast<const u8*>(it) - reinterpret_cast<const u8*>(sbepp::addressof(a))) : -1;
}

// ---- observers ---------------------------------------------------------------
template<typename Byte, size_t N>
void observe(const array_t<Byte, N>& a, const u8* base, const std::vector<u8>& exp, Failure& f)
{
    typedef array_t<Byte, N> A;
    char b[200];
    const char* e0 = reinterpret_cast<const char*>(base);
#define C14_OBS(name, cond)                                    \
    do                                                         \
    {                                                          \
        if(!(cond)) f.set("observer:" name, "violated: " #cond); \
    } while(0)
    C14_OBS("size", a.size() == N && A::size() == N && a.max_size() == N && a.empty() == (N == 0));
    C14_OBS("size_bytes", sbepp::size_bytes(a) == N);
    C14_OBS("addressof", reinterpret_cast<const u8*>(sbepp::addressof(a)) == base);
    C14_OBS("data", reinterpret_cast<const char*>(a.data()) == e0);
    C14_OBS("begin", a.begin() == a.data());
    C14_OBS("end", a.end() == a.data() + N && a.end() - a.begin() == static_cast<std::ptrdiff_t>(N));
    C14_OBS("rbegin", a.rbegin().base() == a.end() && a.rend().base() == a.begin() && a.rend() - a.rbegin() == static_cast<std::ptrdiff_t>(N));
    {
        size_t i = 0;
        bool ok = true;
        for(typename A::iterator it = a.begin(); it != a.end(); ++it, ++i)
            ok = ok && i < N && static_cast<u8>(*it) == exp[i] && &a[i] == &*it && static_cast<u8>(a[i]) == exp[i];
        C14_OBS("iterate", ok && i == N);
        i = N;
        ok = true;
        for(typename A::reverse_iterator it = a.rbegin(); it != a.rend(); ++it)
        {
            ok = ok && i > 0 && static_cast<u8>(*it) == exp[i - 1];
            if(i > 0) --i;
        }
        C14_OBS("reverse-iterate", ok && i == 0);
    }
    if(N > 0)
    {
        C14_OBS("front", &a.front() == a.data() && static_cast<u8>(a.front()) == exp[0]);
        C14_OBS("back", &a.back() == a.data() + (N - 1) && static_cast<u8>(a.back()) == exp[N - 1]);
    }
    {
        // read-only view of the same bytes, and the raw() view
        array_t<const Byte, N> ca = a;
        C14_OBS("const-view", reinterpret_cast<const char*>(ca.data()) == e0 && ca.size() == N
                                  && ca.strlen() == a.strlen() && ca.strlen_r() == a.strlen_r());
        auto r = a.raw();
        C14_OBS("raw", reinterpret_cast<const u8*>(r.data()) == base && r.size() == N);
    }
#undef C14_OBS
    const size_t sl = a.strlen(), esl = ref_strlen(exp.data(), N);
    if(sl != esl)
    {
        snprintf(b, sizeof b, "strlen() = %zu, expected %zu (index of first NUL or N) for content %s", sl, esl, hex(exp).c_str());
        f.set("strlen:value", b);
    }
    const size_t slr = a.strlen_r(), eslr = ref_strlen_r(exp.data(), N);
    if(slr != eslr)
    {
        snprintf(b, sizeof b, "strlen_r() = %zu, expected %zu (index after last non-NUL or 0) for content %s", slr, eslr, hex(exp).c_str());
        f.set("strlen_r:value", b);
    }
}

// ---- one pass over one arena ---------------------------------------------------
constexpr size_t SLACK = 4;
constexpr u8 SLACK_BYTE = 0x5a;

template<typename Byte, size_t N>
void pass(const Case& c, u8* store, size_t off, size_t total, const std::vector<u8>& exp, long exp_ret, Failure& f, bool tight)
{
    // expected arena = arena before the op with the array part replaced
    static std::vector<u8> before;
    before.assign(store, store + total);
    array_t<Byte, N> a{reinterpret_cast<Byte*>(store + off), N};
    long ret = -2;
    bool threw = false;
    auto do_op = [&]()
    {
        try
        {
            perform<Byte, N>(a, c, ret);
        }
        catch(...)
        {
            threw = true;
        }
    };
    const bool fired = C14_GUARD(do_op());
    const char* where = tight ? " [tight heap block]" : "";
    if(fired)
    {
        f.set("assert-fired:" + opsig(c), "assertion handler called although the documented preconditions hold: " + hc::astate().expr + where);
        return;
    }
    if(threw)
    {
        f.set("throw:" + opsig(c), std::string("exception thrown") + where);
        return;
    }
    // whole-arena diff
    bool outside = false, inside = false;
    size_t first_bad = total;
    for(size_t i = 0; i < total; i++)
    {
        const bool in_array = i >= off && i < off + N;
        const u8 want = in_array ? exp[i - off] : before[i];
        if(store[i] != want)
        {
            if(first_bad == total) first_bad = i;
            (in_array ? inside : outside) = true;
        }
    }
    if(outside || inside)
    {
        std::vector<u8> got(store + off, store + off + N);
        char b[120];
        snprintf(b, sizeof b, " first difference at array index %ld;", static_cast<long>(first_bad) - static_cast<long>(off));
        std::string w = std::string(outside ? "bytes outside [begin, begin+N) were modified;" : "array bytes differ from the documented result;") + b
                        + " got " + hex(got) + " expected " + hex(exp) + " guards got " + hex(std::vector<u8>{store[off - 1], store[off + N]}) + where;
        f.set((outside ? "guard:" : "bytes:") + opsig(c), w);
        return;
    }
    if(ret != exp_ret)
    {
        char b[160];
        snprintf(b, sizeof b, "returned iterator = begin()%+ld, documented begin()+%ld%s", ret, exp_ret, where);
        f.set("ret:" + opsig(c), b);
        return;
    }
    Failure of;
    auto do_obs = [&]() { observe<Byte, N>(a, store + off, exp, of); };
    const bool ofired = C14_GUARD(do_obs());
    if(ofired) f.set("assert-fired:observers", "assertion handler called by an observer: " + hc::astate().expr + where);
    else if(of.failed()) f.set(of.sig, of.what + where);
}

template<typename Byte, size_t N>
void run_case(const Case& c, Failure& f)
{
    long exp_ret;
    const std::vector<u8> exp = ref_apply(c, exp_ret);
    // 1. roomy arena: [slack][gl][array][gr][slack][NUL]
    {
        static u8 store[SLACK + 1 + N + 1 + SLACK + 1];
        const size_t total = sizeof store, off = SLACK + 1;
        std::fill(store, store + total, SLACK_BYTE);
        store[off - 1] = c.gl;
        std::copy(c.content.begin(), c.content.end(), store + off);
        store[off + N] = c.gr;
        store[total - 1] = 0;
        pass<Byte, N>(c, store, off, total, exp, exp_ret, f, false);
        if(f.failed()) return;
    }
    // 2. heap block of exactly gl + N + gr bytes
    {
        static u8* const store = new u8[N + 2];
        store[0] = c.gl;
        std::copy(c.content.begin(), c.content.end(), store + 1);
        store[N + 1] = c.gr;
        pass<Byte, N>(c, store, 1, N + 2, exp, exp_ret, f, true);
    }
}

// array lengths with instantiated code: all of them for Byte = char, a subset for unsigned char / std::byte
#define C14_NSET(X) X(0) X(1) X(2) X(3) X(4) X(5) X(6) X(7) X(8) X(16) X(17) X(31) X(33) X(64)
#define C14_NSET_SMALL(X) X(0) X(1) X(2) X(3) X(17) X(64)
const unsigned NSET[] = {
#define X(n) n,
    C14_NSET(X)
#undef X
};
const unsigned NSET_SMALL[] = {
#define X(n) n,
    C14_NSET_SMALL(X)
#undef X
};
constexpr size_t NSET_LEN = sizeof(NSET) / sizeof(NSET[0]);
constexpr size_t NSET_SMALL_LEN = sizeof(NSET_SMALL) / sizeof(NSET_SMALL[0]);
inline bool n_supported(unsigned N, int byte)
{
    return byte == B_CHAR ? std::find(NSET, NSET + NSET_LEN, N) != NSET + NSET_LEN
                          : std::find(NSET_SMALL, NSET_SMALL + NSET_SMALL_LEN, N) != NSET_SMALL + NSET_SMALL_LEN;
}

#define X(n) \
    case n: run_case<Byte, n>(c, f); return true;
bool dispatch_char(const Case& c, Failure& f)
{
    typedef char Byte;
    switch(c.N)
    {
        C14_NSET(X)
    default: return false;
    }
}
template<typename Byte>
bool dispatch_small(const Case& c, Failure& f)
{
    switch(c.N)
    {
        C14_NSET_SMALL(X)
    default: return false;
    }
}
#undef X

bool supported(const Case& c)
{
    if(c.content.size() != c.N || !precondition_holds(c)) return false;
    if(!n_supported(c.N, c.byte)) return false;
    if((c.op == S_SV || c.op == R_SV) && !C14_HAS_SV) return false;
    if(c.byte == B_STDBYTE && !C14_HAS_STDBYTE) return false;
    if(c.op == A_ILIST && !ilist_len_supported(c.input.size(), c.N)) return false;
    return true;
}

// Evaluate one case. Returns false for a *new* (not --known) violation.
void classify(const Case& c, bool random);

bool evaluate(Ctx& ctx, const Case& c, bool random, Failure* out = nullptr)
{
    if(!supported(c)) return true; // overload / Byte not available in this standard: not counted
    classify(c, random);
    ctx.rep.eval();
    g_cur = &c;
    Failure f;
    switch(c.byte)
    {
    case B_UCHAR: dispatch_small<unsigned char>(c, f); break;
#if C14_HAS_STDBYTE
    case B_STDBYTE: dispatch_small<std::byte>(c, f); break;
#endif
    default: dispatch_char(c, f); break;
    }
    g_cur = nullptr;
    if(nontrivial(c)) ctx.add_key(case_key(c));
    if(out) *out = f;
    if(!f.failed()) return true;
    return !ctx.rep.fail(f.sig, format(c), f.what);
}

enum Cls
{
    K_EXH, K_RND,
    K_OBS, K_SCSTR, K_SRANGE, K_RANGE, K_ITER, K_ILIST, K_CNT, K_FILL,
    K_M0, K_M1, K_M2, K_M3,
    K_LEN_N, K_LEN_N1, K_LEN_0, K_LEN_OTHER,
    K_NONUL, K_EMBNUL,
    K_N0, K_N1, K_N25, K_N617, K_N3164,
    K_B0, K_B1, K_B2,
    K_COUNT
};
const char* const CLS_NAMES[K_COUNT] = {
    "part_exhaustive", "part_random",
    "op_observe", "op_assign_string_cstr", "op_assign_string_range", "op_assign_range", "op_assign_iterators", "op_assign_ilist",
    "op_assign_count", "op_fill",
    "mode_none", "mode_single", "mode_all", "mode_default",
    "len_eq_N", "len_eq_N-1", "len_0", "len_other",
    "content_without_nul", "input_with_embedded_nul",
    "N_0", "N_1", "N_2-5", "N_6-17", "N_31-64",
    "byte_char", "byte_uchar", "byte_stdbyte"};
long g_cls[K_COUNT];

void classify(const Case& c, bool random)
{
    g_cls[random ? K_RND : K_EXH]++;
    g_cls[c.op == OP_OBSERVE ? K_OBS
          : c.op == S_CSTR   ? K_SCSTR
          : op_has_mode(c.op) ? K_SRANGE
          : c.op <= R_FWDLIST ? K_RANGE
          : c.op <= I_LIST    ? K_ITER
          : c.op == A_ILIST   ? K_ILIST
          : c.op == A_COUNT   ? K_CNT
                              : K_FILL]++;
    if(op_has_mode(c.op)) g_cls[K_M0 + c.mode]++;
    const size_t len = ref_len(c);
    if(c.op != OP_OBSERVE && c.op != A_FILL) g_cls[len == c.N ? K_LEN_N : len + 1 == c.N ? K_LEN_N1 : len == 0 ? K_LEN_0 : K_LEN_OTHER]++;
    if(ref_strlen(c.content.data(), c.N) == c.N) g_cls[K_NONUL]++;
    if(op_has_input(c.op) && ref_strlen(c.input.data(), c.input.size()) != c.input.size()) g_cls[K_EMBNUL]++;
    g_cls[c.N == 0 ? K_N0 : c.N == 1 ? K_N1 : c.N <= 5 ? K_N25 : c.N <= 17 ? K_N617 : K_N3164]++;
    g_cls[K_B0 + c.byte]++;
}
void flush_classes(Ctx& ctx)
{
    for(int i = 0; i < K_COUNT; i++)
        if(g_cls[i]) ctx.rep.cls(CLS_NAMES[i], g_cls[i]);
}

// ---- exhaustive part -----------------------------------------------------------
const u8 ALPHA[3] = {0, 'a', 'b'};

std::vector<u8> decode(unsigned idx, unsigned len, unsigned base, const u8* alpha)
{
    std::vector<u8> v(len);
    for(unsigned i = 0; i < len; i++)
    {
        v[i] = alpha[idx % base];
        idx /= base;
    }
    return v;
}
unsigned ipow(unsigned b, unsigned e)
{
    unsigned r = 1;
    while(e--) r *= b;
    return r;
}

void exhaustive(Ctx& ctx, unsigned maxN, unsigned maxN_uchar)
{
    long n = 0;
    auto go = [&](const Case& c)
    {
        evaluate(ctx, c, false);
        if((++n % 400000) == 200000) ctx.rep.sample(format(c), 2);
    };
    for(unsigned N = 0; N <= maxN; N++)
    {
        for(int byte = B_CHAR; byte <= B_UCHAR; byte++)
        {
            if(byte == B_UCHAR && N > maxN_uchar) continue;
            const unsigned ncontent = ipow(3, N);
            for(unsigned ci = 0; ci < ncontent; ci++)
            {
                Case c;
                c.N = N;
                c.byte = byte;
                c.content = decode(ci, N, 3, ALPHA);
                // observers on every content, non-NUL and NUL guards
                c.op = OP_OBSERVE;
                go(c);
                c.gl = c.gr = 0;
                go(c);
                c.gl = 'G';
                c.gr = 'H';
                // NUL-free inputs for the C string overload
                for(unsigned len = 0; len <= N; len++)
                    for(unsigned ii = 0; ii < ipow(2, len); ii++)
                    {
                        c.input = decode(ii, len, 2, ALPHA + 1);
                        c.op = S_CSTR;
                        for(int m = 0; m < M_COUNT; m++)
                        {
                            c.mode = m;
                            go(c);
                        }
                    }
                c.mode = M_NONE;
                // inputs with and without embedded NUL for everything that takes a range
                for(unsigned len = 0; len <= N; len++)
                    for(unsigned ii = 0; ii < ipow(3, len); ii++)
                    {
                        c.input = decode(ii, len, 3, ALPHA);
                        for(int op = S_STRING_L; op <= A_ILIST; op++)
                        {
                            c.op = op;
                            if(op_has_mode(op))
                            {
                                for(int m = 0; m < M_COUNT; m++)
                                {
                                    c.mode = m;
                                    go(c);
                                }
                                c.mode = M_NONE;
                            }
                            else go(c);
                        }
                    }
                c.input.clear();
                for(unsigned cnt = 0; cnt <= N; cnt++)
                    for(unsigned vi = 0; vi < 3; vi++)
                    {
                        c.op = A_COUNT;
                        c.count = cnt;
                        c.v = ALPHA[vi];
                        go(c);
                    }
                c.count = 0;
                for(unsigned vi = 0; vi < 3; vi++)
                {
                    c.op = A_FILL;
                    c.v = ALPHA[vi];
                    go(c);
                }
            }
        }
    }
    ctx.rep.exhaustive = 1;
}

// ---- random part ---------------------------------------------------------------
// One rapidcheck generator for the whole case, drawing straight from
// rapidcheck's Random (a Shrinkable per byte / per choice is far too slow under
// ASan), with an explicit shrinker: smaller N, plain Byte, shorter input,
// simpler bytes, simpler mode.
struct Rnd
{
    rc::Random r;
    explicit Rnd(const rc::Random& x) : r(x) {}
    uint64_t next() { return r.next(); }
    unsigned upto(unsigned hi_incl) { return static_cast<unsigned>(next() % (static_cast<uint64_t>(hi_incl) + 1)); }
};

// profile 0: NUL-rich mix of NUL / 'a' / 'b' / boundary values / arbitrary bytes; profile 1: no NUL
u8 rnd_byte(Rnd& r, int profile)
{
    static const u8 special[4] = {0x01, 0x7f, 0x80, 0xff};
    const uint64_t x = r.next();
    u8 b = static_cast<u8>(x & 0xff);
    const unsigned sel = static_cast<unsigned>((x >> 8) % 12);
    if(profile == 0)
    {
        if(sel < 2) b = 0;
        else if(sel < 4) b = ((x >> 16) & 1) ? 'a' : 'b';
        else if(sel < 5) b = special[(x >> 16) & 3];
    }
    else if(b == 0) b = 'a';
    return b;
}
std::vector<u8> rnd_bytes(Rnd& r, size_t n, int profile)
{
    std::vector<u8> v(n);
    for(size_t i = 0; i < n; i++) v[i] = rnd_byte(r, profile);
    return v;
}
unsigned pick_len(Rnd& r, unsigned N)
{
    const unsigned k = r.upto(5);
    if(k == 0 || N == 0) return N;
    if(k == 1) return N - 1;
    if(k == 2) return 0;
    return r.upto(N);
}

Case random_case(const rc::Random& random)
{
    Rnd r(random);
    Case c;
    c.N = NSET[r.upto(static_cast<unsigned>(NSET_LEN) - 1)];
    c.byte = static_cast<int>(r.upto(C14_HAS_STDBYTE ? 2 : 1));
    if(!n_supported(c.N, c.byte)) c.byte = B_CHAR;
    c.op = static_cast<int>(r.upto(OP_COUNT - 1));
    if(!C14_HAS_SV && c.op == S_SV) c.op = S_VEC;
    if(!C14_HAS_SV && c.op == R_SV) c.op = R_VEC;
    c.mode = op_has_mode(c.op) ? static_cast<int>(r.upto(M_COUNT - 1)) : 0;
    // prior content: NUL-free one time in four, else NUL-rich mix
    c.content = rnd_bytes(r, c.N, r.upto(3) == 0 ? 1 : 0);
    c.gl = rnd_byte(r, 0);
    c.gr = rnd_byte(r, 0);
    if(op_has_input(c.op))
    {
        unsigned len = pick_len(r, c.N);
        if(c.op == A_ILIST && !ilist_len_supported(len, c.N)) len = c.N;
        // C strings: mostly NUL-free (the embedded-NUL variant is legal: the string ends there)
        const bool nul_free = (c.op == S_CSTR) ? r.upto(7) != 0 : r.upto(3) == 0;
        c.input = rnd_bytes(r, len, nul_free ? 1 : 0);
    }
    if(c.op == A_COUNT) c.count = pick_len(r, c.N);
    if(c.op == A_COUNT || c.op == A_FILL) c.v = rnd_byte(r, 0);
    return c;
}

bool simplify_bytes(std::vector<u8>& v)
{
    bool changed = false;
    for(size_t i = 0; i < v.size(); i++)
        if(v[i] != 0 && v[i] != 'a')
        {
            v[i] = 'a';
            changed = true;
        }
    return changed;
}

rc::Seq<Case> shrink_case(const Case& c)
{
    std::vector<Case> out;
    // smaller N (content / input / count truncated)
    for(size_t i = 0; i < NSET_LEN && NSET[i] < c.N; i++)
    {
        Case t = c;
        t.N = NSET[i];
        if(!n_supported(t.N, t.byte)) t.byte = B_CHAR;
        t.content.resize(t.N);
        if(t.input.size() > t.N) t.input.resize(t.N);
        if(t.count > t.N) t.count = t.N;
        if(t.op == A_ILIST && !ilist_len_supported(t.input.size(), t.N)) continue;
        out.push_back(t);
    }
    if(c.byte != B_CHAR)
    {
        Case t = c;
        t.byte = B_CHAR;
        out.push_back(t);
    }
    if(!c.input.empty())
    {
        Case t = c;
        t.input.pop_back();
        if(t.op != A_ILIST || ilist_len_supported(t.input.size(), t.N)) out.push_back(t);
    }
    if(c.count > 0)
    {
        Case t = c;
        t.count--;
        out.push_back(t);
    }
    for(int m = 0; m < c.mode; m++)
    {
        Case t = c;
        t.mode = m;
        out.push_back(t);
    }
    {
        Case t = c;
        bool ch = simplify_bytes(t.content);
        ch = simplify_bytes(t.input) || ch;
        if(t.gl != 'G' || t.gr != 'H')
        {
            t.gl = 'G';
            t.gr = 'H';
            ch = true;
        }
        if(t.v != 0 && t.v != 'a')
        {
            t.v = 'a';
            ch = true;
        }
        if(ch) out.push_back(t);
    }
    for(int which = 0; which < 2; which++)
    {
        const std::vector<u8>& v = which ? c.input : c.content;
        for(size_t i = 0; i < v.size(); i++)
            if(v[i] != 0 && v[i] != 'a')
            {
                Case t = c;
                (which ? t.input : t.content)[i] = 'a';
                out.push_back(t);
            }
    }
    return rc::seq::fromContainer(std::move(out));
}

rc::Gen<Case> case_gen()
{
    return [](const rc::Random& random, int) { return rc::shrinkable::shrinkRecur(random_case(random), &shrink_case); };
}

void random_part(Ctx& ctx)
{
    long n = 0;
    rc::check("C14 static_array_ref random",
              [&]()
              {
                  const Case c = *case_gen();
                  if((++n % 20000) == 1) ctx.rep.sample(format(c), 6);
                  Failure f;
                  if(!evaluate(ctx, c, true, &f)) RC_FAIL(f.sig + ": " + f.what);
              });
}
} // namespace

int main(int argc, char** argv)
{
    hc::Options opt = hc::parse_args(argc, argv);
    Ctx ctx;
    ctx.rep.opt = &opt;
#ifdef C14_ASAN
    __sanitizer_set_death_callback(on_death);
#endif
    signal(SIGABRT, on_abort);
    printf("INFO variant=%s cplusplus=%ld ranges=%d constexpr_accessors=%d is_constant_evaluated=%d\n", C14_VARIANT, static_cast<long>(__cplusplus),
           SBEPP_HAS_RANGES, SBEPP_HAS_CONSTEXPR_ACCESSORS, SBEPP_HAS_IS_CONSTANT_EVALUATED);
    if(!opt.replay.empty())
    {
        Case c;
        if(!parse(opt.replay, c) || !supported(c))
        {
            printf("FAIL replay:bad-case\t%s\tcannot parse the case, or it is outside what this build supports\n", hc::Report::one_line(opt.replay).c_str());
            return 2;
        }
        hc::current_always(format(c));
        Failure f;
        evaluate(ctx, c, false, &f);
        printf("REPLAY %s\n", f.failed() ? (f.sig + ": " + f.what).c_str() : "property holds for this case");
        return ctx.rep.finish();
    }
    ctx.keys.reserve(opt.thorough ? (20u << 20) : (4u << 20));
    exhaustive(ctx, opt.thorough ? 6 : 5, 3);
    random_part(ctx);
    flush_classes(ctx);
    printf("STAT nontrivial %zu\n", ctx.compact());
    return ctx.rep.finish();
}
