// C13 — <data> views (sbepp::detail::dynamic_array_ref) behave like a std::vector bounded by their buffer.
//
// Model-based check.  A command sequence is executed against
//   * a view `dynamic_array_ref<Byte, Value, Length, Endian>` over the middle of a pattern-filled arena, and
//   * a `std::vector<Value>` that receives literally the same member call.
// Value arguments come in two flavours: a local copy (push_back, insert, insert_n, resize_v, assign_n) and, for the four
// calls that std::vector defines for it, an lvalue that refers to an element of the *same* view (push_back_self,
// insert_self, insert_n_self, resize_v_self: `d.insert(pos, d.back())`, `d.push_back(d[k])`, ...; reference forms
// d[k], d.front(), d.back(), *(d.begin()+k)).  The model receives the element value read before the call, which is
// what [sequence.reqmts] guarantees for a.insert(p,t), a.insert(p,n,t), a.push_back(t) and vector::resize(sz,c) (no
// "t is not a reference into a" precondition, unlike assign(n,t) and the iterator-range overloads, which therefore
// have no self-referencing variant here).
// After every command the oracle (see MachineBase::step) compares the independently decoded length prefix, the
// payload bytes, the returned iterator offset, every arena byte outside the prefix + payload-in-use, the
// read-only accessors, and requires that no sbepp assertion fired (SBEPP_ENABLE_ASSERTS_WITH_HANDLER).
//
// Engines (selected with --mode, default all):
//   closure  capacity 4, values {a,b}: breadth-first closure over *every reachable buffer state* (state = length
//            prefix + all 4 payload bytes, each of a, b, 0 or the fill byte: 1280 states), every command from every
//            state.  The view has no state besides the buffer, so this covers command sequences of any depth.
//   dfs      literal enumeration of all command sequences of depth <= D (--dfs-depth, default 3) from each of the
//            31 states "contents in {a,b}^0..4, unused tail = fill byte"; can be sharded (--shard i/n).
//   random   rapidcheck: generated abstract command lists, resolved against the current model state so that every
//            command satisfies its documented precondition; long sequences, capacities 0..40, 250..261
//            (uint8 length limit) and 65530..65539 (uint16 limit), arbitrary bytes.  Shrinks.
//
// The type matrix (length x byte order x element x byte type) can be split over several binaries at compile time
// (-DC13_PARTS=n -DC13_PART=k): one instantiation costs about a second of compile time under ASan+UBSan.
//
// Case syntax (FAIL lines, --replay):   cfg=<len>.<le|be>.<value>.<byte>;cap=<n>;size=<n>;buf=<hex>;ops=<cmd> <cmd> ...
//   buf = initial bytes of the payload area (rest: fill byte 0xEE), size = initial length prefix,
//   cmd = name(args): positions/counts decimal offsets from begin(), element values two hex digits, data x<hex>,
//   element of the same view (the *_self commands): at<k> = d[k], front = d.front(), back = d.back(), it<k> = *(d.begin()+k).
// A sanitizer abort prints the exact case in flight (death callback), so crashes are replayable too.
#ifndef SBEPP_ENABLE_ASSERTS_WITH_HANDLER
#    define SBEPP_ENABLE_ASSERTS_WITH_HANDLER
#endif
#include <sbepp/sbepp.hpp>

#include "hcommon.hpp"

#include <rapidcheck.h>

#include <algorithm>
#include <deque>
#include <forward_list>
#include <iterator>
#include <memory>
#include <sstream>
#include <type_traits>

HC_DEFINE_ASSERT_HANDLER

extern "C" void __sanitizer_set_death_callback(void (*callback)(void));

namespace c13
{
// ------------------------------------------------------------------------------------------------------------
// commands

enum Op : int
{
    PUSH_BACK,
    POP_BACK,
    INSERT1,
    INSERT_N,
    INSERT_IN,
    INSERT_FWD,
    INSERT_PTR,
    INSERT_IL,
    ERASE1,
    ERASE_R,
    RESIZE,
    RESIZE_V,
    RESIZE_DI,
    ASSIGN_N,
    ASSIGN_IN,
    ASSIGN_FWD,
    ASSIGN_PTR,
    ASSIGN_IL,
    ASSIGN_STR,
    ARANGE_VEC,
    ARANGE_FLIST,
    ARANGE_RVAL,
    CLEAR,
    // value argument = lvalue referring to an element of the same view (kept at the end: the tape of the random
    // engine shrinks towards the first ops)
    PUSH_BACK_SELF,
    INSERT1_SELF,
    INSERT_N_SELF,
    RESIZE_V_SELF,
    OP_COUNT
};

// how the element of the same view is named in a *_self command
enum RefForm : int
{
    R_AT,    // d[k]
    R_FRONT, // d.front()
    R_BACK,  // d.back()
    R_IT,    // *(d.begin() + k)
    R_COUNT
};
static const char* const REF_NAMES[R_COUNT] = {"at", "front", "back", "it"};

struct OpInfo
{
    const char* name;     // in case text
    const char* fields;   // a,b: numbers; v: element value; d: data; r: element of the same view
    int overload;         // identity of the member function overload (the "mutator")
    bool takes_pos;       // has a position argument
    const char* callsite; // for signatures
};

static const OpInfo OPS[OP_COUNT] = {
    {"push_back", "v", 0, false, "push_back(value)"},
    {"pop_back", "", 1, false, "pop_back()"},
    {"insert", "av", 2, true, "insert(pos,value)"},
    {"insert_n", "abv", 3, true, "insert(pos,count,value)"},
    {"insert_in", "ad", 4, true, "insert(pos,first,last)[input]"},
    {"insert_fwd", "ad", 4, true, "insert(pos,first,last)[forward]"},
    {"insert_ptr", "ad", 4, true, "insert(pos,first,last)[pointer]"},
    {"insert_il", "ad", 5, true, "insert(pos,ilist)"},
    {"erase", "a", 6, true, "erase(pos)"},
    {"erase_range", "ab", 7, true, "erase(first,last)"},
    {"resize", "a", 8, false, "resize(count)"},
    {"resize_v", "av", 9, false, "resize(count,value)"},
    {"resize_di", "a", 10, false, "resize(count,default_init)"},
    {"assign_n", "av", 11, false, "assign(count,value)"},
    {"assign_in", "d", 12, false, "assign(first,last)[input]"},
    {"assign_fwd", "d", 12, false, "assign(first,last)[forward]"},
    {"assign_ptr", "d", 12, false, "assign(first,last)[pointer]"},
    {"assign_il", "d", 13, false, "assign(ilist)"},
    {"assign_string", "d", 14, false, "assign_string(str)"},
    {"assign_range_vec", "d", 15, false, "assign_range(vector&)"},
    {"assign_range_flist", "d", 15, false, "assign_range(const forward_list&)"},
    {"assign_range_rval", "d", 15, false, "assign_range(vector&&)"},
    {"clear", "", 16, false, "clear()"},
    {"push_back_self", "r", 0, false, "push_back(element of the same view)"},
    {"insert_self", "ar", 2, true, "insert(pos,element of the same view)"},
    {"insert_n_self", "abr", 3, true, "insert(pos,count,element of the same view)"},
    {"resize_v_self", "ar", 9, false, "resize(count,element of the same view)"},
};
// 17 distinct overloads (column `overload`; a *_self command calls the same overload as its by-value twin)
static const size_t MAX_ILIST = 8; // the harness builds initializer lists of 0..8 elements

struct CCmd
{
    Op op = PUSH_BACK;
    uint64_t a = 0, b = 0;
    unsigned char v = 0;
    std::string data; // raw bytes
    int rform = R_AT; // *_self: how the element is named ...
    uint64_t rk = 0;  // ... and its index (R_AT, R_IT; 0 otherwise)
};

static inline bool is_self(Op op)
{
    return op == PUSH_BACK_SELF || op == INSERT1_SELF || op == INSERT_N_SELF || op == RESIZE_V_SELF;
}
// index of the element a *_self command refers to, in a container of size n > 0
static inline uint64_t ref_index(const CCmd& c, uint64_t n)
{
    return c.rform == R_FRONT ? 0 : c.rform == R_BACK ? n - 1 : c.rk;
}
static inline bool ref_valid(const CCmd& c, uint64_t n)
{
    if(!n || c.rform < 0 || c.rform >= R_COUNT) return false;
    return (c.rform == R_AT || c.rform == R_IT) ? c.rk < n : c.rk == 0;
}

static std::string hex(const std::string& s)
{
    static const char* d = "0123456789abcdef";
    std::string r;
    r.reserve(s.size() * 2);
    for(unsigned char c : s)
    {
        r += d[c >> 4];
        r += d[c & 15];
    }
    return r;
}

static bool unhex(const std::string& s, std::string& out)
{
    out.clear();
    if(s.size() % 2) return false;
    for(size_t i = 0; i < s.size(); i += 2)
    {
        int v = 0;
        for(int k = 0; k < 2; k++)
        {
            const char c = s[i + k];
            int x;
            if(c >= '0' && c <= '9') x = c - '0';
            else if(c >= 'a' && c <= 'f') x = c - 'a' + 10;
            else if(c >= 'A' && c <= 'F') x = c - 'A' + 10;
            else return false;
            v = v * 16 + x;
        }
        out += static_cast<char>(v);
    }
    return true;
}

static std::string to_text(const CCmd& c)
{
    std::string r = OPS[c.op].name;
    r += '(';
    bool first = true;
    for(const char* f = OPS[c.op].fields; *f; f++)
    {
        if(!first) r += ',';
        first = false;
        if(*f == 'a') r += std::to_string(c.a);
        else if(*f == 'b') r += std::to_string(c.b);
        else if(*f == 'v') r += hex(std::string(1, static_cast<char>(c.v)));
        else if(*f == 'r')
        {
            r += REF_NAMES[c.rform];
            if(c.rform == R_AT || c.rform == R_IT) r += std::to_string(c.rk);
        }
        else r += "x" + hex(c.data);
    }
    r += ')';
    return r;
}

static bool parse_cmd(const std::string& t, CCmd& c)
{
    const size_t lp = t.find('('), rp = t.rfind(')');
    if(lp == std::string::npos || rp == std::string::npos || rp < lp) return false;
    const std::string name = t.substr(0, lp);
    int op = -1;
    for(int i = 0; i < OP_COUNT; i++)
        if(name == OPS[i].name) op = i;
    if(op < 0) return false;
    c = CCmd();
    c.op = static_cast<Op>(op);
    std::vector<std::string> args;
    const std::string inner = t.substr(lp + 1, rp - lp - 1);
    if(!inner.empty() || OPS[op].fields[0])
    {
        size_t p = 0;
        for(;;)
        {
            const size_t e = inner.find(',', p);
            args.push_back(inner.substr(p, e == std::string::npos ? std::string::npos : e - p));
            if(e == std::string::npos) break;
            p = e + 1;
        }
    }
    if(args.size() != strlen(OPS[op].fields)) return false;
    for(size_t i = 0; i < args.size(); i++)
    {
        const char f = OPS[op].fields[i];
        if(f == 'a') c.a = strtoull(args[i].c_str(), nullptr, 10);
        else if(f == 'b') c.b = strtoull(args[i].c_str(), nullptr, 10);
        else if(f == 'v')
        {
            std::string b;
            if(!unhex(args[i], b) || b.size() != 1) return false;
            c.v = static_cast<unsigned char>(b[0]);
        }
        else if(f == 'r')
        {
            int form = -1;
            for(int k = 0; k < R_COUNT; k++)
                if(args[i].compare(0, strlen(REF_NAMES[k]), REF_NAMES[k]) == 0) form = k;
            if(form < 0) return false;
            const std::string rest = args[i].substr(strlen(REF_NAMES[form]));
            const bool indexed = form == R_AT || form == R_IT;
            if(indexed != !rest.empty() || rest.find_first_not_of("0123456789") != std::string::npos) return false;
            c.rform = form;
            c.rk = indexed ? strtoull(rest.c_str(), nullptr, 10) : 0;
        }
        else
        {
            if(args[i].empty() || args[i][0] != 'x' || !unhex(args[i].substr(1), c.data)) return false;
        }
    }
    return true;
}

// Is `c` valid for a std::vector of size n, and does the result fit `limit` = min(buffer capacity, max of the
// length type)?  These are exactly the generated preconditions.
static bool valid(const CCmd& c, uint64_t n, uint64_t limit, uint64_t& newn)
{
    const uint64_t dl = c.data.size();
    // the element named by a *_self command has to exist
    if(is_self(c.op) && !ref_valid(c, n)) return false;
    switch(c.op)
    {
    case PUSH_BACK:
    case PUSH_BACK_SELF: newn = n + 1; return newn <= limit;
    case POP_BACK: newn = n - 1; return n > 0;
    case INSERT1:
    case INSERT1_SELF: newn = n + 1; return c.a <= n && newn <= limit;
    case INSERT_N:
    case INSERT_N_SELF: newn = n + c.b; return c.a <= n && c.b <= limit && newn <= limit;
    case INSERT_IN:
    case INSERT_FWD:
    case INSERT_PTR: newn = n + dl; return c.a <= n && newn <= limit;
    case INSERT_IL: newn = n + dl; return c.a <= n && newn <= limit && dl <= MAX_ILIST;
    case ERASE1: newn = n - 1; return c.a < n;
    case ERASE_R: newn = n - (c.b - c.a); return c.a <= c.b && c.b <= n;
    case RESIZE:
    case RESIZE_V:
    case RESIZE_V_SELF:
    case RESIZE_DI:
    case ASSIGN_N: newn = c.a; return c.a <= limit;
    case ASSIGN_IN:
    case ASSIGN_FWD:
    case ASSIGN_PTR:
    case ARANGE_VEC:
    case ARANGE_FLIST:
    case ARANGE_RVAL: newn = dl; return dl <= limit;
    case ASSIGN_IL: newn = dl; return dl <= limit && dl <= MAX_ILIST;
    case ASSIGN_STR: newn = dl; return dl <= limit && c.data.find('\0') == std::string::npos;
    case CLEAR: newn = 0; return true;
    default: return false;
    }
}

// boundary position (begin or end) used by a position-taking command
static bool boundary(const CCmd& c, uint64_t n)
{
    switch(c.op)
    {
    case INSERT1:
    case INSERT_N:
    case INSERT1_SELF:
    case INSERT_N_SELF:
    case INSERT_IN:
    case INSERT_FWD:
    case INSERT_PTR:
    case INSERT_IL: return c.a == 0 || c.a == n;
    case ERASE1: return c.a == 0;
    case ERASE_R: return c.a == 0 || c.b == n;
    default: return false;
    }
}

// *_self insertion whose referenced element is moved by the insertion itself (it lies at or behind the insertion
// position and at least one element is inserted): the argument is only good if it is read before the shift
static bool ref_shifted(const CCmd& c, uint64_t n)
{
    if(c.op == INSERT1_SELF) return ref_index(c, n) >= c.a;
    if(c.op == INSERT_N_SELF) return c.b > 0 && ref_index(c, n) >= c.a;
    return false;
}

// ------------------------------------------------------------------------------------------------------------
// iterators of a chosen category

// Single-pass input iterator with istream_iterator semantics: all copies share the stream position.
template<typename T>
struct Stream
{
    const T* cur;
    const T* end;
};

template<typename T>
struct InIt
{
    using iterator_category = std::input_iterator_tag;
    using value_type = T;
    using difference_type = std::ptrdiff_t;
    using pointer = const T*;
    using reference = const T&;

    Stream<T>* s = nullptr;

    InIt() = default;
    explicit InIt(Stream<T>* st) : s((st && st->cur != st->end) ? st : nullptr) {}
    reference operator*() const { return *s->cur; }
    pointer operator->() const { return s->cur; }
    InIt& operator++()
    {
        ++s->cur;
        if(s->cur == s->end) s = nullptr;
        return *this;
    }
    InIt operator++(int)
    {
        InIt t = *this;
        ++*this;
        return t;
    }
    friend bool operator==(const InIt& l, const InIt& r) { return l.s == r.s; }
    friend bool operator!=(const InIt& l, const InIt& r) { return l.s != r.s; }
};

template<typename T, typename F>
static void with_ilist(const std::vector<T>& d, F f)
{
    switch(d.size())
    {
    case 0: f(std::initializer_list<T>{}); break;
    case 1: f(std::initializer_list<T>{d[0]}); break;
    case 2: f(std::initializer_list<T>{d[0], d[1]}); break;
    case 3: f(std::initializer_list<T>{d[0], d[1], d[2]}); break;
    case 4: f(std::initializer_list<T>{d[0], d[1], d[2], d[3]}); break;
    case 5: f(std::initializer_list<T>{d[0], d[1], d[2], d[3], d[4]}); break;
    case 6: f(std::initializer_list<T>{d[0], d[1], d[2], d[3], d[4], d[5]}); break;
    case 7: f(std::initializer_list<T>{d[0], d[1], d[2], d[3], d[4], d[5], d[6]}); break;
    case 8: f(std::initializer_list<T>{d[0], d[1], d[2], d[3], d[4], d[5], d[6], d[7]}); break;
    default: abort();
    }
}

// ------------------------------------------------------------------------------------------------------------
// machine: one instantiation of the view + its model.
//   MachineBase           arena, the harness' own length codec, the oracle (no templates: keeps the TU compilable)
//   ModelLayer<Value>     std::vector<Value> model that receives the same member call, sources of every category
//   Machine<B,V,L,E>      only the calls into dynamic_array_ref

struct Outcome
{
    std::string sig, what;
};

static inline unsigned char pattern(size_t i)
{
    return static_cast<unsigned char>(0x80u | ((i * 7u + 3u) & 0x7fu));
}
// Unused payload cells start with one value: keeps the closure's state space at {a,b,0,FILL}^4 x 5 sizes.
static const unsigned char FILL = 0xEE;

static const char* const STAGES[] = {"?",        "size()",     "sbe_size()", "empty()",      "max_size()",  "data()",
                                     "begin()",  "end()",      "rbegin()",   "rend()",       "front()",     "back()",
                                     "operator[]", "iteration", "reverse iteration", "size_bytes()", "addressof()",
                                     "view over const bytes", "raw()"};

class MachineBase
{
public:
    static constexpr size_t PRE = 13, POST = 19; // odd guard sizes: the length prefix is unaligned

    MachineBase(std::string nm, uint64_t expected_max, size_t l, bool little)
        : name_(std::move(nm)), max_(expected_max), L(l), little_(little)
    {
    }
    virtual ~MachineBase() {}

    const std::string& name() const { return name_; }
    uint64_t max_size() const { return max_; }
    size_t cap() const { return cap_; }
    uint64_t size() const { return msize_; }
    uint64_t limit() const { return std::min<uint64_t>(cap_, max_); }

    // arena := pattern; payload area := buf, then FILL; length prefix := size (the harness' own encoder)
    void reset(size_t cap, uint64_t size, const std::string& buf)
    {
        cap_ = cap;
        raw.resize(PRE + L + cap + POST);
        for(size_t i = 0; i < raw.size(); i++) raw[i] = pattern(i);
        for(size_t i = 0; i < cap; i++) raw[PRE + L + i] = i < buf.size() ? static_cast<unsigned char>(buf[i]) : FILL;
        encode_len(size);
        sync_model();
    }
    void save(std::string& to) const { to.assign(reinterpret_cast<const char*>(raw.data()), raw.size()); }
    void load(const std::string& from)
    {
        memcpy(raw.data(), from.data(), raw.size());
        sync_model();
    }
    void payload_area(std::string& to) const { to.assign(reinterpret_cast<const char*>(raw.data() + PRE + L), cap_); }

    // Executes a *valid* command on model and view and applies the oracle.
    // false = property violated (the buffer is re-synchronised to the model afterwards).
    bool step(const CCmd& c, Outcome& out)
    {
        const size_t oldn = static_cast<size_t>(msize_);
        before.assign(raw.begin(), raw.end());
        std::ptrdiff_t exp_ret = -1, got_ret = -1;
        prepare(c);
        model_apply(c, exp_ret);
        const size_t newn = model_size();
        msize_ = newn;
        stage_ = 0;
        const bool fired = HC_GUARDED(view_apply(c, got_ret));

        const char* const site = OPS[c.op].callsite;
        bool ok = true;
        if(fired)
        {
            out.sig = std::string("assert:") + site + ":" + hc::astate().expr;
            out.what = std::string("sbepp assertion `") + hc::astate().expr + "` fired for " + to_text(c) + " on size "
                + std::to_string(oldn) + ", capacity " + std::to_string(cap_) + " (valid for std::vector, result size "
                + std::to_string(newn) + " fits)";
            ok = false;
        }
        else
        {
            const unsigned char* const pay = raw.data() + PRE + L;
            // resize(n, default_init): the new elements are default-initialised, i.e. unspecified; the model takes
            // what the view exposes
            if(c.op == RESIZE_DI && newn > oldn) model_adopt(oldn, newn, pay);
            const unsigned char* const mb = model_bytes();
            // 1. independently decoded length prefix
            const uint64_t dec = decode_len();
            if(dec != newn)
            {
                out.sig = std::string("length:") + site;
                out.what = "length prefix decodes to " + std::to_string(dec) + ", model size " + std::to_string(newn);
                ok = false;
            }
            // 2. payload
            if(ok && newn && memcmp(pay, mb, newn) != 0)
            {
                size_t i = 0;
                while(pay[i] == mb[i]) i++;
                const size_t show = std::min<size_t>(newn, 40);
                out.sig = std::string("payload:") + site;
                out.what = "payload[" + std::to_string(i) + "] differs; payload=" + hex(std::string(reinterpret_cast<const char*>(pay), show))
                    + " model=" + hex(std::string(reinterpret_cast<const char*>(mb), show));
                ok = false;
            }
            // 3. returned iterator designates the same position
            if(ok && got_ret != exp_ret)
            {
                out.sig = std::string("iterator:") + site;
                out.what = "returned iterator at offset " + std::to_string(got_ret) + ", std::vector returns offset " + std::to_string(exp_ret);
                ok = false;
            }
            // 4. nothing outside prefix + payload in use (before or after) is modified
            if(ok)
            {
                const size_t used_end = PRE + L + std::max(oldn, newn);
                if(memcmp(raw.data(), before.data(), PRE) != 0
                   || memcmp(raw.data() + used_end, before.data() + used_end, raw.size() - used_end) != 0)
                {
                    size_t i = 0;
                    while(raw[i] == before[i] || (i >= PRE && i < used_end)) i++;
                    out.sig = std::string("outside:") + site;
                    out.what = "byte at buffer offset " + std::to_string(static_cast<long>(i) - static_cast<long>(PRE)) + " (prefix "
                        + std::to_string(L) + " bytes, old size " + std::to_string(oldn) + ", new size " + std::to_string(newn)
                        + ") changed " + hex(std::string(1, static_cast<char>(before[i]))) + " -> "
                        + hex(std::string(1, static_cast<char>(raw[i])));
                    ok = false;
                }
            }
            // 5. read-only interface agrees with the model
            if(ok)
            {
                int bad = 0;
                const bool ofired = HC_GUARDED(bad = view_observe());
                if(ofired)
                {
                    out.sig = std::string("assert-observer:") + STAGES[stage_] + ":" + hc::astate().expr;
                    out.what = "sbepp assertion `" + hc::astate().expr + "` fired in " + STAGES[stage_] + " on a valid state of size "
                        + std::to_string(newn);
                    ok = false;
                }
                else if(bad)
                {
                    out.sig = std::string("observer:") + STAGES[bad];
                    out.what = std::string(STAGES[bad]) + " disagrees with the model (size " + std::to_string(newn) + ")";
                    ok = false;
                }
            }
        }
        if(!ok)
        {
            out.what += " [after " + to_text(c) + "]";
            // re-synchronise: buffer := state before, then the model's contents
            raw = before;
            encode_len(newn);
            if(c.op == RESIZE_DI && newn > oldn) model_adopt(oldn, newn, raw.data() + PRE + L);
            if(newn) memcpy(raw.data() + PRE + L, model_bytes(), newn);
        }
        return ok;
    }

protected:
    std::string name_;
    uint64_t max_;
    size_t L;
    bool little_;
    size_t cap_ = 0;
    uint64_t msize_ = 0;
    int stage_ = 0;
    std::vector<unsigned char> raw, before;

    virtual void prepare(const CCmd& c) = 0;
    virtual void model_apply(const CCmd& c, std::ptrdiff_t& ret) = 0;
    virtual size_t model_size() const = 0;
    virtual const unsigned char* model_bytes() const = 0;
    virtual void model_adopt(size_t from, size_t to, const unsigned char* payload) = 0;
    virtual void model_set(const unsigned char* payload, size_t n) = 0;
    virtual void view_apply(const CCmd& c, std::ptrdiff_t& ret) = 0;
    virtual int view_observe() = 0;

    // the harness' own codec of the length prefix
    uint64_t decode_len() const
    {
        uint64_t r = 0;
        for(size_t i = 0; i < L; i++)
        {
            const uint64_t b = raw[PRE + i];
            if(little_) r |= b << (8 * i);
            else r = (r << 8) | b;
        }
        return r;
    }
    void encode_len(uint64_t n)
    {
        for(size_t i = 0; i < L; i++)
        {
            const size_t shift = little_ ? 8 * i : 8 * (L - 1 - i);
            raw[PRE + i] = static_cast<unsigned char>(n >> shift);
        }
    }
    void sync_model()
    {
        msize_ = decode_len();
        model_set(raw.data() + PRE + L, static_cast<size_t>(msize_));
    }
};
using IMachine = MachineBase;

template<typename Value>
class ModelLayer : public MachineBase
{
public:
    using MachineBase::MachineBase;
    static_assert(sizeof(Value) == 1, "single byte element");

protected:
    std::vector<Value> model;
    // arguments of the current command, in every shape an overload wants them
    std::vector<Value> src, vvec;
    std::forward_list<Value> vfl;
    std::string cstr;
    Stream<Value> vst{nullptr, nullptr};
    Value v{};

    void prepare(const CCmd& c) override
    {
        src.resize(c.data.size());
        if(!src.empty()) memcpy(src.data(), c.data.data(), src.size());
        memcpy(&v, &c.v, 1);
        // *_self: the model gets the element's value as it is before the call
        if(is_self(c.op)) v = model[static_cast<size_t>(ref_index(c, model.size()))];
        vst = Stream<Value>{src.data(), src.data() + src.size()};
        if(c.op == INSERT_FWD || c.op == ASSIGN_FWD || c.op == ARANGE_FLIST) vfl.assign(src.begin(), src.end());
        if(c.op == ARANGE_VEC || c.op == ARANGE_RVAL) vvec = src;
        if(c.op == ASSIGN_STR) cstr = c.data;
    }

    void model_apply(const CCmd& c, std::ptrdiff_t& ret) override
    {
        using It = typename std::vector<Value>::iterator;
        const auto mpos = [&](uint64_t off) { return model.begin() + static_cast<std::ptrdiff_t>(off); };
        It r;
        bool has = true;
        switch(c.op)
        {
        case PUSH_BACK:
        case PUSH_BACK_SELF: model.push_back(v); has = false; break;
        case POP_BACK: model.pop_back(); has = false; break;
        case INSERT1:
        case INSERT1_SELF: r = model.insert(mpos(c.a), v); break;
        case INSERT_N:
        case INSERT_N_SELF: r = model.insert(mpos(c.a), static_cast<size_t>(c.b), v); break;
        case INSERT_IN:
        {
            Stream<Value> st{src.data(), src.data() + src.size()};
            r = model.insert(mpos(c.a), InIt<Value>(&st), InIt<Value>());
            break;
        }
        case INSERT_FWD:
        {
            const std::forward_list<Value>& fl = vfl;
            r = model.insert(mpos(c.a), fl.begin(), fl.end());
            break;
        }
        case INSERT_PTR: r = model.insert(mpos(c.a), src.data(), src.data() + src.size()); break;
        case INSERT_IL: with_ilist(src, [&](std::initializer_list<Value> il) { r = model.insert(mpos(c.a), il); }); break;
        case ERASE1: r = model.erase(mpos(c.a)); break;
        case ERASE_R: r = model.erase(mpos(c.a), mpos(c.b)); break;
        case RESIZE:
        case RESIZE_DI: model.resize(static_cast<size_t>(c.a)); has = false; break;
        case RESIZE_V:
        case RESIZE_V_SELF: model.resize(static_cast<size_t>(c.a), v); has = false; break;
        case ASSIGN_N: model.assign(static_cast<size_t>(c.a), v); has = false; break;
        case ASSIGN_IN:
        {
            Stream<Value> st{src.data(), src.data() + src.size()};
            model.assign(InIt<Value>(&st), InIt<Value>());
            has = false;
            break;
        }
        case ASSIGN_FWD:
        case ARANGE_FLIST:
        {
            const std::forward_list<Value>& fl = vfl;
            model.assign(fl.begin(), fl.end());
            has = false;
            break;
        }
        case ASSIGN_PTR:
        case ASSIGN_STR:
        case ARANGE_VEC:
        case ARANGE_RVAL: model.assign(src.data(), src.data() + src.size()); has = false; break;
        case ASSIGN_IL: with_ilist(src, [&](std::initializer_list<Value> il) { model.assign(il); }); has = false; break;
        case CLEAR: model.clear(); has = false; break;
        default: abort();
        }
        ret = has ? r - model.begin() : -1;
    }
    size_t model_size() const override { return model.size(); }
    const unsigned char* model_bytes() const override { return reinterpret_cast<const unsigned char*>(model.data()); }
    void model_adopt(size_t from, size_t to, const unsigned char* payload) override
    {
        if(to > from) memcpy(model.data() + from, payload + from, to - from);
    }
    void model_set(const unsigned char* payload, size_t n) override
    {
        model.resize(n);
        if(n) memcpy(model.data(), payload, n);
    }
};

template<typename Byte, typename Value, typename Length, sbepp::endian E>
class Machine : public ModelLayer<Value>
{
public:
    using View = sbepp::detail::dynamic_array_ref<Byte, Value, Length, E>;
    using CView = sbepp::detail::dynamic_array_ref<const Byte, Value, Length, E>;
    using size_type = typename View::size_type;
    using B = ModelLayer<Value>;
    static constexpr size_t LEN = sizeof(size_type);

    static_assert(std::is_same<typename View::value_type, Value>::value, "value_type");
    static_assert(std::is_same<typename View::element_type, Value>::value, "element_type");
    static_assert(std::is_same<typename CView::element_type, const Value>::value, "const element_type");
    static_assert(std::is_same<typename View::sbe_size_type, Length>::value, "sbe_size_type");
    static_assert(std::is_same<typename View::iterator, Value*>::value, "iterator");
    static_assert(std::is_same<typename View::difference_type, std::ptrdiff_t>::value, "difference_type");
    static_assert(sizeof(Byte) == 1, "single byte");

    Machine(std::string nm, uint64_t expected_max)
        : ModelLayer<Value>(std::move(nm), expected_max, LEN, E == sbepp::endian::little)
    {
    }

protected:
    Byte* base() { return reinterpret_cast<Byte*>(this->raw.data() + MachineBase::PRE); }
    // documented construction path: byte_range(Byte* ptr, std::size_t size), inherited by dynamic_array_ref
    View make_view() { return View(base(), LEN + this->cap_); }

    void view_apply(const CCmd& c, std::ptrdiff_t& ret) override
    {
        const View view = make_view();
        Value* const vb = reinterpret_cast<Value*>(base() + LEN); // where begin() has to be
        const size_type a_st = static_cast<size_type>(c.a), b_st = static_cast<size_type>(c.b);
        const Value v = B::v;
        const std::vector<Value>& src = B::src;
        const std::forward_list<Value>& cvfl = B::vfl;
        const Value* const sb = src.data();
        const Value* const se = src.data() + src.size();
        const size_type k_st = static_cast<size_type>(c.rk);
        // *_self: the argument expression is an lvalue naming an element of `view` itself, in the form chosen by the case
#define C13_WITH_SELF(CALL)                                  \
    switch(c.rform)                                          \
    {                                                        \
    case R_AT: CALL(view[k_st]); break;                      \
    case R_FRONT: CALL(view.front()); break;                 \
    case R_BACK: CALL(view.back()); break;                   \
    case R_IT: CALL(*(view.begin() + c.rk)); break;          \
    default: abort();                                        \
    }
#define C13_PUSH_BACK(x) view.push_back(x)
#define C13_INSERT1(x) ret = view.insert(view.begin() + c.a, x) - vb
#define C13_INSERT_N(x) ret = view.insert(view.begin() + c.a, b_st, x) - vb
#define C13_RESIZE_V(x) view.resize(a_st, x)
        static_assert(std::is_same<decltype(view[k_st]), Value&>::value && std::is_same<decltype(view.front()), Value&>::value
                          && std::is_same<decltype(view.back()), Value&>::value
                          && std::is_same<decltype(*(view.begin() + c.rk)), Value&>::value,
                      "element accessors of a writable view return lvalue references");
        switch(c.op)
        {
        case PUSH_BACK_SELF: C13_WITH_SELF(C13_PUSH_BACK) break;
        case INSERT1_SELF: C13_WITH_SELF(C13_INSERT1) break;
        case INSERT_N_SELF: C13_WITH_SELF(C13_INSERT_N) break;
        case RESIZE_V_SELF: C13_WITH_SELF(C13_RESIZE_V) break;
        case PUSH_BACK: view.push_back(v); break;
        case POP_BACK: view.pop_back(); break;
        case INSERT1: ret = view.insert(view.begin() + c.a, v) - vb; break;
        case INSERT_N: ret = view.insert(view.begin() + c.a, b_st, v) - vb; break;
        case INSERT_IN: ret = view.insert(view.begin() + c.a, InIt<Value>(&(B::vst)), InIt<Value>()) - vb; break;
        case INSERT_FWD: ret = view.insert(view.begin() + c.a, cvfl.begin(), cvfl.end()) - vb; break;
        case INSERT_PTR: ret = view.insert(view.begin() + c.a, sb, se) - vb; break;
        case INSERT_IL:
            with_ilist(src, [&](std::initializer_list<Value> il) { ret = view.insert(view.begin() + c.a, il) - vb; });
            break;
        case ERASE1: ret = view.erase(view.begin() + c.a) - vb; break;
        case ERASE_R: ret = view.erase(view.begin() + c.a, view.begin() + c.b) - vb; break;
        case RESIZE: view.resize(a_st); break;
        case RESIZE_V: view.resize(a_st, v); break;
        case RESIZE_DI: view.resize(a_st, sbepp::default_init); break;
        case ASSIGN_N: view.assign(a_st, v); break;
        case ASSIGN_IN: view.assign(InIt<Value>(&(B::vst)), InIt<Value>()); break;
        case ASSIGN_FWD: view.assign(cvfl.begin(), cvfl.end()); break;
        case ASSIGN_PTR: view.assign(sb, se); break;
        case ASSIGN_IL: with_ilist(src, [&](std::initializer_list<Value> il) { view.assign(il); }); break;
        case ASSIGN_STR: view.assign_string(B::cstr.c_str()); break;
        case ARANGE_VEC: view.assign_range(B::vvec); break;
        case ARANGE_FLIST: view.assign_range(cvfl); break;
        case ARANGE_RVAL: view.assign_range(std::move(B::vvec)); break;
        case CLEAR: view.clear(); break;
        default: abort();
        }
#undef C13_WITH_SELF
#undef C13_PUSH_BACK
#undef C13_INSERT1
#undef C13_INSERT_N
#undef C13_RESIZE_V
    }

    // returns 0 or the index (into STAGES) of the first accessor that disagrees with the model
    int view_observe() override
    {
        const View view = make_view();
        const std::vector<Value>& model = B::model;
        const size_t n = model.size();
        Value* const vb = reinterpret_cast<Value*>(base() + LEN);
        int& st = this->stage_;
        int bad = 0;
#define C13_OBS(idx, cond)                \
    st = idx;                             \
    if(!bad && !(cond)) bad = idx;
        C13_OBS(1, static_cast<uint64_t>(view.size()) == n)
        C13_OBS(2, static_cast<uint64_t>(view.sbe_size().value()) == n)
        C13_OBS(3, view.empty() == model.empty())
        C13_OBS(4, static_cast<uint64_t>(View::max_size()) == this->max_)
        C13_OBS(5, view.data() == vb)
        C13_OBS(6, view.begin() == vb)
        C13_OBS(7, view.end() == vb + n)
        C13_OBS(8, view.rbegin().base() == vb + n)
        C13_OBS(9, view.rend().base() == vb)
        if(n)
        {
            C13_OBS(10, &view.front() == vb && view.front() == model.front())
            C13_OBS(11, &view.back() == vb + n - 1 && view.back() == model.back())
        }
        st = 12;
        for(size_t i = 0; i < n && !bad; i++)
            if(&view[static_cast<size_type>(i)] != vb + i || view[static_cast<size_type>(i)] != model[i]) bad = 12;
        st = 13;
        {
            size_t i = 0;
            bool same = true;
            for(auto it = view.begin(); it != view.end(); ++it, ++i) same = same && i < n && *it == model[i];
            if(!bad && (!same || i != n)) bad = 13;
            st = 14;
            i = 0;
            same = true;
            for(auto it = view.rbegin(); it != view.rend(); ++it, ++i) same = same && i < n && *it == model[n - 1 - i];
            if(!bad && (!same || i != n)) bad = 14;
        }
        C13_OBS(15, sbepp::size_bytes(view) == LEN + n)
        C13_OBS(16, sbepp::addressof(view) == base())
        st = 17;
        {
            const CView cv = view;
            if(!bad
               && (static_cast<uint64_t>(cv.size()) != n || cv.data() != vb || cv.empty() != model.empty()
                   || !std::equal(cv.begin(), cv.end(), model.begin())))
                bad = 17;
        }
        st = 18;
        {
            const auto r = view.raw();
            if(!bad && (static_cast<uint64_t>(r.size()) != n || r.data() != base() + LEN)) bad = 18;
        }
#undef C13_OBS
        return bad;
    }
};

// ------------------------------------------------------------------------------------------------------------
// the type matrix

// what sbeppc generates for <type name="length" primitiveType="uint8" maxValue="255"/>
class len8full_t : public sbepp::detail::required_base<std::uint8_t, len8full_t>
{
public:
    using sbepp::detail::required_base<std::uint8_t, len8full_t>::required_base;
    static constexpr value_type min_value() noexcept { return 0; }
    static constexpr value_type max_value() noexcept { return 255; }
};

using MachineList = std::vector<std::unique_ptr<IMachine>>;

// The matrix can be split over several binaries (compile time): -DC13_PARTS=n -DC13_PART=k keeps the
// configurations whose index is congruent to k.
#ifndef C13_PARTS
#    define C13_PARTS 1
#    define C13_PART 0
#endif

template<bool Enabled, typename Byte, typename Value, typename Length, sbepp::endian E>
struct Adder
{
    static void add(MachineList& l, const std::string& nm, uint64_t mx) { l.emplace_back(new Machine<Byte, Value, Length, E>(nm, mx)); }
};
template<typename Byte, typename Value, typename Length, sbepp::endian E>
struct Adder<false, Byte, Value, Length, E>
{
    static void add(MachineList&, const std::string&, uint64_t) {}
};

template<int Idx, typename Byte, typename Value, typename Length, sbepp::endian E>
static void add1(MachineList& l, const char* ln, uint64_t mx, const char* vn, const char* bn)
{
    Adder<(Idx % C13_PARTS) == C13_PART, Byte, Value, Length, E>::add(
        l, std::string(ln) + "." + (E == sbepp::endian::little ? "le" : "be") + "." + vn + "." + bn, mx);
}

template<int Base, typename Byte, typename Value>
static void add_lengths(MachineList& l, const char* vn, const char* bn)
{
    using sbepp::endian;
    // the stride 11 is coprime to the usual part counts: every part gets every length type and byte order
    add1<Base * 11 + 0, Byte, Value, sbepp::uint8_t, endian::little>(l, "u8", 254u, vn, bn);
    add1<Base * 11 + 1, Byte, Value, sbepp::uint8_t, endian::big>(l, "u8", 254u, vn, bn);
    add1<Base * 11 + 2, Byte, Value, sbepp::uint16_t, endian::little>(l, "u16", 65534u, vn, bn);
    add1<Base * 11 + 3, Byte, Value, sbepp::uint16_t, endian::big>(l, "u16", 65534u, vn, bn);
    add1<Base * 11 + 4, Byte, Value, sbepp::uint32_t, endian::little>(l, "u32", 4294967294ull, vn, bn);
    add1<Base * 11 + 5, Byte, Value, sbepp::uint32_t, endian::big>(l, "u32", 4294967294ull, vn, bn);
    add1<Base * 11 + 6, Byte, Value, sbepp::uint64_t, endian::little>(l, "u64", 18446744073709551614ull, vn, bn);
    add1<Base * 11 + 7, Byte, Value, sbepp::uint64_t, endian::big>(l, "u64", 18446744073709551614ull, vn, bn);
}

template<int Base, typename Byte>
static void add_values(MachineList& l, const char* bn)
{
    add_lengths<Base * 3 + 0, Byte, char>(l, "char", bn);
    add_lengths<Base * 3 + 1, Byte, std::uint8_t>(l, "u8", bn);
    add_lengths<Base * 3 + 2, Byte, std::int8_t>(l, "i8", bn);
}

static MachineList make_machines()
{
    MachineList l;
    add_values<0, char>(l, "char");
    add_values<1, unsigned char>(l, "uchar");
#if __cplusplus >= 201703L
    add_values<2, std::byte>(l, "byte");
#endif
    add1<1, char, char, len8full_t, sbepp::endian::little>(l, "u8full", 255u, "char", "char");
    add1<2, unsigned char, std::uint8_t, len8full_t, sbepp::endian::big>(l, "u8full", 255u, "u8", "uchar");
    return l;
}

// ------------------------------------------------------------------------------------------------------------
// cases

struct Case
{
    std::string cfg;
    size_t cap = 0;
    uint64_t size = 0;
    std::string buf;
    std::vector<CCmd> ops;
};

static std::string case_head(const std::string& cfg, size_t cap, uint64_t size, const std::string& buf)
{
    return "cfg=" + cfg + ";cap=" + std::to_string(cap) + ";size=" + std::to_string(size) + ";buf=" + hex(buf) + ";ops=";
}

static bool parse_case(const std::string& t, Case& c)
{
    std::map<std::string, std::string> kv;
    size_t p = 0;
    while(p < t.size())
    {
        size_t e = t.find(';', p);
        if(e == std::string::npos) e = t.size();
        const std::string item = t.substr(p, e - p);
        const size_t eq = item.find('=');
        if(eq != std::string::npos) kv[item.substr(0, eq)] = item.substr(eq + 1);
        p = e + 1;
    }
    if(!kv.count("cfg") || !kv.count("cap")) return false;
    c.cfg = kv["cfg"];
    c.cap = strtoull(kv["cap"].c_str(), nullptr, 10);
    c.size = strtoull(kv["size"].c_str(), nullptr, 10);
    if(!unhex(kv["buf"], c.buf)) return false;
    std::istringstream is(kv["ops"]);
    std::string tok;
    while(is >> tok)
    {
        CCmd cmd;
        if(!parse_cmd(tok, cmd)) return false;
        c.ops.push_back(cmd);
    }
    return true;
}

struct Ctx
{
    hc::Options opt;
    hc::Report rep;
    MachineList machines;
    std::set<std::string> soft; // signatures already reported in this run (random engine: search continues behind them)
    long extra_nontrivial = 0;  // enumerated sequences are distinct by construction: counted, not hashed
    long steps = 0;

    IMachine* find(const std::string& name)
    {
        for(auto& m : machines)
            if(m->name() == name) return m.get();
        return nullptr;
    }
};

static inline int popcount32(uint32_t x) { return __builtin_popcount(x); }

// The case in flight, for the sanitizers' death callback: a crash is attributed to the exact command sequence
// (libharness turns the last CURRENT line + the sanitizer report into a FAIL).
struct InFlight
{
    const std::string* prefix = nullptr;     // case head + commands already executed
    const std::vector<const CCmd*>* path = nullptr; // or: commands as a path (dfs)
    const CCmd* cmd = nullptr;               // command being executed
};
static InFlight g_inflight;
static Ctx* g_ctx = nullptr;
static void print_partial_stats();
struct InFlightText
{
    explicit InFlightText(const std::string* t)
    {
        g_inflight = InFlight();
        g_inflight.prefix = t;
    }
    ~InFlightText() { g_inflight = InFlight(); }
};

static void print_partial_stats()
{
    if(!g_ctx) return;
    printf("STAT evaluations %ld\nSTAT nontrivial %ld\n", g_ctx->rep.evaluations,
           g_ctx->extra_nontrivial + static_cast<long>(g_ctx->rep.nontrivial.size()));
    for(auto& sm : g_ctx->rep.samples) printf("SAMPLE %s\n", hc::Report::one_line(sm).c_str());
}

static void on_death()
{
    if(!g_inflight.prefix) return;
    std::string t = *g_inflight.prefix;
    bool first = t.empty() || t.back() == '=';
    if(g_inflight.path)
        for(const CCmd* c : *g_inflight.path)
        {
            t += (first ? "" : " ") + to_text(*c);
            first = false;
        }
    if(g_inflight.cmd) t += (first ? "" : " ") + to_text(*g_inflight.cmd);
    printf("\nCURRENT %s\n", t.c_str());
    print_partial_stats();
    fflush(stdout);
}

// ------------------------------------------------------------------------------------------------------------
// enumeration of the concrete commands of the small scope (capacity `cap`, values in `alpha`)

static void all_strings(const std::string& alpha, size_t maxlen, std::vector<std::string>& out)
{
    out.clear();
    out.push_back("");
    size_t from = 0;
    for(size_t len = 1; len <= maxlen; len++)
    {
        const size_t to = out.size();
        for(size_t i = from; i < to; i++)
            for(char ch : alpha) out.push_back(out[i] + ch);
        from = to;
    }
}

// full = also the pointer-iterator, forward_list-range and rvalue-range variants.
// selfforms = how the element of a *_self command is named: 0: d[k] for every k; 1: also d.front() and d.back();
// 2: also *(d.begin()+k) for every k.  (Every element is referenced at every level; the level only adds spellings.)
static std::vector<CCmd> enumerate_ops(uint64_t n, uint64_t limit, const std::string& alpha, bool full, int selfforms)
{
    std::vector<CCmd> r;
    std::vector<std::string> strs;
    all_strings(alpha, static_cast<size_t>(limit), strs);
    const auto add = [&](Op op, uint64_t a, uint64_t b, unsigned char v, const std::string& d) {
        CCmd c;
        c.op = op;
        c.a = a;
        c.b = b;
        c.v = v;
        c.data = d;
        uint64_t nn;
        if(valid(c, n, limit, nn)) r.push_back(c);
    };
    // every way of naming an element of a view of size n
    std::vector<std::pair<int, uint64_t>> refs;
    if(n)
    {
        for(uint64_t k = 0; k < n; k++) refs.push_back({R_AT, k});
        if(selfforms >= 1)
        {
            refs.push_back({R_FRONT, 0});
            refs.push_back({R_BACK, 0});
        }
        if(selfforms >= 2)
            for(uint64_t k = 0; k < n; k++) refs.push_back({R_IT, k});
    }
    const auto add_self = [&](Op op, uint64_t a, uint64_t b) {
        for(const auto& rf : refs)
        {
            CCmd c;
            c.op = op;
            c.a = a;
            c.b = b;
            c.rform = rf.first;
            c.rk = rf.second;
            uint64_t nn;
            if(valid(c, n, limit, nn)) r.push_back(c);
        }
    };
    for(unsigned char v : alpha) add(PUSH_BACK, 0, 0, v, "");
    add_self(PUSH_BACK_SELF, 0, 0);
    add(POP_BACK, 0, 0, 0, "");
    for(uint64_t p = 0; p <= n; p++)
    {
        for(unsigned char v : alpha) add(INSERT1, p, 0, v, "");
        add_self(INSERT1_SELF, p, 0);
        for(uint64_t k = 0; k + n <= limit; k++)
        {
            for(unsigned char v : alpha) add(INSERT_N, p, k, v, "");
            add_self(INSERT_N_SELF, p, k);
        }
        for(const auto& s : strs)
        {
            add(INSERT_IN, p, 0, 0, s);
            add(INSERT_FWD, p, 0, 0, s);
            if(full) add(INSERT_PTR, p, 0, 0, s);
            add(INSERT_IL, p, 0, 0, s);
        }
    }
    for(uint64_t p = 0; p < n; p++) add(ERASE1, p, 0, 0, "");
    for(uint64_t f = 0; f <= n; f++)
        for(uint64_t l = f; l <= n; l++) add(ERASE_R, f, l, 0, "");
    for(uint64_t k = 0; k <= limit; k++)
    {
        add(RESIZE, k, 0, 0, "");
        add(RESIZE_DI, k, 0, 0, "");
        for(unsigned char v : alpha)
        {
            add(RESIZE_V, k, 0, v, "");
            add(ASSIGN_N, k, 0, v, "");
        }
        add_self(RESIZE_V_SELF, k, 0);
    }
    for(const auto& s : strs)
    {
        add(ASSIGN_IN, 0, 0, 0, s);
        add(ASSIGN_FWD, 0, 0, 0, s);
        if(full) add(ASSIGN_PTR, 0, 0, 0, s);
        add(ASSIGN_IL, 0, 0, 0, s);
        add(ASSIGN_STR, 0, 0, 0, s);
        add(ARANGE_VEC, 0, 0, 0, s);
        if(full)
        {
            add(ARANGE_FLIST, 0, 0, 0, s);
            add(ARANGE_RVAL, 0, 0, 0, s);
        }
    }
    add(CLEAR, 0, 0, 0, "");
    return r;
}

// distribution counters of the commands executed by one engine: per command name, and for the *_self commands per
// reference form + how often the referenced element is one that the insertion itself moves
struct OpCounts
{
    long op[OP_COUNT] = {0};
    long form[R_COUNT] = {0};
    long shifted = 0;

    void count(const CCmd& c, uint64_t n)
    {
        op[c.op]++;
        if(is_self(c.op))
        {
            form[c.rform]++;
            if(ref_shifted(c, n)) shifted++;
        }
    }
    void report(hc::Report& rep) const
    {
        for(int i = 0; i < OP_COUNT; i++)
            if(op[i]) rep.cls(std::string("op_") + OPS[i].name, op[i]);
        for(int i = 0; i < R_COUNT; i++)
            if(form[i]) rep.cls(std::string("selfref_") + REF_NAMES[i], form[i]);
        if(shifted) rep.cls("selfref_element_moved_by_insert", shifted);
    }
};

static const size_t SCOPE_CAP = 4;
static const char* const SCOPE_ALPHA = "ab";

// ---- closure: every command from every reachable buffer state
struct ClosureStats
{
    long states = 0, steps = 0;
};

static ClosureStats run_closure(Ctx& cx, IMachine& m)
{
    struct Info
    {
        std::string path; // commands that reach this state from the pristine empty buffer
        uint32_t ovmask;
        bool bnd;
    };
    ClosureStats st;
    std::map<std::string, Info> seen; // key: the whole arena (guards are constant)
    std::deque<std::string> queue;
    std::vector<std::vector<CCmd>> ops(SCOPE_CAP + 1);
    for(size_t n = 0; n <= SCOPE_CAP; n++) ops[n] = enumerate_ops(n, SCOPE_CAP, SCOPE_ALPHA, true, 2);
    m.reset(SCOPE_CAP, 0, "");
    std::string key, k2;
    m.save(key);
    seen[key] = Info{"", 0, false};
    queue.push_back(key);
    const std::string head = case_head(m.name(), SCOPE_CAP, 0, "");
    Outcome out;
    OpCounts opcount;
    std::string prefix;
    while(!queue.empty())
    {
        key = queue.front();
        queue.pop_front();
        const Info info = seen[key];
        prefix = head + info.path;
        g_inflight = InFlight();
        g_inflight.prefix = &prefix;
        m.load(key);
        const uint64_t n = m.size();
        st.states++;
        for(const CCmd& c : ops[n])
        {
            m.load(key);
            st.steps++;
            cx.rep.evaluations++;
            opcount.count(c, n);
            g_inflight.cmd = &c;
            const bool ok = m.step(c, out);
            const uint32_t mask = info.ovmask | (1u << OPS[c.op].overload);
            const bool bnd = info.bnd || boundary(c, n);
            if(popcount32(mask) >= 2 && bnd) cx.extra_nontrivial++;
            if(!ok && cx.rep.fail(out.sig, head + info.path + (info.path.empty() ? "" : " ") + to_text(c), out.what))
                continue; // new violation: do not search behind it
            m.save(k2);
            if(!seen.count(k2))
            {
                seen[k2] = Info{info.path + (info.path.empty() ? "" : " ") + to_text(c), mask, bnd};
                queue.push_back(k2);
            }
        }
    }
    g_inflight = InFlight();
    opcount.report(cx.rep);
    if(cx.rep.samples.size() < 2)
    {
        // the deepest discovered state as a sample
        const Info* best = nullptr;
        for(auto& kv : seen)
            if(!best || kv.second.path.size() > best->path.size()) best = &kv.second;
        cx.rep.sample("closure: " + head + best->path, 100);
    }
    return st;
}

// ---- literal depth-bounded enumeration
struct Dfs
{
    Ctx& cx;
    IMachine& m;
    int maxdepth;
    std::vector<std::vector<CCmd>> ops;
    std::vector<std::string> saved;
    std::vector<const CCmd*> path;
    std::string root_head;
    long nodes;
    bool count_nontrivial;
    std::string sample;
    Outcome out;
    OpCounts opcount;

    std::string text() const
    {
        std::string t = root_head;
        for(size_t i = 0; i < path.size(); i++) t += (i ? " " : "") + to_text(*path[i]);
        return t;
    }

    void visit(const CCmd& c, int depth, uint32_t mask, bool bnd)
    {
        // precondition: machine is in the node's state; `c` is the command to apply at level `depth`
        const uint64_t n = m.size();
        path.push_back(&c);
        nodes++;
        cx.rep.evaluations++;
        opcount.count(c, n);
        if((nodes & 0xfffff) == 1) hc::current_always(text());
        if(nodes == 777777 || (nodes == 7777 && sample.empty())) sample = text();
        const bool ok = m.step(c, out);
        mask |= 1u << OPS[c.op].overload;
        bnd = bnd || boundary(c, n);
        if(count_nontrivial && popcount32(mask) >= 2 && bnd) cx.extra_nontrivial++;
        if(!ok && cx.rep.fail(out.sig, text(), out.what))
        {
            path.pop_back();
            return;
        }
        if(depth + 1 < maxdepth)
        {
            m.save(saved[depth + 1]);
            for(const CCmd& c2 : ops[m.size()])
            {
                visit(c2, depth + 1, mask, bnd);
                m.load(saved[depth + 1]);
            }
        }
        path.pop_back();
    }
};

static void run_dfs(Ctx& cx, IMachine& m, int depth, long shard, long nshards)
{
    Dfs d{cx, m, depth, {}, {}, {}, "", 0, true, "", {}, {}};
    d.ops.resize(SCOPE_CAP + 1);
    // depth >= 3 (thorough tier): the d[k] spelling only, the number of sequences grows with the cube of the command count
    for(size_t n = 0; n <= SCOPE_CAP; n++) d.ops[n] = enumerate_ops(n, SCOPE_CAP, SCOPE_ALPHA, false, depth >= 3 ? 0 : 1);
    d.saved.resize(depth + 1);
    std::vector<std::string> roots;
    all_strings(SCOPE_ALPHA, SCOPE_CAP, roots);
    long unit = 0;
    for(const auto& root : roots)
    {
        d.root_head = case_head(m.name(), SCOPE_CAP, root.size(), root);
        // sequences from the empty root also occur in the closure's case list: not counted twice
        d.count_nontrivial = !root.empty();
        g_inflight = InFlight();
        g_inflight.prefix = &d.root_head;
        g_inflight.path = &d.path;
        for(const CCmd& c : d.ops[root.size()])
        {
            if(unit++ % nshards != shard) continue;
            m.reset(SCOPE_CAP, root.size(), root);
            d.visit(c, 0, 0, false);
        }
    }
    g_inflight = InFlight();
    cx.rep.cls("dfs_nodes", d.nodes);
    d.opcount.report(cx.rep);
    if(!d.sample.empty()) cx.rep.sample("dfs: " + d.sample, 100);
}

// ------------------------------------------------------------------------------------------------------------
// running an explicit case (replay, random engine)

struct RunInfo
{
    uint32_t ovmask = 0;
    bool bnd = false;
    long executed = 0;
};

// returns false on an unknown violation (recorded in rep)
static bool run_case(Ctx& cx, const Case& c, std::string& err)
{
    IMachine* m = cx.find(c.cfg);
    if(!m)
    {
        err = "unknown cfg " + c.cfg + " in this build";
        return true;
    }
    m->reset(c.cap, 0, c.buf);
    if(c.size > m->limit())
    {
        err = "initial size does not fit";
        return true;
    }
    m->reset(c.cap, c.size, c.buf);
    std::string text = case_head(c.cfg, c.cap, c.size, c.buf);
    const InFlightText inflight(&text);
    Outcome out;
    for(size_t i = 0; i < c.ops.size(); i++)
    {
        uint64_t nn;
        if(!valid(c.ops[i], m->size(), m->limit(), nn))
        {
            err = "command " + to_text(c.ops[i]) + " violates a precondition at size " + std::to_string(m->size());
            return true;
        }
        text += (i ? " " : "") + to_text(c.ops[i]);
        if(!m->step(c.ops[i], out) && cx.rep.fail(out.sig, text, out.what)) return false;
    }
    return true;
}

// ------------------------------------------------------------------------------------------------------------
// random engine

struct ACmd
{
    int op = 0;
    int psel = 0, psel2 = 0, csel = 0;
    unsigned pfrac = 0, pfrac2 = 0, cval = 0;
    int rsel = 0;       // *_self: reference form ...
    unsigned rfrac = 0; // ... and element
    unsigned char v = 0;
    std::vector<unsigned char> seed;
};

struct ACase
{
    int cfg = 0;
    int cap = 0;
    std::vector<unsigned char> init; // initial contents (truncated to the limit)
    std::vector<ACmd> cmds;
};

static std::string cyc(const std::vector<unsigned char>& seed, uint64_t len, bool no_nul)
{
    std::string s(static_cast<size_t>(len), 'a');
    if(!seed.empty())
        for(size_t i = 0; i < s.size(); i++) s[i] = static_cast<char>(seed[i % seed.size()]);
    if(no_nul)
        for(auto& ch : s)
            if(ch == 0) ch = 1;
    return s;
}

// Turns an abstract command into a concrete one that is valid in state (n, limit); false = not possible (skipped)
static bool resolve(const ACmd& a, uint64_t n, uint64_t limit, CCmd& c)
{
    c = CCmd();
    c.op = static_cast<Op>(a.op);
    c.v = a.v;
    const uint64_t room = limit - n;
    const auto pos = [&](int sel, unsigned frac, uint64_t hi) -> uint64_t { // in [0,hi]
        switch(sel & 3)
        {
        case 0: return 0;
        case 1: return hi;
        case 2: return hi / 2;
        default: return frac % (hi + 1);
        }
    };
    const auto count = [&]() -> uint64_t { // in [0,room]
        switch(a.csel % 6)
        {
        case 0: return 0;
        case 1: return std::min<uint64_t>(1, room);
        case 2: return room;
        case 3: return a.cval % (room + 1);
        case 4: return room ? room - 1 : 0;
        default: return std::min<uint64_t>(room, 2 + a.cval % 6);
        }
    };
    const auto target = [&]() -> uint64_t { // in [0,limit]
        switch(a.csel % 8)
        {
        case 0: return 0;
        case 1: return n;
        case 2: return limit;
        case 3: return a.cval % (limit + 1);
        case 4: return limit ? limit - 1 : 0;
        case 5: return std::min<uint64_t>(n + 1, limit);
        case 6: return n ? n - 1 : 0;
        default: return std::min<uint64_t>(limit, a.cval % 12);
        }
    };
    if(is_self(c.op))
    {
        // an element of the view itself as the value argument: needs one.  Elements behind the insertion position are
        // the ones an insertion moves, so the last element is a frequent choice besides a uniformly drawn one.
        if(!n) return false;
        c.rform = a.rsel % R_COUNT;
        if(c.rform == R_AT || c.rform == R_IT) c.rk = (a.rfrac & 1) ? n - 1 - (a.rfrac >> 1) % std::min<uint64_t>(n, 3) : (a.rfrac >> 1) % n;
    }
    switch(c.op)
    {
    case PUSH_BACK:
    case PUSH_BACK_SELF: return room > 0;
    case POP_BACK: return n > 0;
    case INSERT1:
    case INSERT1_SELF: c.a = pos(a.psel, a.pfrac, n); return room > 0;
    case INSERT_N:
    case INSERT_N_SELF:
        c.a = pos(a.psel, a.pfrac, n);
        c.b = count();
        return true;
    case INSERT_IN:
        // element-by-element insertion is quadratic in view and model: bounded so that huge buffers stay affordable
        c.a = pos(a.psel, a.pfrac, n);
        c.data = cyc(a.seed, std::min<uint64_t>(count(), 300), false);
        return true;
    case INSERT_FWD:
    case INSERT_PTR:
        c.a = pos(a.psel, a.pfrac, n);
        c.data = cyc(a.seed, count(), false);
        return true;
    case INSERT_IL:
        c.a = pos(a.psel, a.pfrac, n);
        c.data = cyc(a.seed, std::min<uint64_t>(count(), MAX_ILIST), false);
        return true;
    case ERASE1:
        if(!n) return false;
        c.a = pos(a.psel, a.pfrac, n - 1);
        return true;
    case ERASE_R:
        c.a = pos(a.psel, a.pfrac, n);
        switch(a.psel2 & 3)
        {
        case 0: c.b = c.a; break;
        case 1: c.b = n; break;
        case 2: c.b = std::min<uint64_t>(c.a + 1, n); break;
        default: c.b = c.a + a.pfrac2 % (n - c.a + 1); break;
        }
        return true;
    case RESIZE:
    case RESIZE_V:
    case RESIZE_V_SELF:
    case RESIZE_DI:
    case ASSIGN_N: c.a = target(); return true;
    case ASSIGN_IN:
    case ASSIGN_FWD:
    case ASSIGN_PTR:
    case ARANGE_VEC:
    case ARANGE_FLIST:
    case ARANGE_RVAL: c.data = cyc(a.seed, target(), false); return true;
    case ASSIGN_IL: c.data = cyc(a.seed, std::min<uint64_t>(target(), MAX_ILIST), false); return true;
    case ASSIGN_STR: c.data = cyc(a.seed, target(), true); return true;
    case CLEAR: return true;
    default: return false;
    }
}

// Generation goes through a "tape": rapidcheck produces rows of 8 numbers in [0,2^20); a row decodes into one
// abstract command (the first tape is the case header).  Removing a row removes a command, numbers shrink towards 0
// = push_back / begin / count 0 / 'a'.  (Plain containers of integers keep the compile time of this TU sane.)
static const unsigned TAPE_MAX = 1u << 20;
static const int ROW = 8;

static unsigned char byte_of(unsigned x)
{
    static const unsigned char special[] = {0, 0xff, 0x80, 0x7f, 1};
    const unsigned k = x % 10, y = x / 10;
    if(k < 6) return (y & 1) ? 'b' : 'a';
    if(k < 8) return special[y % 5];
    return static_cast<unsigned char>(y & 0xff);
}

static const std::vector<int>& op_table()
{
    // inserts and erases are the interesting part: heavier than whole-content assignments
    static const int weights[OP_COUNT] = {4, 3, 5, 5, 4, 4, 2, 3, 5, 8, 2, 2, 3, 1, 1, 1, 1, 1, 1, 1, 1, 1, 1,
                                          /* *_self */ 2, 5, 5, 2};
    static std::vector<int> t;
    if(t.empty())
        for(int op = 0; op < OP_COUNT; op++)
            for(int k = 0; k < weights[op]; k++) t.push_back(op);
    return t;
}

static ACmd decode_cmd(const std::vector<unsigned>& r)
{
    ACmd a;
    const auto& t = op_table();
    a.op = t[r[0] % t.size()];
    a.psel = static_cast<int>(r[1] & 3);
    a.pfrac = r[1] >> 2;
    a.psel2 = static_cast<int>(r[2] & 3);
    a.pfrac2 = r[2] >> 2;
    a.csel = static_cast<int>(r[3] % 24);
    a.cval = r[3] / 24;
    a.v = byte_of(r[4]);
    a.rsel = static_cast<int>(r[7] & 3);
    a.rfrac = r[7] >> 2;
    const unsigned len = 1 + r[5] % 5;
    for(unsigned i = 0; i < len; i++) a.seed.push_back(byte_of(r[5] / 5 + i * 7919u + r[6] * (i + 1)));
    return a;
}

static ACase decode_case(const std::vector<unsigned>& h, const std::vector<std::vector<unsigned>>& rows, int ncfg, bool thorough)
{
    ACase c;
    c.cfg = static_cast<int>(h[0] % static_cast<unsigned>(ncfg));
    const unsigned cls = h[1] % (thorough ? 83u : 81u);
    if(cls < 30) c.cap = static_cast<int>(h[2] % 9);
    else if(cls < 50) c.cap = static_cast<int>(9 + h[2] % 32);
    else if(cls < 80) c.cap = static_cast<int>(250 + h[2] % 12);
    else c.cap = static_cast<int>(65530 + h[2] % 10);
    const unsigned il = h[3] % 7;
    for(unsigned i = 0; i < il; i++) c.init.push_back(byte_of(h[4] + i * 7919u));
    // every step on a 64 KiB buffer costs several passes over it: at most 40 commands there
    const size_t maxcmds = c.cap > 60000 ? 40 : rows.size();
    for(const auto& r : rows)
        if(c.cmds.size() < maxcmds) c.cmds.push_back(decode_cmd(r));
    return c;
}

static const char* cap_class(size_t cap)
{
    return cap <= 8 ? "cap_0_8" : cap <= 40 ? "cap_9_40" : cap < 1000 ? "cap_250_261" : "cap_65530_65539";
}

// property body; returns "" or the description of a new violation
static std::string random_property(Ctx& cx, const ACase& ac)
{
    IMachine& m = *cx.machines[static_cast<size_t>(ac.cfg) % cx.machines.size()];
    const size_t cap = static_cast<size_t>(ac.cap);
    m.reset(cap, 0, "");
    const uint64_t limit = m.limit();
    std::string init(ac.init.begin(), ac.init.end());
    if(init.size() > limit) init.resize(static_cast<size_t>(limit));
    m.reset(cap, init.size(), init);
    std::string text = case_head(m.name(), cap, init.size(), init);
    const InFlightText inflight(&text);
    RunInfo ri;
    Outcome out;
    CCmd c;
    bool first = true;
    long skipped = 0;
    OpCounts opcount;
    std::string result;
    for(const ACmd& a : ac.cmds)
    {
        const uint64_t n = m.size();
        uint64_t nn;
        if(!resolve(a, n, limit, c) || !valid(c, n, limit, nn))
        {
            skipped++;
            continue;
        }
        text += (first ? "" : " ") + to_text(c);
        first = false;
        ri.ovmask |= 1u << OPS[c.op].overload;
        ri.bnd = ri.bnd || boundary(c, n);
        ri.executed++;
        opcount.count(c, n);
        cx.steps++;
        if((n == limit || nn == limit) && limit > 8) cx.rep.cls("step_at_length_limit");
        if(!m.step(c, out))
        {
            if(cx.soft.count(out.sig)) continue; // already reported in this run: search behind it
            if(cx.rep.fail(out.sig, text, out.what))
            {
                result = out.sig + ": " + out.what;
                break;
            }
        }
    }
    cx.rep.eval();
    if(result.empty())
    {
        hc::current(text);
        cx.rep.cls(cap_class(cap));
        cx.rep.cls("cmds_skipped_precondition", skipped);
        cx.rep.cls(ri.executed <= 5 ? "len_0_5" : ri.executed <= 20 ? "len_6_20" : ri.executed <= 80 ? "len_21_80" : "len_81_plus");
        opcount.report(cx.rep);
        if(popcount32(ri.ovmask) >= 2 && ri.bnd)
        {
            cx.rep.nontriv(text);
            if(ri.executed >= 6 && text.size() < 260) cx.rep.sample("random: " + text, 6);
        }
    }
    return result;
}

static void run_random(Ctx& cx)
{
    // RC_PARAMS is normally provided by the check; fall back to the harness' own options
    if(!getenv("RC_PARAMS"))
    {
        const std::string p = "seed=" + std::to_string(cx.opt.seed) + " max_success=" + (cx.opt.thorough ? "20000" : "2000")
            + " max_size=100";
        setenv("RC_PARAMS", p.c_str(), 1);
    }
    const bool thorough = cx.opt.thorough;
    const int ncfg = static_cast<int>(cx.machines.size());
    const auto num = rc::gen::resize(100, rc::gen::inRange<unsigned>(0, TAPE_MAX));
    const auto hdr = rc::gen::container<std::vector<unsigned>>(ROW, num);
    const auto maxlen =
        rc::gen::resize(100, rc::gen::weightedElement<int>({{2, 6}, {4, 24}, {4, 80}, {thorough ? 3u : 1u, 250}}));
    const auto rows = rc::gen::mapcat(maxlen, [=](int ml) {
        return rc::gen::resize(ml, rc::gen::container<std::vector<std::vector<unsigned>>>(rc::gen::container<std::vector<unsigned>>(ROW, num)));
    });
    for(int round = 0; round < 6; round++)
    {
        const size_t nfails = cx.rep.fails.size();
        const bool ok = rc::check("C13 dynamic_array_ref behaves like a bounded vector", [&] {
            const std::vector<unsigned> h = *hdr;
            const std::vector<std::vector<unsigned>> r = *rows;
            const std::string res = random_property(cx, decode_case(h, r, ncfg, thorough));
            if(!res.empty()) RC_FAIL(res);
        });
        if(ok) break;
        if(cx.rep.fails.size() == nfails) break; // failed for another reason (generation): reported by rapidcheck
        for(auto& f : cx.rep.fails) cx.soft.insert(f.first);
    }
}

// ------------------------------------------------------------------------------------------------------------

static std::vector<std::string> split(const std::string& s, char sep)
{
    std::vector<std::string> r;
    size_t p = 0;
    while(p <= s.size())
    {
        size_t e = s.find(sep, p);
        if(e == std::string::npos) e = s.size();
        if(e > p) r.push_back(s.substr(p, e - p));
        p = e + 1;
    }
    return r;
}
} // namespace c13

int main(int argc, char** argv)
{
    using namespace c13;
    Ctx cx;
    cx.opt = hc::parse_args(argc, argv);
    cx.rep.opt = &cx.opt;
    cx.machines = make_machines();
    g_ctx = &cx;
    __sanitizer_set_death_callback(on_death);

    std::string mode = "all", dfs_cfgs, closure_cfgs = "all";
    int dfs_depth = 3;
    long shard = 0, nshards = 1;
    for(int i = 1; i + 1 < argc; i++)
    {
        const std::string a = argv[i];
        if(a == "--mode") mode = argv[i + 1];
        else if(a == "--dfs-depth") dfs_depth = atoi(argv[i + 1]);
        else if(a == "--dfs-cfgs") dfs_cfgs = argv[i + 1];
        else if(a == "--closure-cfgs") closure_cfgs = argv[i + 1];
        else if(a == "--shard") sscanf(argv[i + 1], "%ld/%ld", &shard, &nshards);
    }
    for(int i = 1; i < argc; i++)
        if(std::string(argv[i]) == "--list-cfgs")
        {
            for(auto& m : cx.machines) printf("%s\n", m->name().c_str());
            return 0;
        }

    if(!cx.opt.replay.empty())
    {
        Case c;
        if(!parse_case(cx.opt.replay, c))
        {
            printf("REPLAY cannot parse case\n");
            return 2;
        }
        std::string err;
        hc::current_always(cx.opt.replay);
        run_case(cx, c, err);
        if(!err.empty())
        {
            printf("REPLAY invalid: %s\n", err.c_str());
            return 2;
        }
        cx.rep.eval();
        if(cx.rep.fails.empty()) printf("REPLAY holds\n");
        return cx.rep.finish();
    }

    bool exhaustive_done = false;
    if(mode == "all" || mode == "closure")
    {
        long states = 0, steps = 0, n = 0;
        for(auto& m : cx.machines)
        {
            if(closure_cfgs != "all")
            {
                const auto want = split(closure_cfgs, ',');
                if(std::find(want.begin(), want.end(), m->name()) == want.end()) continue;
            }
            hc::current_always("closure " + m->name());
            const ClosureStats s = run_closure(cx, *m);
            states += s.states;
            steps += s.steps;
            n++;
        }
        printf("STAT closure_configs %ld\nSTAT closure_states %ld\nSTAT closure_steps %ld\n", n, states, steps);
        exhaustive_done = true;
    }
    if(mode == "all" || mode == "dfs")
    {
        std::vector<std::string> want = split(dfs_cfgs, ',');
        if(want.empty()) want.push_back(cx.machines[(static_cast<size_t>(cx.opt.seed) * 7) % cx.machines.size()]->name());
        for(const auto& w : want)
        {
            IMachine* m = cx.find(w);
            if(!m) continue; // e.g. std::byte before C++17
            const long before = cx.rep.evaluations;
            run_dfs(cx, *m, dfs_depth, shard, nshards);
            printf("STAT dfs_sequences %ld\n", cx.rep.evaluations - before);
        }
        exhaustive_done = true;
    }
    if(exhaustive_done) cx.rep.exhaustive = 1;
    if(mode == "all" || mode == "random")
    {
        const long before = cx.rep.evaluations;
        run_random(cx);
        printf("STAT random_sequences %ld\nSTAT random_steps %ld\n", cx.rep.evaluations - before, cx.steps);
    }
    printf("STAT nontrivial %ld\n", cx.extra_nontrivial); // enumerated part, added to the hashed (random) part
    return cx.rep.finish();
}
