// libFuzzer target for C09: the real sbeppc `main`, in process.
//
// Input layout: the last 2 bytes choose the command line shape, the rest is
// the schema file.  Oracle (inside the target):
//   * main returns 0, or returns non-zero having printed an `Error` line and
//     leaving no file in the output directory;
//   * no exception escapes main; no abort / assertion / sanitizer report
//     (those end the process and leave a crash- artifact).
// Escapes whose signature is listed in FUZZ_KNOWN (";"-separated) are counted
// and skipped so that the campaign keeps searching behind a recorded finding.
#include <cctype>
#include <cstdint>
#include <cstdio>
#include <cstdlib>
#include <cstring>
#include <string>
#include <vector>
#include <set>
#include <exception>
#include <typeinfo>
#include <filesystem>
#include <fcntl.h>
#include <unistd.h>
#include <sys/mman.h>
#include <sys/stat.h>
#include <sys/resource.h>
#include <cxxabi.h>

#define main sbeppc_main
#include "main.cpp"
#undef main

namespace
{
namespace fs = std::filesystem;
std::string g_dir;
int g_capture_fd = -1;
std::set<std::string> g_known;
long g_n, g_ok, g_rej, g_rej_xml, g_io_fail, g_known_hits;
std::set<uint64_t> g_nontrivial; // hashes of inputs that got past XML parsing
std::vector<std::string> g_samples;

uint64_t fnv(const uint8_t* d, size_t n)
{
    uint64_t h = 1469598103934665603ull;
    for(size_t i = 0; i < n; i++) { h ^= d[i]; h *= 1099511628211ull; }
    return h;
}

void dump_stats()
{
    const char* p = getenv("FUZZ_STATS");
    if(!p) return;
    std::string path = std::string(p) + "." + std::to_string(getpid());
    FILE* f = fopen(path.c_str(), "w");
    if(!f) return;
    fprintf(f, "n %ld\nok %ld\nrejected %ld\nrejected_xml %ld\nio_failure %ld\nknown %ld\nnontrivial %zu\n",
        g_n, g_ok, g_rej, g_rej_xml, g_io_fail, g_known_hits, g_nontrivial.size());
    for(auto& s : g_samples)
    {
        std::string one;
        for(char c : s) one += (c == '\n' || c == '\r') ? ' ' : c;
        fprintf(f, "sample %s\n", one.c_str());
    }
    fclose(f);
    FILE* h = fopen((path + ".hashes").c_str(), "wb");
    if(h)
    {
        for(auto v : g_nontrivial) fwrite(&v, sizeof v, 1, h);
        fclose(h);
    }
}

void write_file(const std::string& p, const char* d, size_t n)
{
    FILE* f = fopen(p.c_str(), "wb");
    if(!f) abort();
    if(n) fwrite(d, 1, n, f);
    fclose(f);
}

const char* kFragOk =
    "<types><type name=\"incT\" primitiveType=\"uint8\"/></types>";
const char* kFragBad = "<types><type name=\"incT\" primitiveType=\"uint8\"";

void init_once()
{
    const char* base = getenv("FUZZ_WORKDIR");
    std::string root = base ? base : "/dev/shm";
    g_dir = root + "/sbeppc-fuzz-" + std::to_string(getpid());
    fs::remove_all(g_dir);
    fs::create_directories(g_dir + "/out");
    if(chdir(g_dir.c_str()) != 0) abort();
    write_file("inc_ok.xml", kFragOk, strlen(kFragOk));
    write_file("inc_bad.xml", kFragBad, strlen(kFragBad));
    const char* a = "<types><include href=\"inc_b.xml\"/></types><include href=\"inc_b.xml\"/>";
    const char* b = "<include href=\"inc_a.xml\"/>";
    write_file("inc_a.xml", a, strlen(a));
    write_file("inc_b.xml", b, strlen(b));
    // fragments with several includes: a cycle closed by a non-first include, and a diamond
    const char* c = "<include href=\"inc_ok.xml\"/><include href=\"inc_c.xml\"/>";
    const char* d = "<include href=\"inc_e.xml\"/><include href=\"inc_e.xml\"/>";
    const char* e = "<types><type name=\"incE\" primitiveType=\"int8\"/></types>";
    write_file("inc_c.xml", c, strlen(c));
    write_file("inc_d.xml", d, strlen(d));
    write_file("inc_e.xml", e, strlen(e));
    g_capture_fd = memfd_create("stdout", 0);
    fflush(stdout);
    dup2(g_capture_fd, 1);
    if(const char* k = getenv("FUZZ_KNOWN"))
    {
        std::string s = k;
        size_t pos = 0;
        while(pos <= s.size())
        {
            size_t e = s.find(';', pos);
            if(e == std::string::npos) e = s.size();
            if(e > pos) g_known.insert(s.substr(pos, e - pos));
            pos = e + 1;
        }
    }
    // bound runaway recursion to a clean SIGSEGV quickly
    struct rlimit rl{64ul << 20, 64ul << 20};
    setrlimit(RLIMIT_STACK, &rl);
    atexit([] {
        dump_stats();
        std::error_code ec;
        fs::remove_all(g_dir, ec);
    });
}

std::string read_capture()
{
    fflush(stdout);
    off_t n = lseek(g_capture_fd, 0, SEEK_END);
    std::string s;
    if(n > 0)
    {
        s.resize(n > 65536 ? 65536 : n);
        pread(g_capture_fd, &s[0], s.size(), 0);
    }
    ftruncate(g_capture_fd, 0);
    lseek(g_capture_fd, 0, SEEK_SET);
    return s;
}

bool out_dir_empty()
{
    std::error_code ec;
    for(auto it = fs::recursive_directory_iterator(g_dir + "/out", ec);
        !ec && it != fs::recursive_directory_iterator(); it.increment(ec))
    {
        if(it->is_regular_file(ec)) return false;
    }
    return true;
}

void clean_out()
{
    std::error_code ec;
    for(auto& e : fs::directory_iterator(g_dir + "/out", ec))
    {
        fs::remove_all(e.path(), ec);
    }
}

[[noreturn]] void fail(const char* sig, const std::string& detail)
{
    fprintf(stderr, "\nC09-VIOLATION signature=%s\n%s\n", sig, detail.substr(0, 2000).c_str());
    fflush(stderr);
    dump_stats();
    __builtin_trap();
}
} // namespace

extern "C" int LLVMFuzzerTestOneInput(const uint8_t* data, size_t size)
{
    static bool inited = (init_once(), true);
    (void)inited;
    uint8_t sel = 0, sel2 = 0;
    if(size >= 2)
    {
        sel = data[size - 1];
        sel2 = data[size - 2];
        size -= 2;
    }
    write_file("in.xml", reinterpret_cast<const char*>(data), size);
    clean_out();

    // command line: never --help/--version/argc<2 (they call exit(), which the
    // subprocess argv generator covers instead)
    std::vector<std::string> args{"sbeppc"};
    if(sel & 1) { args.push_back("--schema-name"); args.push_back((sel2 & 1) ? "fz" : ((sel2 & 2) ? "int" : "a-b")); }
    args.push_back("--output-dir");
    args.push_back("out");
    if(sel & 2) { args.push_back("--inject-include"); args.push_back((sel2 & 4) ? "x/y.hpp" : "\"q\".hpp"); }
    if(sel & 4) args.push_back("--");
    args.push_back("in.xml");
    std::vector<char*> argv;
    for(auto& a : args) argv.push_back(&a[0]);
    argv.push_back(nullptr);

    g_n++;
    int rc = -1;
    std::string escaped;
    try
    {
        rc = sbeppc_main(static_cast<int>(argv.size() - 1), argv.data());
    }
    catch(const std::exception& e)
    {
        int st = 0;
        char* dn = abi::__cxa_demangle(typeid(e).name(), nullptr, nullptr, &st);
        escaped = std::string("escape:") + (dn ? dn : typeid(e).name());
        free(dn);
        std::string out = read_capture();
        if(g_known.count(escaped)) { g_known_hits++; return 0; }
        fail(escaped.c_str(), std::string("what(): ") + e.what());
    }
    catch(...)
    {
        if(g_known.count("escape:unknown")) { g_known_hits++; read_capture(); return 0; }
        fail("escape:unknown", "non-std exception escaped main");
    }
    std::string out = read_capture();
    const bool xml_error = out.find("XML parsing error") != std::string::npos;
    if(!xml_error && size > 0)
    {
        // non-trivial: the input is well-formed XML and reached schema parsing
        if(g_nontrivial.insert(fnv(data, size)).second && g_samples.size() < 6 && (g_n % 97 == 0 || g_samples.size() < 2))
        {
            std::string smp = "rc=" + std::to_string(rc) + " input[0:160]=" + std::string(reinterpret_cast<const char*>(data), size < 160 ? size : 160);
            size_t e = out.find("Error");
            if(e != std::string::npos) smp += " || " + out.substr(e, 160);
            g_samples.push_back(smp);
        }
    }
    if(rc == 0)
    {
        g_ok++;
        return 0;
    }
    g_rej++;
    if(xml_error) g_rej_xml++;
    if(out.find("Error") == std::string::npos)
    {
        if(g_known.count("no-diagnostic")) { g_known_hits++; return 0; }
        fail("no-diagnostic", "non-zero return without an Error line; stdout: " + out);
    }
    // an I/O failure while writing the output (e.g. ENAMETOOLONG for a 300
    // character type name) is not a rejection of the schema: C20 covers it and
    // does not demand that partial output is removed
    const bool io_failure = out.find("can't open file: `out") != std::string::npos
        || out.find("can't write file: `out") != std::string::npos
        || out.find("can't create directory") != std::string::npos;
    if(io_failure) g_io_fail++;
    if(!io_failure && !out_dir_empty())
    {
        if(g_known.count("files-left-after-rejection")) { g_known_hits++; return 0; }
        fail("files-left-after-rejection", "rejected but files exist in the output directory; stdout: " + out);
    }
    return 0;
}

// ---------------------------------------------------------------------------
// Structure-aware mutator: parses the schema with pugixml and applies 1..3
// element/attribute level mutations; falls back to libFuzzer's byte mutator
// for unparsable inputs and for a third of the calls.
#include <random>
#include <sstream>
extern "C" size_t LLVMFuzzerMutate(uint8_t* Data, size_t Size, size_t MaxSize);

namespace
{
const char* kValues[] = {
    "", "0", "1", "2", "7", "8", "15", "16", "31", "32", "63", "64", "127", "128", "255", "256",
    "32767", "32768", "65535", "65536", "2147483647", "2147483648", "4294967295", "4294967296",
    "9223372036854775807", "9223372036854775808", "18446744073709551615", "18446744073709551616",
    "-1", "-128", "-129", "-32768", "-32769", "-2147483648", "-2147483649", "-9223372036854775808",
    "-9223372036854775809", "NaN", "INF", "-INF", "+INF", "-NaN", "1e400", "1e-400", "0x10", "010", "1.5", "+5", " 1", "1 ",
    "{}", "{0}", "{:d}", "}{", "%s%n", "a b", "a\"b", "a\\", "'", "\\", "\xc3\xa9",
    "char", "int8", "uint8", "int16", "uint16", "int32", "uint32", "int64", "uint64", "float", "double",
    "constant", "optional", "required", "bigEndian", "littleEndian",
    "in.xml", "inc_a.xml", "inc_b.xml", "inc_c.xml", "inc_d.xml", "inc_e.xml", "inc_ok.xml", "inc_bad.xml", "nonexistent.xml", ".", "out",
    "messageHeader", "groupSizeEncoding", "varDataEncoding", "blockLength", "numInGroup", "templateId",
    "schemaId", "version", "length", "varData", "numGroups", "numVarDataFields",
    "int", "class", "std", "types", "messages", "schema", "detail", "sbepp", "_A", "a__b", "9a", "a-b"};
const char* kAttrs[] = {"name", "id", "type", "primitiveType", "encodingType", "presence", "offset", "length",
    "blockLength", "dimensionType", "headerType", "valueRef", "nullValue", "minValue", "maxValue",
    "sinceVersion", "deprecated", "description", "semanticType", "characterEncoding", "byteOrder",
    "package", "version", "semanticVersion", "href"};
const char* kElems[] = {"type", "composite", "enum", "set", "ref", "field", "group", "data", "validValue",
    "choice", "include", "sbe:message", "message", "types", "sbe:messageSchema", "xi:include"};

template<size_t N>
const char* pick(const char* (&arr)[N], std::minstd_rand& r) { return arr[r() % N]; }

void collect(pugi::xml_node n, std::vector<pugi::xml_node>& out)
{
    for(auto c : n.children())
    {
        if(c.type() == pugi::node_element)
        {
            out.push_back(c);
            collect(c, out);
        }
    }
}

std::string random_value(std::minstd_rand& r, const std::vector<pugi::xml_node>& nodes)
{
    unsigned k = r() % 10;
    if(k < 6) return pick(kValues, r);
    if(k < 8 && !nodes.empty())
    {
        auto n = nodes[r() % nodes.size()];
        std::string nm = n.attribute("name").as_string();
        // names are looked up ignoring letter case: refer to the entity in another spelling now and then
        if(r() % 3 == 0)
        {
            unsigned how = r() % 3;
            for(auto& ch : nm)
            {
                unsigned char u = static_cast<unsigned char>(ch);
                if(how == 0) ch = static_cast<char>(std::toupper(u));
                else if(how == 1) ch = static_cast<char>(std::tolower(u));
                else ch = static_cast<char>(std::isupper(u) ? std::tolower(u) : std::toupper(u));
            }
        }
        if(k == 7 && n.parent() && n.parent().attribute("name"))
            return std::string(n.parent().attribute("name").as_string()) + "." + nm;
        return nm;
    }
    if(k == 8) return std::string(1 + r() % 600, 'a' + r() % 26);
    return std::to_string(static_cast<long long>(r()) * (r() % 3 == 0 ? -1 : 1) * (1ll << (r() % 33)));
}
} // namespace

extern "C" size_t LLVMFuzzerCustomMutator(uint8_t* Data, size_t Size, size_t MaxSize, unsigned int Seed)
{
    std::minstd_rand rnd(Seed ? Seed : 1);
    if(Size < 8 || rnd() % 3 == 0)
        return LLVMFuzzerMutate(Data, Size, MaxSize);
    uint8_t s1 = Data[Size - 1], s2 = Data[Size - 2];
    pugi::xml_document doc;
    auto res = doc.load_buffer(Data, Size - 2, pugi::parse_default | pugi::parse_pi);
    if(!res) return LLVMFuzzerMutate(Data, Size, MaxSize);
    unsigned nmut = 1 + rnd() % 3;
    for(unsigned m = 0; m < nmut; m++)
    {
        std::vector<pugi::xml_node> nodes;
        collect(doc, nodes);
        if(nodes.empty()) break;
        auto n = nodes[rnd() % nodes.size()];
        switch(rnd() % 13)
        {
        case 12: { // respell one referring attribute in another letter case
            static const char* refs[] = {"type", "dimensionType", "encodingType", "headerType", "valueRef"};
            auto at = n.attribute(refs[rnd() % 5]);
            if(!at && n.parent()) at = n.parent().attribute(refs[rnd() % 5]);
            if(at)
            {
                std::string v = at.as_string();
                unsigned how = rnd() % 3;
                for(auto& ch : v)
                {
                    unsigned char u = static_cast<unsigned char>(ch);
                    if(how == 0) ch = static_cast<char>(std::toupper(u));
                    else if(how == 1) ch = static_cast<char>(std::tolower(u));
                    else ch = static_cast<char>(std::isupper(u) ? std::tolower(u) : std::toupper(u));
                }
                at.set_value(v.c_str());
            }
            break; }
        case 0: { // remove attribute
            std::vector<pugi::xml_attribute> as(n.attributes_begin(), n.attributes_end());
            if(!as.empty()) n.remove_attribute(as[rnd() % as.size()]);
            break; }
        case 1: case 2: case 3: { // change attribute value
            std::vector<pugi::xml_attribute> as(n.attributes_begin(), n.attributes_end());
            if(!as.empty()) as[rnd() % as.size()].set_value(random_value(rnd, nodes).c_str());
            break; }
        case 4: { // add / overwrite a known attribute
            const char* a = pick(kAttrs, rnd);
            auto at = n.attribute(a);
            if(!at) at = n.append_attribute(a);
            at.set_value(random_value(rnd, nodes).c_str());
            break; }
        case 5: n.set_name(pick(kElems, rnd)); break;
        case 6: if(n.parent()) n.parent().remove_child(n); break;
        case 7: if(n.parent()) n.parent().insert_copy_after(n, n); break;
        case 8: { // move under another node
            auto t = nodes[rnd() % nodes.size()];
            bool inside = false;
            for(auto p = t; p; p = p.parent()) if(p == n) inside = true;
            if(!inside) { if(rnd() % 2) t.append_move(n); else t.prepend_move(n); }
            break; }
        case 9: { // set text content
            for(auto c : n.children()) if(c.type() == pugi::node_pcdata) { n.remove_child(c); break; }
            n.append_child(pugi::node_pcdata).set_value(random_value(rnd, nodes).c_str());
            break; }
        case 10: { // swap with next sibling
            auto s = n.next_sibling();
            if(s && n.parent()) n.parent().insert_move_after(n, s);
            break; }
        case 11: { // add a new child element with a name
            auto c = n.append_child(pick(kElems, rnd));
            c.append_attribute("name").set_value(random_value(rnd, nodes).c_str());
            c.append_attribute(pick(kAttrs, rnd)).set_value(random_value(rnd, nodes).c_str());
            if(rnd() % 2) c.append_attribute("id").set_value(random_value(rnd, nodes).c_str());
            break; }
        }
    }
    std::ostringstream os;
    doc.save(os, "", pugi::format_raw | pugi::format_no_declaration);
    std::string s = os.str();
    if(rnd() % 8 == 0) s1 = static_cast<uint8_t>(rnd());
    if(rnd() % 8 == 0) s2 = static_cast<uint8_t>(rnd());
    if(s.size() + 2 > MaxSize) return LLVMFuzzerMutate(Data, Size, MaxSize);
    memcpy(Data, s.data(), s.size());
    Data[s.size()] = s2;
    Data[s.size() + 1] = s1;
    return s.size() + 2;
}
