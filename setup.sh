#!/bin/sh
# Offline setup: nothing to install. Pre-builds the tree-independent pieces.
set -e
cd "$(dirname "$0")"
mkdir -p build evidence replays
/opt/veriftools/pyvenv/bin/python -B -c "
import sys; sys.path.insert(0,'.')
from vlib.checks import c20
print('faultinject:', c20.build_injector())
"
echo setup ok
