HOOKS = {
    "guard": "SBEPP_VERIF_HOOKS",
    "enable": "no source hooks exist: checks build /repo's working tree unmodified (the library's own SBEPP_ENABLE_ASSERTS_WITH_HANDLER extension point, a macro rename of sbeppc's main in the fuzz TU, LD_PRELOAD interposition)",
    "baseline_off_cmd": "cmake --build /repo/_build -j16 && ctest --test-dir /repo/_build -j8 --timeout 900",
    "source_commits": [],
    "add_only": True,
}
ENGINES = [
    {"name": "schema-pool", "path": "vlib/schemagen.py, vlib/model.py, vlib/drivergen.py, vlib/pool.py, vlib/poolcheck.py, harness/driver_rt.hpp",
     "serves_properties": ["C01", "C02", "C03", "C04", "C05", "C06", "C07", "C08", "C10", "C11", "C17", "C18", "C19"],
     "kind_free_text": "Hypothesis schema generator + independent Python reference model + per-schema generated C++ driver (persistent process, guard pages, assertion handler) built by the tree's sbeppc in g++/clang++ x C++11..23"},
    {"name": "libfuzzer-sbeppc", "path": "harness/fuzz_sbeppc.cpp + vlib/checks/c09.py", "serves_properties": ["C09"],
     "kind_free_text": "libFuzzer target wrapping sbeppc's main (macro rename) with an XML structure-aware custom mutator and an in-target oracle; Hypothesis argv generator"},
    {"name": "faultinject", "path": "harness/faultinject.c + vlib/checks/c20.py", "serves_properties": ["C20"],
     "kind_free_text": "LD_PRELOAD shim failing the k-th mkdir/open/write of sbeppc; exhaustive enumeration over k x errno x mode x schema"},
]
NOTES = "Technique family: property-based testing and fuzzing (Hypothesis, rapidcheck, libFuzzer, exhaustive small-scope enumeration, fault enumeration). See DESIGN.md."
_NOT_BUILT = "check not built yet in this session (designed in DESIGN.md section 4); not claimed until its machinery exists and passes on the unchanged tree"
NOT_APPLICABLE = {("C%02d" % i): _NOT_BUILT for i in range(1, 21)}
_POOL_NOTE = "Trusted base: the Python reference model (vlib/model.py) written from the SBE rules; g++ 12.2 / clang 14 with libstdc++ 12 stand for gcc/clang; schema shapes are those of the generator (DESIGN 3.2) with small images (<= 3 entries per group instance, data <= 24 bytes)."
CHECKS = {
    "C01": {
        "engine": "schema-pool",
        "category": "exploration",
        "text": "Over the generated schema pool: Hypothesis draws in-order encode scripts (fill_message_header or hand-written blockLength; a random subset and order of field setters incl. composite members, sets built from choice setters or raw values, array assign/fill/assign_string forms; per group fill_group_header or hand-written header + resize; per data one of the assign/resize/push_back/insert forms) and a background buffer; the generated driver executes the script through named accessors and the whole buffer must equal the background overlaid with exactly the bytes the independent reference model attributes to each operation (so wrong offsets, byte order, widths, strides, stray or missing writes all show), in every config of the pool entry.",
        "design_ref": "DESIGN.md 3.3-3.5, 4 (C01)",
        "note": _POOL_NOTE,
        "technique": "property-based testing with a reference overlay encoder and whole-buffer comparison (Hypothesis)",
    },
    "C05": {
        "engine": "schema-pool",
        "category": "exploration",
        "text": "Over the generated schema pool and generated value trees: run-time size_bytes of the message, header, every group, entry, data member, composite and array, the cursor-based size after a full traversal, size_bytes_checked, and the trait formulas size_bytes(counts..., total_data) of the message and of every group instance (arguments computed by the model in the documented parameter order) must all equal the sizes of the reference image.",
        "design_ref": "DESIGN.md 4 (C05)",
        "note": _POOL_NOTE + " Products of huge numInGroup/blockLength values (beyond 2^31) are not covered by this part yet.",
        "technique": "property-based differential testing of size computations against reference image sizes (Hypothesis)",
    },
    "C17": {
        "engine": "schema-pool",
        "category": "exploration",
        "text": "Over the generated schema pool (header composites with members in any order, custom offsets, extra members, ref-typed members, any integer types, optional counters): fill_message_header for every message and fill_group_header for a randomly chosen group at any depth (ancestors entered through reference-filled headers) with numInGroup in {0, 1, type max, random}, on a generated background; whole-buffer equality with the reference overlay shows both the exact values and that no other byte (padding, extra members) is touched; the returned view's address must be the header's.",
        "design_ref": "DESIGN.md 4 (C17)",
        "note": _POOL_NOTE,
        "technique": "property-based testing with reference overlay and whole-buffer comparison (Hypothesis)",
    },
    "C19": {
        "engine": "schema-pool",
        "category": "exploration",
        "text": "Over the generated schema pool and reference-encoded images (with and without inflated block lengths): a recording visitor is stopped at the k-th callback for every k (all k for traversals up to 40 callbacks, boundaries + sample beyond); the event log must equal the model's expected sequence truncated at k, no callback may follow the stop, and after a complete visit the cursor must be at the message end. Enum values and sets are visited inside the traversal (value tag / unknown tag; every choice with its bit). get_by_tag dumps must equal the value tree and set_by_tag scripts must produce the reference overlay buffer.",
        "design_ref": "DESIGN.md 4 (C19), A.4",
        "note": _POOL_NOTE + " visit() on stand-alone group/entry/composite views is exercised only through the nested traversal from the message.",
        "technique": "property-based testing with a model of the expected callback sequence and exhaustive stop points per case (Hypothesis)",
    },
    "C02": {
        "engine": "schema-pool",
        "category": "exploration",
        "text": "Two-level generated search: Hypothesis generates valid schemas (all primitive types, both byte orders, custom offsets/blockLengths, refs, inline composites, constants, optional/required, nested groups, data, every unsigned header/dimension/length type), the tree's sbeppc compiles them and a generated driver is built in rotating compiler x standard configs (union covers g++/clang++ x C++11..23); then per case a message image is produced by an independent Python encoder from a generated value tree (boundary-biased raw bit patterns incl. NaN payloads) and the driver's dump of every named getter (random access, cursor traversal, visit) must equal the tree bit-exactly in every config. Failures shrink at case level. Exploration is the right level: the property quantifies over all schemas and images.",
        "design_ref": "DESIGN.md 3.2-3.5, 4 (C02)",
        "note": _POOL_NOTE + " Constant evaluation (constexpr) is not yet exercised by this check.",
        "technique": "property-based differential testing against an independent reference encoder (Hypothesis, two-level schema/case generation)",
    },
    "C03": {
        "engine": "schema-pool",
        "category": "exploration",
        "text": "As C02, but every image is encoded with independently inflated wire block lengths (root block and every group instance, as a newer schema version would produce); random-access, cursor and visit dumps must all equal the value tree, group headers must report the wire blockLength and the cursor must end at the wire size.",
        "design_ref": "DESIGN.md 4 (C03)",
        "note": _POOL_NOTE,
        "technique": "property-based differential testing against an independent reference encoder with schema-extension inflation",
    },
    "C07": {
        "engine": "schema-pool",
        "category": "exploration",
        "text": "The pool build is the check: for Hypothesis-generated valid schemas (clash-prone fixed identifier pool; a second pool with text that needs escaping and odd numeric literal forms) sbeppc exit 0 must imply that every generated header compiles on its own and that a generated touch-everything TU (every accessor in getter/setter/cursor form, fillers, visitors, size functions, reached only through schema names and documented paths) compiles, in g++/clang++ x C++11..23 (3 rotating configs per schema in quick, all 10 in thorough). A failing schema is shrunk by Hypothesis. Entities named like the generator's own identifiers are probed separately (known finding).",
        "design_ref": "DESIGN.md 3.2, 3.5, 4 (C07)",
        "note": "Compiler exit status is the oracle; macro names and reserved identifiers are outside the name pool; only g++ 12.2 / clang 14 with libstdc++ 12.",
        "technique": "property-based generation of schemas with compile-success oracle (Hypothesis)",
    },
    "C09": {
        "engine": "libfuzzer-sbeppc",
        "category": "exploration",
        "text": "Coverage-guided fuzzing (libFuzzer, 16 workers) of sbeppc's real main() in process, built from the working tree with ASan+UBSan, libstdc++ assertions and assert() enabled; byte-level mutations plus a structure-aware XML mutator (attribute deletion/garbling with extreme numbers and format-string text, element moves/duplication/renaming, reference retargeting, include graphs incl. cyclic ones) seeded with the repository's valid and error schemas and generated valid schemas; Hypothesis-generated command lines against the hardened binary. The oracle is in the target: exit 0, or non-zero with an Error line and an empty output directory; any escaping exception, abort, sanitizer report or reproducible hang is a violation. Exploration is the right level: the input space is all byte strings, only search can sample it.",
        "design_ref": "DESIGN.md 3.8, 4 (C09)",
        "note": "Trusts that the instrumented build differs from the release build only by the added checks; libFuzzer campaigns are only approximately reproducible from the seed (the saved input is the reproducible unit); I/O failures while writing output (e.g. ENAMETOOLONG) are not treated as schema rejections.",
        "technique": "coverage-guided fuzzing (libFuzzer + structure-aware mutator) with in-target oracle; Hypothesis argv generation",
    },
    "C20": {
        "engine": "faultinject",
        "category": "fault_enumeration",
        "text": "Every single output I/O call of a run (k-th mkdir / write-mode open / write, k = 1..N) is failed with ENOSPC/EACCES/EIO or made short-then-failing, for the repository's 17 schemas plus generated ones, into fresh and populated directories; exit 0 must imply a byte-identical output tree, a fired fault must give non-zero exit and an Error line; reruns must be byte-identical. Exhaustive per schema in the thorough tier, a rotating third in the quick tier. This is the right level because the property quantifies over single fault points, which can be enumerated completely.",
        "design_ref": "DESIGN.md 3.9, 4 (C20)",
        "note": "Trusts that all output I/O reaches libc through the interposed entry points (verified for libstdc++ ofstream/filesystem here); close() failures and multi-fault sequences are not injected.",
        "technique": "fault enumeration (LD_PRELOAD k-th call failure) + rerun differential",
    },
}
