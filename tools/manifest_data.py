HOOKS = {
    "guard": "SBEPP_VERIF_HOOKS",
    "enable": "no source hooks exist: checks build /repo's working tree unmodified (the library's own SBEPP_ENABLE_ASSERTS_WITH_HANDLER extension point, a macro rename of sbeppc's main in the fuzz TU, LD_PRELOAD interposition)",
    "baseline_off_cmd": "cmake --build /repo/_build -j16 && ctest --test-dir /repo/_build -j8 --timeout 900",
    "source_commits": [],
    "add_only": True,
}
ENGINES = [
    {"name": "libfuzzer-sbeppc", "path": "harness/fuzz_sbeppc.cpp + vlib/checks/c09.py", "serves_properties": ["C09"],
     "kind_free_text": "libFuzzer target wrapping sbeppc's main (macro rename) with an XML structure-aware custom mutator and an in-target oracle; Hypothesis argv generator"},
    {"name": "faultinject", "path": "harness/faultinject.c + vlib/checks/c20.py", "serves_properties": ["C20"],
     "kind_free_text": "LD_PRELOAD shim failing the k-th mkdir/open/write of sbeppc; exhaustive enumeration over k x errno x mode x schema"},
]
NOTES = "Technique family: property-based testing and fuzzing (Hypothesis, rapidcheck, libFuzzer, exhaustive small-scope enumeration, fault enumeration). See DESIGN.md."
_NOT_BUILT = "check not built yet in this session (designed in DESIGN.md section 4); not claimed until its machinery exists and passes on the unchanged tree"
NOT_APPLICABLE = {("C%02d" % i): _NOT_BUILT for i in range(1, 21)}
CHECKS = {
    "C09": {
        "engine": "libfuzzer-sbeppc",
        "category": "exploration",
        "text": "Coverage-guided fuzzing (libFuzzer, 16 workers) of sbeppc's real main() in process, built from the working tree with ASan+UBSan, libstdc++ assertions and assert() enabled; byte-level mutations plus a structure-aware XML mutator (attribute deletion/garbling with extreme numbers and format-string text, element moves/duplication/renaming, reference retargeting, include graphs incl. cyclic ones) seeded with the repository's valid and error schemas and generated valid schemas; Hypothesis-generated command lines against the hardened binary. The oracle is in the target: exit 0, or non-zero with an Error line and an empty output directory; any escaping exception, abort, sanitizer report or reproducible hang is a violation. Exploration is the right level: the input space is all byte strings, only search can sample it.",
        "design_ref": "DESIGN.md 3.8, 4 (C09)",
        "note": "Trusts that the instrumented build differs from the release build only by the added checks; libFuzzer campaigns are only approximately reproducible from the seed (the saved input is the reproducible unit); I/O failures while writing output (e.g. ENAMETOOLONG) are not treated as schema rejections.",
        "technique": "coverage-guided fuzzing (libFuzzer + structure-aware mutator) with in-target oracle; Hypothesis argv generation",
    },
    "C20": {
        "engine": "faultinject",
        "category": "fault_enumeration",
        "text": "Every single output I/O call of a run (k-th mkdir / write-mode open / write, k = 1..N) is failed with ENOSPC/EACCES/EIO or made short-then-failing, for the repository's 17 schemas plus generated ones, into fresh and populated directories; exit 0 must imply a byte-identical output tree, a fired fault must give non-zero exit and an Error line; reruns must be byte-identical. Exhaustive per schema in the thorough tier, a rotating third in the quick tier. This is the right level because the property quantifies over single fault points, which can be enumerated completely.",
        "design_ref": "DESIGN.md 3.9, 4 (C20)",
        "note": "Trusts that all output I/O reaches libc through the interposed entry points (verified for libstdc++ ofstream/filesystem here); close() failures and multi-fault sequences are not injected.",
        "technique": "fault enumeration (LD_PRELOAD k-th call failure) + rerun differential",
    },
}
