#!/usr/bin/env python3
"""Writes /verif/MANIFEST.json from the table below (single source of truth)."""
import json, os, sys
HERE = os.path.dirname(os.path.dirname(os.path.abspath(__file__)))
sys.path.insert(0, HERE)
from tools.manifest_data import CHECKS, NOT_APPLICABLE, ENGINES, HOOKS, NOTES

props = [json.loads(l)["id"] for l in open(os.path.join(HERE, "properties.jsonl"))]
checks = []
for pid in props:
    if pid in CHECKS:
        c = CHECKS[pid]
        checks.append({
            "property_id": pid,
            "quick_cmd": "./check %s --tier quick" % pid,
            "thorough_cmd": "./check %s --tier thorough" % pid,
            "evidence_file": "/verif/evidence/%s.json" % pid,
            "replay_cmd_template": "./check %s --replay {path}" % pid,
            "engine": c["engine"],
            "level_claimed": {"category": c["category"], "text": c["text"], "design_ref": c["design_ref"]},
            "level_note": c["note"],
            "technique": c["technique"],
        })
na = [{"property_id": p, "reason": NOT_APPLICABLE[p]} for p in props if p not in CHECKS]
assert all(p in NOT_APPLICABLE for p in props if p not in CHECKS), "every unclaimed property needs a reason"
m = {"version": 1,
     "setup_cmd": "./setup.sh",
     "hooks": HOOKS,
     "engines": ENGINES,
     "checks": checks,
     "not_applicable": na,
     "notes": NOTES}
import jsonschema
jsonschema.validate(m, json.load(open(os.path.join(HERE, "schemas/MANIFEST.schema.json"))))
json.dump(m, open(os.path.join(HERE, "MANIFEST.json"), "w"), indent=1)
print("MANIFEST.json: %d checks, %d not_applicable" % (len(checks), len(na)))
