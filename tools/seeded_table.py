#!/usr/bin/env python3
"""Prints the markdown table of seeded changes and which checks detect them (from seeded/*/meta.json).
--short: one compact line per seed (used for DESIGN.md 9.5)."""
import glob, json, os, re, sys
HERE = os.path.dirname(os.path.dirname(os.path.abspath(__file__)))
design = "--design" in sys.argv
short = "--short" in sys.argv or design
rows = []
for mp in sorted(glob.glob(os.path.join(HERE, "seeded", "*", "meta.json"))):
    m = json.load(open(mp))
    c = m.get("confirmed", {})
    det = [k for k, v in sorted(m.get("checks", {}).items()) if v.get("detected")]
    miss = [k for k, v in sorted(m.get("checks", {}).items()) if not v.get("detected")]
    times = ", ".join("%s %ds" % (k, m["checks"][k]["wall_s"]) for k in det)
    summ = re.sub(r"\s+", " ", (m.get("summary") or "")).replace("|", "/")
    if short:
        rows.append("| %s | %s | %s | %s | %s |" % (
            m["name"], summ[:170] + ("…" if len(summ) > 170 else ""),
            "yes/yes" if c.get("suite_passes") and c.get("demo_discriminates") else "NO", times or "**none**", ", ".join(miss) or "-"))
    else:
        rows.append("| %s | %s | %s | %s | %s | %s | %s |" % (
            m["name"], summ[:150], (m.get("needs_to_manifest") or "").replace("|", "/")[:150],
            "yes" if c.get("suite_passes") else "NO", "yes" if c.get("demo_discriminates") else "NO",
            times or "-", ", ".join(miss) or "-"))
hdr = []
if short:
    hdr.append("| seed | change (first words of the author's summary; full text in seeded/<id>/meta.json) | suite passes / demo discriminates | detected by (quick tier, wall s) | also run, not detected by |")
    hdr.append("|---|---|---|---|---|")
else:
    hdr.append("| seed | change | needs to manifest | suite passes | demo fails/passes | detected by (quick, wall incl. rebuild) | run but not detected by |")
    hdr.append("|---|---|---|---|---|---|---|")
text = "\n".join(hdr + rows)
if design:
    dp = os.path.join(HERE, "DESIGN.md")
    d = open(dp).read()
    a = d.index("<!-- seeded-table-begin")
    a = d.index("\n", a) + 1
    b = d.index("<!-- seeded-table-end")
    open(dp, "w").write(d[:a] + text + "\n" + d[b:])
    print("DESIGN.md table updated: %d seeds" % len(rows))
else:
    print(text)
