#!/usr/bin/env python3
"""Prints the markdown table of seeded changes and which checks detect them (from seeded/*/meta.json).
--short: one compact line per seed (used for DESIGN.md 9.5)."""
import glob, json, os, re, sys
HERE = os.path.dirname(os.path.dirname(os.path.abspath(__file__)))
short = "--short" in sys.argv
rows = []
for mp in sorted(glob.glob(os.path.join(HERE, "seeded", "*", "meta.json"))):
    m = json.load(open(mp))
    c = m.get("confirmed", {})
    det = [k for k, v in sorted(m.get("checks", {}).items()) if v.get("detected")]
    miss = [k for k, v in sorted(m.get("checks", {}).items()) if not v.get("detected")]
    times = ", ".join("%s %ds" % (k, m["checks"][k]["wall_s"]) for k in det)
    summ = re.sub(r"\s+", " ", (m.get("summary") or "")).replace("|", "/")
    if short:
        rows.append("| %s | %s | %s | %s | %s |" % (
            m["name"], summ[:170] + ("…" if len(summ) > 170 else ""),
            "yes/yes" if c.get("suite_passes") and c.get("demo_discriminates") else "NO", times or "**none**", ", ".join(miss) or "-"))
    else:
        rows.append("| %s | %s | %s | %s | %s | %s | %s |" % (
            m["name"], summ[:150], (m.get("needs_to_manifest") or "").replace("|", "/")[:150],
            "yes" if c.get("suite_passes") else "NO", "yes" if c.get("demo_discriminates") else "NO",
            times or "-", ", ".join(miss) or "-"))
if short:
    print("| seed | change (first words of the author's summary; full text in seeded/<id>/meta.json) | suite passes / demo discriminates | detected by (quick tier, wall s) | also run, not detected by |")
    print("|---|---|---|---|---|")
else:
    print("| seed | change | needs to manifest | suite passes | demo fails/passes | detected by (quick, wall incl. rebuild) | run but not detected by |")
    print("|---|---|---|---|---|---|---|")
print("\n".join(rows))
