#!/usr/bin/env python3
"""Prints the markdown table of seeded changes and which checks detect them (from seeded/*/meta.json)."""
import glob, json, os
HERE = os.path.dirname(os.path.dirname(os.path.abspath(__file__)))
rows = []
for mp in sorted(glob.glob(os.path.join(HERE, "seeded", "*", "meta.json"))):
    m = json.load(open(mp))
    c = m.get("confirmed", {})
    det = [k for k, v in sorted(m.get("checks", {}).items()) if v.get("detected")]
    miss = [k for k, v in sorted(m.get("checks", {}).items()) if not v.get("detected")]
    times = ", ".join("%s %ds" % (k, m["checks"][k]["wall_s"]) for k in det)
    rows.append("| %s | %s | %s | %s | %s | %s | %s |" % (
        m["name"], (m.get("summary") or "").replace("|", "/")[:150], (m.get("needs_to_manifest") or "").replace("|", "/")[:150],
        "yes" if c.get("suite_passes") else "NO", "yes" if c.get("demo_discriminates") else "NO",
        times or "-", ", ".join(miss) or "-"))
print("| seed | change | needs to manifest | suite passes | demo fails/passes | detected by (quick, wall incl. rebuild) | run but not detected by |")
print("|---|---|---|---|---|---|---|")
print("\n".join(rows))
