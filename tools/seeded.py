#!/usr/bin/env python3
"""Confirm a seeded change and run checks against it.

usage: tools/seeded.py <src-dir> <name> <check-id>[,<check-id>...]
  <src-dir>  directory holding patch.diff, demo/run.sh, meta.json (as delivered by a sub-agent)
  <name>     name under /verif/seeded/ (e.g. C03-1)

Steps (all in a scratch worktree of /repo under /tmp, removed afterwards):
  1. patch applies; full build + pinned suite pass with the change;
  2. the demonstration fails with the change and passes without it;
  3. the given checks (quick tier) are run against the changed tree (VERIF_REPO=<worktree>);
  4. everything is recorded in /verif/seeded/<name>/meta.json.
"""
import json
import os
import re
import shutil
import subprocess
import sys
import time

VERIF = os.path.dirname(os.path.dirname(os.path.abspath(__file__)))


def sh(cmd, cwd=None, timeout=7200, env=None):
    r = subprocess.run(cmd, shell=True, cwd=cwd, stdout=subprocess.PIPE, stderr=subprocess.STDOUT, timeout=timeout, env=env)
    return r.returncode, r.stdout.decode(errors="replace")


def main():
    src, name, checks = sys.argv[1], sys.argv[2], sys.argv[3].split(",")
    skip_suite = "--skip-suite" in sys.argv
    dst = os.path.join(VERIF, "seeded", name)
    os.makedirs(dst, exist_ok=True)
    shutil.copy(os.path.join(src, "patch.diff"), os.path.join(dst, "patch.diff"))
    if os.path.isdir(os.path.join(dst, "demo")):
        shutil.rmtree(os.path.join(dst, "demo"))
    shutil.copytree(os.path.join(src, "demo"), os.path.join(dst, "demo"))
    agent_meta = {}
    try:
        agent_meta = json.load(open(os.path.join(src, "meta.json")))
    except Exception:
        pass
    wt = "/tmp/sv_%s" % re.sub(r"[^A-Za-z0-9]", "_", name)
    # the author's own worktree (sibling `wt` of the delivery directory) is reused when it holds exactly the delivered
    # patch on top of the current HEAD and has a build directory: the build below is then incremental
    reuse = os.path.join(os.path.dirname(os.path.abspath(src.rstrip("/"))), "wt")
    own = False
    if os.path.isdir(os.path.join(reuse, "_build")):
        head_ok = sh("git -C %s rev-parse HEAD" % reuse)[1].strip() == sh("git -C /repo rev-parse HEAD")[1].strip()
        sh("git checkout -- .", cwd=reuse)
        clean = sh("git status --porcelain --untracked-files=no", cwd=reuse)[1].strip() == ""
        if head_ok and clean:
            wt, own = reuse, True
    if not own:
        sh("git -C /repo worktree remove --force %s" % wt)
        rc, out = sh("git -C /repo worktree add -f %s HEAD" % wt)
        assert rc == 0, out
    rec = {"name": name, "property": agent_meta.get("property"), "summary": agent_meta.get("summary"),
           "needs_to_manifest": agent_meta.get("needs_to_manifest"), "base_commit": sh("git -C /repo rev-parse --short HEAD")[1].strip(),
           "confirmed": {}, "checks": {}}
    try:
        rc, out = sh("git apply %s" % os.path.join(dst, "patch.diff"), cwd=wt)
        rec["confirmed"]["patch_applies"] = (rc == 0)
        if rc != 0:
            rec["confirmed"]["error"] = out[-500:]
            return rec
        cfg = ("cmake -G Ninja -B _build -DCMAKE_BUILD_TYPE=RelWithDebInfo -DCMAKE_CXX_FLAGS=-Wno-error -DSBEPP_DEV_MODE=ON "
               "-DSBEPP_BUILD_TESTS=ON -DSBEPP_SEPARATE_TESTS=ON -DCMAKE_PREFIX_PATH=/root/miniconda")
        if not skip_suite:
            rc, out = sh(cfg + " && cmake --build _build -j16", cwd=wt)
            rec["confirmed"]["builds"] = (rc == 0)
            if rc != 0:
                rec["confirmed"]["error"] = out[-800:]
                return rec
            rc, out = sh("ctest --test-dir _build -j8 --timeout 900 | tail -4", cwd=wt)
            m = re.search(r"(\d+)% tests passed, (\d+) tests failed out of (\d+)", out)
            rec["confirmed"]["suite"] = m.group(0) if m else out[-300:]
            rec["confirmed"]["suite_passes"] = bool(m and m.group(2) == "0")
        else:
            rc, out = sh(cfg + " -DSBEPP_BUILD_TESTS=OFF && cmake --build _build -j16 --target sbepp_sbeppc", cwd=wt)
            rec["confirmed"]["builds"] = (rc == 0)
        sbeppc = os.path.join(wt, "_build/sbeppc/sbeppc")
        rc, out = sh("bash run.sh %s %s" % (wt, sbeppc), cwd=os.path.join(dst, "demo"), timeout=1800)
        rec["confirmed"]["demo_with_change"] = {"exit": rc, "tail": out[-400:]}
        # without the change
        sh("git checkout -- .", cwd=wt)
        rc2, out2 = sh("cmake --build _build -j16 --target sbepp_sbeppc", cwd=wt)
        rc3, out3 = sh("bash run.sh %s %s" % (wt, sbeppc), cwd=os.path.join(dst, "demo"), timeout=1800)
        rec["confirmed"]["demo_without_change"] = {"exit": rc3, "tail": out3[-300:]}
        rec["confirmed"]["demo_discriminates"] = (rc != 0 and rc3 == 0)
        # checks against the changed tree
        sh("git apply %s" % os.path.join(dst, "patch.diff"), cwd=wt)
        env = dict(os.environ)
        env["VERIF_REPO"] = wt
        for c in checks:
            if not c:
                continue
            t0 = time.time()
            rc, out = sh("./check %s --tier quick" % c, cwd=VERIF, env=env, timeout=5400)
            viol = [l for l in out.splitlines() if l.startswith("VIOLATION")]
            what = [l.strip() for l in out.splitlines() if l.strip().startswith("what:")]
            rec["checks"][c] = {"exit": rc, "detected": rc == 1 and bool(viol), "wall_s": round(time.time() - t0, 1),
                                "violations": [re.sub(r"replay=\S+/", "replay=", v) for v in viol][:4], "what": [w[:300] for w in what][:3],
                                "tail": out[-300:] if rc not in (0, 1) else ""}
        key = sh("python3-vt -B -c \"import sys; sys.path.insert(0,'%s'); from vlib import common; print(common.tree_key())\"" % VERIF, env=env)[1].strip()
        if re.fullmatch(r"[0-9a-f]{16}", key):
            shutil.rmtree(os.path.join(VERIF, "build", key), ignore_errors=True)
    finally:
        # replays produced against the scratch tree are not kept
        sh("git -C /repo worktree remove --force %s" % wt)
        shutil.rmtree(wt, ignore_errors=True)
        sh("git -C /repo worktree prune")
        old = {}
        mp = os.path.join(dst, "meta.json")
        if os.path.exists(mp):
            try:
                old = json.load(open(mp))
            except Exception:
                old = {}
        if old.get("checks"):
            merged = old["checks"]
            merged.update(rec["checks"])
            rec["checks"] = merged
        if skip_suite and old.get("confirmed"):
            rec["confirmed"] = old["confirmed"]
        with open(mp, "w") as f:
            json.dump(rec, f, indent=1)
        print(json.dumps(rec, indent=1)[:3000])
    return rec


if __name__ == "__main__":
    main()
